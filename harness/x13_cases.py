"""X13 -- case families for the XCP checks (plain JSON cases, see harness/x13_run.py).

Scripted slaves are described by the BYTES they answer with; nothing here knows what gallia makes of them.
"""

from __future__ import annotations

import itertools
import random
from typing import Any

MASTER, SLAVE, FOREIGN = 0x7E0, 0x7D0, 0x123


def P(b: bytes | list[int]) -> dict[str, str]:
    return {"d": bytes(b).hex()}


# ------------------------------------------------------------------ response builders (ASAM XCP part 2 tables)
def connect_resp(res: int = 0x15, comm: int = 0xC0, cto: int = 8, dto: tuple[int, int] = (1, 2), pl: int = 1,
                 tl: int = 1) -> bytes:
    return bytes([0xFF, res, comm, cto, dto[0], dto[1], pl, tl])


def status_resp(st: int = 0xC9, prot: int = 0x15, rsv: int = 0, cfg: tuple[int, int] = (0x12, 0x34)) -> bytes:
    return bytes([0xFF, st, prot, rsv, cfg[0], cfg[1]])


def commmode_resp(r1: int = 0, opt: int = 3, r2: int = 0, bs: int = 1, st: int = 2, q: int = 3, ver: int = 4) -> bytes:
    return bytes([0xFF, r1, opt, r2, bs, st, q, ver])


def getid_resp(mode: int, ln: tuple[int, int, int, int], ident: bytes = b"", r: tuple[int, int] = (0, 0)) -> bytes:
    return bytes([0xFF, mode, r[0], r[1], *ln]) + ident


def dword(n: int, big: bool) -> tuple[int, int, int, int]:
    b = n.to_bytes(4, "big" if big else "little")
    return (b[0], b[1], b[2], b[3])


POSITIVE = {
    "connect": connect_resp(),
    "disconnect": bytes([0xFF]),
    "get_status": status_resp(),
    "get_comm_mode_info": commmode_resp(),
    "get_id": getid_resp(0, (4, 3, 2, 1)),
    "upload": bytes([0xFF, 1, 2, 3, 4]),
}
METHODS = list(POSITIVE)
ARG = {"get_id": 1, "upload": 4}


def call(m: str, ans: list[Any], arg: int | None = None) -> dict[str, Any]:
    a = arg if arg is not None else ARG.get(m)
    return {"m": m, "arg": a, "ans": ans}


def conn(big: bool, comm_hi: int = 0xC0) -> dict[str, Any]:
    return call("connect", [P(connect_resp(comm=comm_hi | (1 if big else 0)))])


def sess(calls: list[dict[str, Any]], origin: str, tr: str = "raw", timeout: float = 1.0,
         master: int = MASTER, slave: int = SLAVE) -> dict[str, Any]:
    c: dict[str, Any] = {"kind": "sess", "tr": tr, "timeout": timeout, "calls": calls, "origin": origin}
    if tr == "can":
        c["master"], c["slave"] = master, slave
        for cl in c["calls"]:
            cl["ans"] = [_to_frame(a, master, i) for i, a in enumerate(cl["ans"])]
    return c


def _to_frame(a: Any, master: int, i: int) -> Any:
    if isinstance(a, dict) and "d" in a and "src" not in a:
        return {"at": 2 + i, "src": master, "d": a["d"]}
    return a


def chunked(calls: list[dict[str, Any]], origin: str, pre: list[dict[str, Any]] | None = None, n: int = 48,
            **kw: Any) -> list[dict[str, Any]]:
    out = []
    for off in range(0, len(calls), n):
        out.append(sess([dict(c) for c in (pre or [])] + calls[off:off + n], f"{origin}[{off}]", **kw))
    return out


# ------------------------------------------------------------------ exhaustive sweeps (raw transport)
def sweeps(tier: str) -> list[dict[str, Any]]:
    out: list[dict[str, Any]] = []
    full = tier == "thorough"
    # CONNECT: every RESOURCE byte, both byte orders
    for big in (False, True):
        calls = [call("connect", [P(connect_resp(res=r, comm=0x40 | big, dto=(r, 255 - r)))]) for r in range(256)]
        out += chunked(calls, f"connect-resource-{'be' if big else 'le'}")
    # CONNECT: every COMM_MODE_BASIC byte, then GET_STATUS shows the byte order in effect
    calls = []
    for c in range(256):
        calls.append(call("connect", [P(connect_resp(comm=c, dto=(0x12, 0x34)))]))
        calls.append(call("get_status", [P(status_resp(cfg=(0xAB, 0xCD)))]))
    out += chunked(calls, "connect-commmode")
    # word boundary values
    words = [(0, 0), (0, 1), (1, 0), (0, 255), (255, 0), (0x12, 0x34), (0x7F, 0xFF), (0x80, 0), (255, 255), (255, 254)]
    for big in (False, True):
        calls = []
        for w in words:
            calls.append(call("connect", [P(connect_resp(comm=0x80 | big, dto=w))]))
            calls.append(call("get_status", [P(status_resp(cfg=w))]))
        out += chunked(calls, f"words-{'be' if big else 'le'}")
    # GET_STATUS: every status byte, every protection byte, reserved byte
    for big in (False, True):
        calls = [call("get_status", [P(status_resp(st=b, prot=255 - b, rsv=b if b % 5 == 0 else 0))])
                 for b in range(256)]
        out += chunked(calls, f"status-bytes-{'be' if big else 'le'}", pre=[conn(big)])
    # GET_COMM_MODE_INFO: every optional byte, reserved bytes, the other fields
    calls = [call("get_comm_mode_info", [P(commmode_resp(r1=b if b % 3 == 0 else 0, opt=b, r2=(b * 7) % 256, bs=b,
                                                         st=255 - b, q=(b * 3) % 256, ver=(b * 5) % 256))])
             for b in range(256)]
    out += chunked(calls, "commmode-bytes", pre=[conn(False)])
    out += chunked(calls[::5], "commmode-bytes-be", pre=[conn(True)])
    # GET_ID: every identification type (encode) ; UPLOAD: every element count
    step = 1 if full else 1
    calls = [call("get_id", [P(getid_resp(0, dword(a * 257, False)))], arg=a) for a in range(0, 256, step)]
    out += chunked(calls, "getid-args", pre=[conn(False)])
    calls = [call("upload", [P(bytes([0xFF]) + bytes(range(a % 7)))], arg=a) for a in range(0, 256, step)]
    out += chunked(calls, "upload-args", pre=[conn(True)])
    # GET_ID responses
    for big in (False, True):
        calls = []
        for mode in (0, 1, 2, 3, 0x80, 0xFF):
            for n in (0, 1, 2, 5, 40, 255):
                ident = bytes((i * 3 + n) % 256 for i in range(n))
                calls.append(call("get_id", [P(getid_resp(mode, dword(n, big), ident, r=(n % 256, mode)))]))
                if n:
                    calls.append(call("get_id", [P(getid_resp(mode, dword(n, big), ident[:-1]))]))  # one byte missing
                    calls.append(call("get_id", [P(getid_resp(mode, dword(n, big), ident + b"\x55\xaa"))]))
                calls.append(call("get_id", [P(getid_resp(mode, dword(n, not big), ident))]))  # length in the other order
            for n in (256, 65535, 65536, 0x01000000, 0x7FFFFFFF, 0x80000000, 0xFFFFFFFF):
                calls.append(call("get_id", [P(getid_resp(mode, dword(n, big), b"AB"))]))
        out += chunked(calls, f"getid-resp-{'be' if big else 'le'}", pre=[conn(big)])
    # parameters outside a byte
    out.append(sess([conn(False), call("get_id", [], arg=256), call("get_id", [], arg=-1), call("upload", [], arg=256),
                     call("upload", [], arg=1000), call("get_status", [P(status_resp())])], "out-of-range"))
    # ERR packets: every error code x every method; bare 0xFE; codes with trailing bytes
    for m in METHODS:
        codes = range(256) if (full or m in ("connect", "get_status")) else \
            [0, 0x10, 0x11, 0x12, 0x20, 0x21, 0x22, 0x23, 0x24, 0x25, 0x26, 0x27, 0x28, 0x29, 0x2A, 0x30, 0x31, 0x32,
             0x33, 0xFF, 0xFE]
        calls = [call(m, [P([0xFE, c])]) for c in codes]
        calls += [call(m, [P([0xFE])]), call(m, [P([0xFE, 0x20, 0xFF, 0xFF, 1, 2, 3, 4])]),
                  call(m, [P(bytes([0xFE]) + POSITIVE[m][1:])])]
        out += chunked(calls, f"err-{m}", pre=[conn(True)])
    # first byte sweep: the valid payload behind every packet identifier
    for m in METHODS:
        ids = range(256) if (full or m in ("connect", "get_status", "disconnect")) else range(0, 256, 3)
        calls = [call(m, [P(bytes([b]) + POSITIVE[m][1:])]) for b in ids]
        out += chunked(calls, f"pid-{m}", pre=[conn(False)])
    # every prefix and some extensions of a valid positive response
    for big in (False, True):
        calls = []
        for m in METHODS:
            full_resp = POSITIVE[m] if m != "get_id" else getid_resp(1, dword(3, big), b"XYZ")
            if m == "connect":
                full_resp = connect_resp(comm=0xC0 | big)
            for n in range(0, len(full_resp)):
                calls.append(call(m, [P(full_resp[:n])] if n else ["empty"]))
                if m == "connect":
                    calls.append(call("get_status", [P(status_resp())]))
            for ext in (b"\x00", b"\xff\xff", bytes(range(20))):
                calls.append(call(m, [P(full_resp + ext)]))
        out += chunked(calls, f"prefixes-{'be' if big else 'le'}", pre=[conn(big)])
    # silence, closed stream, connection errors, for every method and several timeouts
    for to in (0.05, 1.0, 2.5):
        calls = []
        for m in METHODS:
            calls += [call(m, ["sil"]), call(m, ["empty"]), call(m, ["connerr"]), call(m, ["werr"]), call(m, [P(POSITIVE[m])])]
        out.append(sess([conn(False)] + calls, f"silence-{to}", timeout=to))
    # asynchronous packets (EV, SERV, DAQ) in front of the response; nothing connected yet; truncated CONNECT
    calls = []
    for m in METHODS:
        for pre in ([0xFD, 1], [0xFC, 2, 65], [0x00, 1, 2], [0xFB]):
            calls.append(call(m, [P(pre), P(POSITIVE[m])]))
            calls.append(call(m, [P(pre), P([0xFE, 0x10])]))
            calls.append(call(m, [P(pre), "sil"]))
    out += chunked(calls, "async", pre=[conn(True)])
    for first in (["sil"], [P([0xFE, 0x25])], [P([0xFF, 0x15])], [P([0xFF, 0x15, 0xC1])], [P([0xFF, 0x15, 0xC0, 8, 1])]):
        for big in (False, True):
            out.append(sess([call("get_status", [P(status_resp())]), call("connect", first),
                             call("get_status", [P(status_resp())]), call("get_comm_mode_info", [P(commmode_resp())]),
                             call("get_id", [P(getid_resp(1, dword(2, big), b"ok"))]), call("upload", [P(POSITIVE["upload"])]),
                             conn(big), call("get_status", [P(status_resp())]), call("connect", first),
                             call("get_status", [P(status_resp(cfg=(1, 2)))]), call("disconnect", [P([0xFF])]),
                             call("get_status", [P(status_resp(cfg=(3, 4)))])], "unconnected"))
    return out


def product_connect(stride: int = 1) -> list[dict[str, Any]]:
    """thorough: every (RESOURCE, COMM_MODE_BASIC) pair"""
    out = []
    for c in range(0, 256, stride):
        calls = []
        for r in range(256):
            calls.append(call("connect", [P(connect_resp(res=r, comm=c, cto=r ^ c, dto=(c, r), pl=r, tl=c))]))
            if r % 32 == 0:
                calls.append(call("get_status", [P(status_resp(st=r, prot=c, cfg=(r, c)))]))
        out.append(sess(calls, f"connect-product[{c}]"))
    return out


# ------------------------------------------------------------------ CAN
def can_cases(tier: str) -> list[dict[str, Any]]:
    out: list[dict[str, Any]] = []
    F = lambda at, d="00112233", src=FOREIGN: {"at": at, "src": src, "d": d}  # noqa: E731
    A = lambda at, b, src=MASTER: {"at": at, "src": src, "d": bytes(b).hex()}  # noqa: E731
    ids = [(MASTER, SLAVE), (0x18DAF110, 0x18DA10F1), (1, 0)]
    for master, slave in ids:
        for big in (False, True):
            for k in range(0, 4):
                fr = [F(50 * (i + 1), src=FOREIGN + i) for i in range(k)]
                at = 50 * k + 5
                calls = [
                    call("connect", fr + [A(at, connect_resp(comm=0x80 | big), master)]),
                    call("get_status", fr + [A(at, status_resp(), master)]),
                    call("get_comm_mode_info", fr + [A(at, commmode_resp(), master)]),
                    call("get_id", fr + [A(at, getid_resp(1, dword(2, big), b"id"), master)]),
                    call("upload", fr + [A(at, POSITIVE["upload"], master)]),
                    call("get_status", fr + [A(at, [0xFE, 0x10], master)]),
                    call("get_status", fr),                                  # only foreign frames, then silence
                    call("get_status", [A(5, status_resp(), slave)]),        # the command frame's own id: not an answer
                    # a positive looking frame of another node, then the slave's error packet
                    call("get_status", [A(5, status_resp(), FOREIGN + 7), A(9, [0xFE, 0x22], master)]),
                    call("get_status", [A(5, [0xFE, 0x22], FOREIGN + 7), A(9, status_resp(cfg=(9, 8)), master)]),
                    call("disconnect", fr + [A(at, [0xFF], master)]),
                ]
                out.append(sess(calls, f"can-basic[{master:x},{k}]", tr="can", master=master, slave=slave))
    # ERR codes and packet identifiers over CAN
    calls = [call("get_status", [A(3, [0xFE, c])]) for c in range(0, 256, 1 if tier == "thorough" else 5)]
    calls += [call("get_status", [A(3, bytes([b]) + status_resp()[1:])]) for b in range(0, 256, 1 if tier == "thorough" else 5)]
    out += chunked(calls, "can-err-pid", pre=[call("connect", [A(2, connect_resp(comm=0xC1))])], tr="can")
    # busy bus, silent slave: foreign frames arrive more often than the request timeout
    for to in (0.2, 1.0):
        ms = int(to * 1000)
        for gap_pct in (10, 60, 95):
            gap = ms * gap_pct // 100
            for n in (1, 2, 4, 8, 30):
                fr = [F(gap * (i + 1)) for i in range(n)]
                out.append(sess([call("connect", [A(2, connect_resp())]), call("get_status", fr),
                                 call("get_status", [A(4, status_resp())])],
                                f"can-busy[{ms},{gap_pct}%,{n}]", tr="can", timeout=to))
            out.append(sess([call("connect", [A(2, connect_resp())]),
                             call("get_status", [{"every": gap, "src": FOREIGN, "d": "0102030405060708"}])],
                            f"can-busy-forever[{ms},{gap_pct}%]", tr="can", timeout=to))
            # the answer does come, behind foreign traffic
            out.append(sess([call("connect", [A(2, connect_resp())]),
                             call("get_status", [F(gap), A(gap + 3, status_resp())])],
                            f"can-busy-answer[{ms},{gap_pct}%]", tr="can", timeout=to))
    # foreign traffic slower than the timeout: plain silence
    out.append(sess([call("connect", [A(2, connect_resp())]), call("get_status", [F(1500), F(3000)]),
                     call("get_status", [A(1, status_resp())])], "can-slow-bus", tr="can"))
    return out


# ------------------------------------------------------------------ seeded sessions
def seeded(tier: str, seed: int) -> list[dict[str, Any]]:
    rng = random.Random(seed * 7919 + 13)
    n = 60 if tier == "quick" else 600
    out = []
    for i in range(n):
        tr = "can" if rng.random() < 0.3 else "raw"
        big = rng.random() < 0.5
        calls = []
        for _ in range(rng.randint(2, 14)):
            m = rng.choice(METHODS + ["connect", "get_status"])
            arg = rng.randrange(256) if m in ARG else None
            r = rng.random()
            if m == "connect" and r < 0.8:
                big = rng.random() < 0.5
                body: Any = P(connect_resp(rng.randrange(256), (rng.randrange(128) << 1) | big, rng.randrange(256),
                                           (rng.randrange(256), rng.randrange(256)), rng.randrange(256), rng.randrange(256)))
            elif r < 0.55:
                if m == "get_status":
                    body = P(status_resp(rng.randrange(256), rng.randrange(256), rng.randrange(256),
                                         (rng.randrange(256), rng.randrange(256))))
                elif m == "get_comm_mode_info":
                    body = P(commmode_resp(*[rng.randrange(256) for _ in range(7)]))
                elif m == "get_id":
                    k = rng.choice([0, 1, 3, 9])
                    body = P(getid_resp(rng.choice([0, 1, 1, 2]), dword(k, big), bytes(rng.randrange(256) for _ in range(k))))
                else:
                    body = P(bytes([0xFF]) + bytes(rng.randrange(256) for _ in range(rng.randrange(7))))
            elif r < 0.7:
                body = P([0xFE, rng.randrange(256)])
            elif r < 0.8:
                body = "sil"
            elif r < 0.9:
                full = POSITIVE[m]
                body = P(full[:rng.randrange(1, len(full) + 1)] + bytes(rng.randrange(256) for _ in range(rng.randrange(3))))
            else:
                body = P(bytes(rng.randrange(256) for _ in range(rng.randrange(1, 9))))
            if tr == "can":
                fr = [{"at": 20 * (j + 1), "src": FOREIGN + j, "d": bytes(rng.randrange(256) for _ in range(8)).hex()}
                      for j in range(rng.randrange(3))]
                ans = fr + ([] if body == "sil" else [{"at": 70, "src": MASTER, "d": body["d"]}])
            else:
                ans = [body]
            calls.append({"m": m, "arg": arg, "ans": ans})
        c = {"kind": "sess", "tr": tr, "timeout": rng.choice([0.1, 1.0, 3.0]), "calls": calls, "origin": f"seeded[{i}]"}
        if tr == "can":
            c["master"], c["slave"] = MASTER, SLAVE
        out.append(c)
    return out


# ------------------------------------------------------------------ primitive xcp
PRIM_STEPS = ["connect", "get_status", "get_comm_mode_info", "disconnect"]


def prim_answer(step: int, cls: str) -> Any:
    m = PRIM_STEPS[step]
    if cls == "pos":
        return P(POSITIVE[m])
    if cls == "posBE":
        return P(connect_resp(comm=0xC1)) if m == "connect" else P(POSITIVE[m] + b"\x00")
    if cls == "err":
        return P([0xFE, 0x20 + step])
    if cls == "short":
        return P(POSITIVE[m][:3]) if len(POSITIVE[m]) > 3 else P([0xFF, 0xFF])
    if cls == "ev":
        return P([0xFD, 0x07])
    if cls == "junk":
        return P([0x12, 0x34, 0x56])
    return cls  # sil, eof, reset


def prim_cases(tier: str) -> list[dict[str, Any]]:
    classes = ["pos", "posBE", "err", "sil", "short", "eof"] if tier == "quick" else \
        ["pos", "posBE", "err", "sil", "short", "eof", "reset", "ev", "junk"]
    out = []
    for vec in itertools.product(classes, repeat=4):
        out.append({"kind": "prim", "answers": [prim_answer(i, c) for i, c in enumerate(vec)], "accept": True,
                    "origin": "prim[" + ",".join(vec) + "]"})
    out.append({"kind": "prim", "answers": [], "accept": False, "origin": "prim[refused]"})
    return out


# ------------------------------------------------------------------ discover xcp tcp|udp
TCP_CLASSES = ["closed", "filtered", "xcp", "xcp_min", "err", "other", "ff4", "short", "short1", "hdr", "silent", "eof"]
UDP_CLASSES = ["xcp", "xcp_min", "err", "other", "ff4", "short", "short1", "hdr", "silent", "unbound"]


def find_cases(tier: str) -> list[dict[str, Any]]:
    out = []
    base = 6000
    for udp, classes in ((False, TCP_CLASSES), (True, UDP_CLASSES)):
        n = 2 if tier == "quick" else 3
        for vec in itertools.product(classes, repeat=n):
            out.append({"kind": "find", "udp": udp, "ports": [[base + 7 * i, c] for i, c in enumerate(vec)],
                        "origin": ("udp" if udp else "tcp") + "[" + ",".join(vec) + "]"})
        for c in classes:
            out.append({"kind": "find", "udp": udp, "ports": [[base, c]], "origin": ("udp" if udp else "tcp") + f"[{c}]"})
        if tier == "quick":
            # a sample of triples: every class once in the middle between an XCP slave and a silent port
            for c in classes:
                out.append({"kind": "find", "udp": udp, "ports": [[base, "xcp"], [base + 1, c], [base + 2, "xcp_min"]],
                            "origin": ("udp" if udp else "tcp") + f"[xcp,{c},xcp_min]"})
    return out
