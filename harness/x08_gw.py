"""X08 — model-driven DoIP gateway fake and runner for the real `discover doip` scanner.

The frame codec, Listener/Wire plumbing and virtual time are those of harness/c06_doip.py, harness/streams.py
and harness/vloop.py (imported, not modified).  The gateway here is *model driven*: a `model` dict says which
(activation type, source address) pairs are accepted and how every target address behaves; the gateway records what
it saw and what it sent (gateway-side ground truth), the runner records what the scanner reported (artifact files,
discovery results handed to the database handler, how main() ended).  Nothing here judges the property.

model = {
  "order":   "src" | "rat"          which field the gateway checks first (ISO 13400-2: source address first)
  "rats":    [supported activation types]
  "srcs":    [known source addresses]
  "acc":     [[rat, src], ...]      accepted pairs (answered with 0x10); other supported x known pairs get "deny"
  "deny":    int                    response code for a supported x known pair that is not accepted
  "ra_close": bool                  close the socket after a denial (ISO 13400-2 behaviour)
  "beh":     {addr: behaviour}      per target address, default DEFAULT_BEH; see BEHAVIOURS
  "close_after": k | None           the gateway closes every connection after its k-th diagnostic request is handled
  "alive":   [n, ...]               inject an alive check request before answering the n-th diagnostic request (1-based)
  "unsol":   {n: frame name}        inject an unsolicited frame before answering the n-th diagnostic request
  "ra_deny_mode": "code" | "silent" | "close"   how a denial is signalled ("code" = ISO; the others are outside the statement)
}
"""

from __future__ import annotations

import asyncio
import shutil
import tempfile
from pathlib import Path
from typing import Any

from harness import vloop
from harness.c06_doip import dec_out, enc
from harness.streams import Listener, Wire, patched_connections, settle
from harness.vloop import now_ms

TP_REQ = [0x3E, 0x00]
POS = [0x7E, 0x00]
NEG = [0x7F, 0x3E, 0x11]
ODD = [0x50, 0x01]            # a diagnostic message that is no answer to TesterPresent
FAR = 0x7777                  # address of an ECU outside every scanned range (unsolicited traffic)

# behaviour = (acknowledgement, answer, connection afterwards)
#   acknowledgement: "ack" | "ack500" | "ack2500" | "nack<code>" | "none"
#   answer         : "none" | "pos" | "neg" | "pos300" | "pos1500" | "odd" | "posfar" (answer carries another source address)
#   afterwards     : "keep" | "close" (FIN) | "reset"
BEHAVIOURS: dict[str, tuple[str, str, str]] = {
    "unknown": ("nack3", "none", "keep"),
    "unreach": ("nack6", "none", "keep"),
    "nackff": ("nack255", "none", "keep"),
    "nack2": ("nack2", "none", "keep"),
    "silent": ("none", "none", "keep"),
    "ackonly": ("ack", "none", "keep"),
    "pos": ("ack", "pos", "keep"),
    "neg": ("ack", "neg", "keep"),
    "pos300": ("ack", "pos300", "keep"),
    "pos1500": ("ack", "pos1500", "keep"),
    "ack500pos": ("ack500", "pos", "keep"),
    "lateack": ("ack2500", "pos", "keep"),
    "odd": ("ack", "odd", "keep"),
    "posfar": ("ack", "posfar", "keep"),
    "unknown_close": ("nack3", "none", "close"),
    "unknown_reset": ("nack3", "none", "reset"),
    "pos_close": ("ack", "pos", "close"),
    "close": ("none", "none", "close"),
    "reset": ("none", "none", "reset"),
}
DEFAULT_BEH = "unknown"


class _Sock:
    """What writer.get_extra_info("socket") hands out: the scanner sets SO_LINGER on it."""

    def __init__(self) -> None:
        self.opts: list[Any] = []

    def setsockopt(self, *a: Any) -> None:
        self.opts.append(a)


class Livelock(BaseException):
    """The scanner opened more connections than any terminating scan of this size needs (a reconnect loop in which
    no virtual time passes would otherwise never return).  BaseException: not swallowed by `except Exception`."""


class DiscGateway:
    def __init__(self, model: dict[str, Any], mutant: str | None = None, max_conns: int = 2000) -> None:
        self.m = model
        self.max_conns = max_conns
        self.mutant = mutant
        self.ev: list[dict[str, Any]] = []
        self.listener = Listener()
        self.listener.on_accept = self._accepted
        _open = self.listener.open

        async def guarded_open(*a: Any, **kw: Any) -> Any:
            if self.nconn >= self.max_conns:
                self.add("Livelock")
                raise Livelock()
            return await _open(*a, **kw)

        self.listener.open = guarded_open  # type: ignore[method-assign]
        self.nconn = 0
        self.nreq = 0
        self.beh = {int(k): v for k, v in model.get("beh", {}).items()}
        self.unsol = {int(k): v for k, v in model.get("unsol", {}).items()}
        self.acc = {(int(a), int(b)) for a, b in model.get("acc", [])}
        self.vers: set[int] = set()

    # ------------------------------------------------------------------ plumbing
    def add(self, e: str, **kw: Any) -> None:
        self.ev.append({"e": e, "t": now_ms(), **kw})

    def _accepted(self, w: Wire) -> None:
        self.nconn += 1
        c = self.nconn
        st = {"c": c, "buf": b"", "nreq": 0, "src": -1, "active": False, "gone": False}
        sock = _Sock()
        w.writer.get_extra_info = lambda name, default=None: sock if name == "socket" else default  # type: ignore[method-assign]
        w.on_out = lambda data: self._on_out(w, st, data)
        w.on_client_close = lambda: self.add("CliClose", c=c)
        self.add("Conn", c=c)

    def _send(self, w: Wire, st: dict[str, Any], frame: dict[str, Any]) -> bool:
        if st["gone"]:
            return False
        return w.feed(enc(frame, 3))

    def _hangup(self, w: Wire, st: dict[str, Any], how: str) -> None:
        if st["gone"]:
            return
        st["gone"] = True
        self.add("GwClose", c=st["c"], how=how)
        if how == "reset":
            w.reset()
        else:
            w.eof()

    # ------------------------------------------------------------------ protocol
    def ra_code(self, rat: int, src: int) -> int:
        m = self.m
        rat_ok, src_ok = rat in m["rats"], src in m["srcs"]
        if m.get("order", "src") == "src":
            if not src_ok:
                return 0x00
            if not rat_ok:
                return 0x06
        else:
            if not rat_ok:
                return 0x06
            if not src_ok:
                return 0x00
        return 0x10 if (rat, src) in self.acc else int(m.get("deny", 0x04))

    def _on_out(self, w: Wire, st: dict[str, Any], data: bytes) -> None:
        st["buf"] += data
        frames, st["buf"] = dec_out(st["buf"])
        for f in frames:
            if st["gone"]:
                return
            self.vers.add(int(f["ver"]))
            if f["k"] == "RoutingReq":
                code = self.ra_code(f["code"], f["src"])
                quiet = code != 0x10 and self.m.get("ra_deny_mode", "code") != "code"
                if quiet:   # gateway that does not answer a request it denies (statement silent: unspecified)
                    self.add("RA", c=st["c"], rat=f["code"], src=f["src"], code=code, dl=False)
                    if self.m["ra_deny_mode"] == "close":
                        self._hangup(w, st, "close")
                    continue
                ok = self._send(w, st, {"k": "RoutingResp", "src": 0x1000, "dst": f["src"], "code": code, "d": []})
                self.add("RA", c=st["c"], rat=f["code"], src=f["src"], code=code, dl=ok)
                if code == 0x10:
                    st["active"], st["src"] = True, f["src"]
                elif self.m.get("ra_close", False):
                    self._hangup(w, st, "close")
            elif f["k"] == "Diag":
                self._on_diag(w, st, f)
            elif f["k"] == "AliveResp":
                self.add("AliveResp", c=st["c"], src=f["src"])
            else:
                self.add("Other", c=st["c"], k=f["k"])

    def _on_diag(self, w: Wire, st: dict[str, Any], f: dict[str, Any]) -> None:
        self.nreq += 1
        st["nreq"] += 1
        n = self.nreq
        a, src = f["dst"], f["src"]
        self.add("Req", c=st["c"], n=n, src=src, dst=a, d=list(f["d"]), act=bool(st["active"]))
        if not st["active"]:
            return
        if n in self.m.get("alive", []):
            ok = self._send(w, st, {"k": "AliveReq"})
            self.add("AliveReq", c=st["c"], dl=ok)
        u = self.unsol.get(n)
        if u is not None:
            self._unsolicited(w, st, u, src)
        ackm, ansm, after = BEHAVIOURS[self.beh.get(a, self.m.get("default", DEFAULT_BEH))]
        if self.mutant == "gw-acks-everything":
            ackm = "ack"
        t0 = now_ms()
        loop = asyncio.get_running_loop()

        def do_ack() -> None:
            if ackm.startswith("ack"):
                ok = self._send(w, st, {"k": "Ack", "src": a, "dst": src, "code": 0, "d": list(f["d"])})
                self.add("Ack", c=st["c"], a=a, n=n, dt=now_ms() - t0, dl=ok)
            elif ackm.startswith("nack"):
                code = int(ackm[4:])
                ok = self._send(w, st, {"k": "Nack", "src": a, "dst": src, "code": code, "d": list(f["d"])})
                self.add("Nack", c=st["c"], a=a, n=n, code=code, dt=now_ms() - t0, dl=ok)

        def do_ans() -> None:
            if ansm == "none":
                return
            frm = FAR if ansm == "posfar" else a
            d = NEG if ansm == "neg" else ODD if ansm == "odd" else POS
            ok = self._send(w, st, {"k": "Diag", "src": frm, "dst": src, "code": 0, "d": d})
            self.add("Ans", c=st["c"], a=frm, to=src, n=n, d=list(d), dt=now_ms() - t0, dl=ok, probed=a)

        def do_after() -> None:
            if after != "keep":
                self._hangup(w, st, after)
            elif self.m.get("close_after") and st["nreq"] >= int(self.m["close_after"]):
                self._hangup(w, st, "close")

        ack_delay = int(ackm[3:]) if ackm.startswith("ack") and ackm[3:] else 0
        ans_delay = int(ansm[3:]) if ansm.startswith("pos") and ansm[3:].isdigit() else 0
        if ack_delay == 0:
            do_ack()
        else:
            loop.call_later(ack_delay / 1000.0, do_ack)
        if ack_delay + ans_delay == 0:
            do_ans()
        else:
            loop.call_later((ack_delay + ans_delay) / 1000.0, do_ans)
        do_after()

    def _unsolicited(self, w: Wire, st: dict[str, Any], name: str, tester: int) -> None:
        if name == "far-pos":       # an ECU outside the range talks to the tester
            fr = {"k": "Diag", "src": FAR, "dst": tester, "code": 0, "d": POS}
        elif name == "far-odd":     # ... with something that is no TesterPresent answer
            fr = {"k": "Diag", "src": FAR, "dst": tester, "code": 0, "d": ODD}
        elif name == "far-short":   # ... with a truncated PDU
            fr = {"k": "Diag", "src": FAR, "dst": tester, "code": 0, "d": [0x7E]}
        elif name == "other-dst":   # diagnostic message for another tester
            fr = {"k": "Diag", "src": FAR, "dst": 0x0EEE, "code": 0, "d": POS}
        elif name == "unknown-type":
            fr = {"k": "Unknown"}
        elif name == "stray-ack":   # acknowledgement for another address pair
            fr = {"k": "Ack", "src": FAR, "dst": 0x0EEE, "code": 0, "d": []}
        else:
            raise ValueError(name)
        ok = self._send(w, st, fr)
        if fr["k"] == "Diag":
            self.add("Ans", c=st["c"], a=fr["src"], to=fr["dst"], n=0, d=list(fr["d"]), dt=0, dl=ok, probed=-1)
        else:
            self.add("Unsol", c=st["c"], k=name, dl=ok)


class FakeDB:
    """Stands in for gallia.db.handler.DBHandler: records what the scanner hands over."""

    def __init__(self) -> None:
        self.runs: list[str] = []
        self.results: list[str] = []

    async def connect(self) -> None:
        await asyncio.sleep(0)

    async def disconnect(self) -> None:
        await asyncio.sleep(0)

    async def insert_discovery_run(self, protocol: str) -> None:
        self.runs.append(protocol)

    async def insert_discovery_result(self, target: str) -> None:
        self.results.append(str(target))


def parse_uri(line: str) -> dict[str, Any]:
    """Parse an emitted target URI back with the REAL TargetURI / DoIPConfig (as DoIPTransport.connect does)."""
    from gallia.transports.base import TargetURI
    from gallia.transports.doip import DoIPConfig

    try:
        t = TargetURI(line.strip())
        if str(getattr(t.scheme, "value", t.scheme)) != "doip":
            raise ValueError("scheme")
        host = t.hostname
        port = t.port
        qs = dict(t.qs_flat)
        had_tgt = "target_addr" in qs
        qs.setdefault("target_addr", "0")
        c = DoIPConfig(**qs)
        if host is None or port is None:
            raise ValueError("no host/port")
        return {"ok": True, "host": str(host), "port": int(port), "src": int(c.src_addr),
                "tgt": int(c.target_addr) if had_tgt else -1, "rat": int(c.activation_type),
                "ver": int(c.protocol_version)}
    except Exception:  # noqa: BLE001
        return {"ok": False, "host": "", "port": -1, "src": -1, "tgt": -1, "rat": -1, "ver": -1}


def _read_lines(p: Path) -> list[str]:
    if not p.exists():
        return []
    return [ln for ln in p.read_text().split("\n") if ln.strip()]


def run_scan(model: dict[str, Any], scan: dict[str, Any], *, mutant: str | None = None,
             horizon: float = 3.0e5) -> dict[str, Any]:
    """One execution of the real DoIPDiscoverer.main() against the model gateway.

    scan = {"host", "port", "rat": int|None, "src": int|None, "start", "stop", "delay": float}
    UDP: host/port are given by --target (UDP broadcast discovery skipped by the scanner itself);
    gather_doip_details (two informational UDP datagrams, results only logged) is stubbed."""
    from gallia.commands.discover.doip import DoIPDiscoverer, DoIPDiscovererConfig

    tmp = Path(tempfile.mkdtemp(prefix="x08-"))
    out: dict[str, Any] = {"done": "?"}
    gw_box: dict[str, Any] = {}
    db = FakeDB()
    host = scan["host"]
    netloc = f"[{host}]" if ":" in host else host
    q = []
    if scan.get("rat") is not None:
        q.append(f"activation_type={scan['rat']:#x}")
    if scan.get("src") is not None:
        q.append(f"src_addr={scan['src']:#x}")
    target = f"doip://{netloc}:{scan['port']}" + ("?" + "&".join(q) if q else "")

    class Disc(DoIPDiscoverer):
        async def gather_doip_details(self, tgt_hostname: str, tgt_port: int) -> None:  # UDP: stubbed
            out["udp_stubbed"] = True

    async def main() -> None:
        nrat = 1 if scan.get("rat") is not None else 256
        nsrc = 1 if scan.get("src") is not None else 65536
        gw = DiscGateway(model, mutant, max_conns=200 + 2 * (nrat + nsrc) + nrat * (1 if nsrc == 1 else 8) + 4 * (nsrc if nrat == 1 else 0))
        gw_box["gw"] = gw
        cfg = DoIPDiscovererConfig(target=target, start=scan["start"], stop=scan["stop"],
                                   tcp_connect_delay=float(scan.get("delay", 0.0)))
        sc = Disc(cfg)
        sc.artifacts_dir = tmp
        sc.db_handler = db  # type: ignore[assignment]
        with patched_connections(gw.listener):
            try:
                await sc.main()
                out["done"] = "ok"
            except SystemExit as e:     # the scanner ended the run itself
                out["done"] = "ok" if e.code in (0, None) else "stopped"
                out["exit_code"] = e.code
            except asyncio.CancelledError:
                t = asyncio.current_task()
                if t is not None and t.cancelling() > 0:   # the horizon of vloop.run: a hang
                    raise
                out["done"] = "exc"                       # the scanner let a CancelledError of its own escape
                out["exc"] = "CancelledError()"
            except Livelock:
                out["done"] = "hang"
            except BaseException as e:  # noqa: BLE001
                out["done"] = "exc"
                out["exc"] = repr(e)[:200]
            await settle()
        out["t_end"] = now_ms()

    try:
        try:
            vloop.run(main(), horizon=horizon)
        except (TimeoutError, vloop.BlockedForever):
            out["done"] = "hang"
        gw = gw_box.get("gw")
        files = {k: _read_lines(tmp / fn) for k, fn in (
            ("ra", "1_valid_routing_activation_requests.txt"), ("valid", "3_valid_targets.txt"),
            ("resp", "4_responsive_targets.txt"), ("unreach", "5_unreachable_targets.txt"))}
        errs = []
        for ln in _read_lines(tmp / "7_targets_with_errors.txt"):
            try:
                errs.append(int(ln.split(":", 1)[0], 0))
            except ValueError:
                errs.append(-1)
        rep = {k: [parse_uri(x) for x in v] for k, v in files.items()}
        rep["db"] = [parse_uri(x) for x in db.results]
        return {"scan": {"host": host.lower(), "port": scan["port"], "rat": -1 if scan.get("rat") is None else scan["rat"],
                         "src": -1 if scan.get("src") is None else scan["src"], "start": scan["start"],
                         "stop": scan["stop"]},
                "model": model, "ev": gw.ev if gw else [], "rep": rep, "errs": errs, "done": out["done"],
                "exc": out.get("exc", ""), "exit_code": out.get("exit_code"), "raw": files, "vers": sorted(gw.vers) if gw else [], "dbruns": list(db.runs), "t_end": out.get("t_end", -1)}
    finally:
        shutil.rmtree(tmp, ignore_errors=True)
