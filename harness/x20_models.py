"""X20: the synthetic config models the REAL gallia argument parser is driven with, the harness's OWN description of
what was declared (ground truth, never read back from pydantic's model_fields), the abstract value / token vocabulary
of spec/ArgFieldsContract.tla and the fixed token tables the TLC design run enumerates.

Nothing in here judges the property.  `python -m harness.x20_models > universe.json` prints the universe the MC
configs of spec/MC_ArgFields.tla read through IOEnv.X20_UNIVERSE."""

from __future__ import annotations

import enum
import json
import sys
from dataclasses import dataclass, field
from pathlib import Path
from typing import Any, Literal

import gallia.command  # noqa: F401  (resolves the import cycle command <-> plugins)
from gallia.command.config import (
    AutoInt,
    AutoLiteral,
    EnumArg,
    Field,
    GalliaBaseModel,
    HexBytes,
    HexInt,
    Idempotent,
    Ranges,
    Ranges2D,
)
from gallia.pydantic_argparse import BaseArgument, BaseCommand
from gallia.pydantic_argparse.utils.field import Field as ArgField
from gallia.transports import TargetURI
from pydantic import BaseModel, ConfigDict

from harness.common import Machinery


# --------------------------------------------------------------------------- the declared types
class Color(enum.Enum):
    RED = "r"
    GREEN = "g"
    BLUE = "b"


class Num(enum.IntEnum):
    ONE = 1
    TWO = 2
    THREE = 3


# --------------------------------------------------------------------------- the synthetic models
class MAll(GalliaBaseModel, cli_group="x20 options", config_section="x20.all"):
    """every optional option kind; no positional, no required field"""

    model_config = ConfigDict(arbitrary_types_allowed=True)

    bfalse: bool = Field(False, description="a flag that is off by default")
    btrue: bool = Field(True, description="a flag that is on by default")
    bnone: bool | None = Field(None, description="a flag without a default")
    count: int = Field(5, description="a plain integer", short="c")
    ratio: float = Field(1.5, description="a plain float")
    label: str = Field("dflt", description="a plain string", metavar="TEXT")
    where: Path = Field(Path("/x20/default"), description="a path")
    auto: AutoInt = Field(7, description="an integer in any base")
    hexnum: HexInt = Field(0x10, description="a hexadecimal integer")
    payload: HexBytes = Field(b"\x01", description="bytes given as hex")
    spans: Ranges = Field([1], description="one-dimensional ranges")
    grid: Ranges2D = Field({}, description="two-dimensional ranges")
    colour: Color = Field(Color.RED, description="a plain enum")
    level: EnumArg[Num] = Field(Num.ONE, description="an enum by name or value")
    shade: EnumArg[Color] = Field(Color.GREEN, description="a string enum by name or value")
    mode: Literal["fast", "slow"] = Field("fast", description="a literal")
    service: AutoLiteral[Literal[Num.ONE, Num.TWO]] = Field(Num.ONE, description="a literal of enum members")
    digit: AutoLiteral[Literal[1, 2, 3]] = Field(1, description="a literal of integers")
    magic: AutoLiteral[Literal[b"\x01\x02", b"\x03"]] = Field(b"\x03", description="a literal of bytes")
    numbers: list[int] = Field([], description="a list of integers")
    words: list[str] | None = Field(None, description="an optional list of strings")
    autos: list[AutoInt] = Field([4], description="a list of integers in any base")
    ranks: list[EnumArg[Num]] = Field([], description="a list of enum members")
    uniq: set[int] = Field(set(), description="a set of integers")
    pair: tuple[int, int] = Field((0, 0), description="a pair of integers")
    table: dict[str, int] = Field({}, description="a mapping")
    either: int | str = Field(0, description="a union")
    reset: AutoInt | None = Field(None, description="an optional value; the level is optional", const=1)
    maybe: int | None = Field(None, description="an optional integer")
    target: Idempotent[TargetURI] | None = Field(None, description="a target uri")
    secret: int = Field(3, hidden=True, description="not part of the command line")
    elsewhere: int = Field(2, description="listed and configured somewhere else", cli_group="x20 special",
                           config_section="x20.other")
    toplevel: int = Field(6, description="configured at the top level of the file", config_section="")
    two_words: int = Field(8, description="a name with an underscore")


class MReq(GalliaBaseModel, cli_group="x20 required", config_section="x20.req"):
    """required option / required flag / positional fields"""

    ident: AutoInt = Field(positional=True, description="a required positional integer in any base")
    extra: list[int] = Field([], positional=True, description="optional positional integers")
    needed: int = Field(description="a required integer")
    decide: bool = Field(description="a required flag")
    opt: int = Field(1, description="an optional integer", short="o")


class Tuning(BaseArgument):
    gain: int = ArgField(1, description="gain of the group")
    tag: str = ArgField("t", description="tag of the group")


class MGrp(GalliaBaseModel):
    """a nested model = an argument group; the class itself declares neither cli_group nor config_section"""

    plain: int = Field(0, description="a field next to the group")
    tuning: Tuning


class MGrpMutant(GalliaBaseModel):
    """binding self-test only: declared differently from what the table says (default of `plain`)"""

    plain: int = Field(1, description="a field next to the group")
    tuning: Tuning


class SubAlpha(GalliaBaseModel, config_section="x20.alpha"):
    size: AutoInt = Field(1, description="size of alpha")
    turbo: bool = Field(False, description="turbo of alpha")


class SubBeta(GalliaBaseModel, config_section="x20.beta"):
    size: AutoInt = Field(2, description="size of beta")
    must: int = Field(description="required by beta")
    blob: HexBytes = Field(b"", description="blob of beta")


class MSub(BaseCommand):
    alpha: SubAlpha | None = ArgField(None, description="the alpha command")
    beta: SubBeta | None = ArgField(None, description="the beta command (slower by 50%)")


class MPct(GalliaBaseModel, cli_group="x20 percent", config_section="x20.pct"):
    """texts with a percent sign (help is rendered by argparse's %-formatting)"""

    share: str = Field("100%", description="the share that is used")
    fmt: str = Field("%Y-%m-%d", description="a date format")
    rate: int = Field(50, description="how many % of the requests are sent")
    n: int = Field(1, description="a plain integer")


MODELS: dict[str, type[BaseModel]] = {"all": MAll, "req": MReq, "grp": MGrp, "alpha": MSub, "beta": MSub, "pct": MPct,
                                      "top": MSub}
PREFIX: dict[str, list[str]] = {"all": [], "req": [], "grp": [], "alpha": ["alpha"], "beta": ["beta"], "pct": [], "top": []}
# "top": the command level above alpha / beta -- it has no fields of its own, only its help is looked at (the help text of
# a sub-command is a description, too)
MODEL_PCT = {"top"}
# an external default (config file / environment) with a percent sign: only its help rendering is X20's business
EXT_TARGET = ("config file (x20.all:target)", "tcp-lines://127.0.0.1:1001?note=a%20b")


# --------------------------------------------------------------------------- abstract values (spec/ArgFieldsContract.tla)
def V(t: str, n: int = 0, s: str = "", q: list[Any] | None = None) -> dict[str, Any]:
    return {"t": t, "n": n, "s": s, "q": q or []}


NOVAL = V("-")
VNONE = V("n")


def canon(v: Any) -> dict[str, Any]:
    """data abstraction of a Python value: equal canon <=> equal value"""
    if isinstance(v, TargetURI):
        return V("u", s=v.raw)
    if isinstance(v, enum.Enum):
        return V("e", s=v.name)
    if isinstance(v, bool):
        return V("b", n=int(v))
    if isinstance(v, int):
        if abs(v) >= 2**31:
            return V("I", s=str(v))
        return V("i", n=v)
    if isinstance(v, float):
        if v == v and abs(v) < 2**31 and v.is_integer():
            return V("i", n=int(v))
        return V("f", s=repr(v))
    if isinstance(v, str):
        return V("s", s=v)
    if isinstance(v, (bytes, bytearray)):
        return V("y", s=bytes(v).hex())
    if isinstance(v, Path):
        return V("p", s=str(v))
    if v is None:
        return VNONE
    if isinstance(v, list):
        return V("l", q=[canon(x) for x in v])
    if isinstance(v, tuple):
        return V("t", q=[canon(x) for x in v])
    if isinstance(v, (set, frozenset)):
        return V("S", q=sorted((canon(x) for x in v), key=lambda d: (d["t"], d["n"], d["s"])))
    if isinstance(v, dict):
        out = []
        for k, x in v.items():
            kn, ks = (k, "") if isinstance(k, int) and not isinstance(k, bool) else (0, str(k))
            if x is None:
                out.append(V("kn", n=kn, s=ks))
            elif isinstance(x, list):
                out.append(V("kv", n=kn, s=ks, q=[canon(y) for y in x]))
            else:
                out.append(V("kv", n=kn, s=ks, q=[canon(x)]))
        return V("d", q=out)
    return V("?", s=f"{type(v).__name__}:{v!r}"[:200])


# --------------------------------------------------------------------------- the harness's description of the declarations
@dataclass
class FD:
    model: str
    name: str  # attribute name (for group fields: the leaf name)
    kind: str
    elem: str = ""
    req: bool = False
    dflt: Any = None
    hasconst: bool = False
    const: Any = None
    hidden: bool = False
    pos: bool = False
    short: str = ""
    members: list[Any] = field(default_factory=list)
    desc: str = ""
    group: str = ""  # documented heading ("" = nothing documented)
    mv: str = ""  # declared metavar
    fsec: str = "-"  # section given at the field ("-": none, "": top level)
    csec: str = "-"  # section given at the class that declares the field
    gallia: bool = True  # declared with gallia.command.config.Field
    path: tuple[str, ...] = ()  # where the value lives in the parsed model (group fields)
    pct: bool = False  # one of its help texts carries a percent sign

    @property
    def long(self) -> str:
        return "--" + self.name.replace("_", "-")

    @property
    def neg(self) -> str:
        return "--no-" + self.name.replace("_", "-")

    def names(self) -> list[str]:
        """the documented option strings (Field docstring: short 'auto-prefixed with "-"'; arg_names: '--' + name with
        dashes; BooleanOptionalAction: '--<OPT>' and '--no-<OPT>'); positional fields are shown by name"""
        if self.pos:
            return []
        out = [self.long]
        if self.kind == "bool":
            out.append(self.neg)
        if self.short:
            out.append("-" + self.short)
        return out

    def renders(self) -> list[str]:
        """texts accepted as 'the default' in a help entry (message format is not the subject)"""
        if self.req:
            return []
        v = self.dflt
        out = {str(v), repr(v)}
        if isinstance(v, enum.Enum):
            out |= {v.name, str(v.value), repr(v.value)}
        if isinstance(v, (bytes, bytearray)):
            out |= {bytes(v).hex(), "0x" + bytes(v).hex()}
        if isinstance(v, int) and not isinstance(v, (bool, enum.Enum)):
            out |= {hex(v)}
        if isinstance(v, (list, tuple, set)) and v and all(isinstance(x, enum.Enum) for x in v):
            out |= {str([x.name for x in v]), str([x.value for x in v])}
        return sorted(out)

    def descriptor(self) -> dict[str, Any]:
        return {
            "name": self.name, "kind": self.kind, "elem": self.elem, "req": self.req,
            "dflt": NOVAL if self.req else canon(self.dflt), "hasconst": self.hasconst,
            "const": canon(self.const) if self.hasconst else NOVAL, "hidden": self.hidden, "pos": self.pos,
            "short": bool(self.short), "members": [canon(m) for m in self.members], "names": self.names(),
            "renders": self.renders(), "desc": bool(self.desc), "group": self.group, "mv": self.mv, "fsec": self.fsec,
            "csec": self.csec, "gallia": self.gallia, "pct": self.pct,
        }


def _all() -> list[FD]:
    g, cs = "x20 options", "x20.all"

    def f(name: str, kind: str, dflt: Any, desc: str, **kw: Any) -> FD:
        return FD("all", name, kind, dflt=dflt, desc=desc, group=kw.pop("group", g), csec=cs, **kw)

    return [
        f("bfalse", "bool", False, "a flag that is off by default"),
        f("btrue", "bool", True, "a flag that is on by default"),
        f("bnone", "bool", None, "a flag without a default"),
        f("count", "int", 5, "a plain integer", short="c"),
        f("ratio", "float", 1.5, "a plain float"),
        f("label", "str", "dflt", "a plain string", mv="TEXT"),
        f("where", "path", Path("/x20/default"), "a path"),
        f("auto", "autoint", 7, "an integer in any base"),
        f("hexnum", "hexint", 0x10, "a hexadecimal integer"),
        f("payload", "hexbytes", b"\x01", "bytes given as hex"),
        f("spans", "ranges", [1], "one-dimensional ranges"),
        f("grid", "ranges2d", {}, "two-dimensional ranges"),
        f("colour", "enum", Color.RED, "a plain enum", members=list(Color)),
        f("level", "enumarg", Num.ONE, "an enum by name or value", members=list(Num)),
        f("shade", "enumarg", Color.GREEN, "a string enum by name or value", members=list(Color)),
        f("mode", "literal", "fast", "a literal", members=["fast", "slow"]),
        f("service", "autolit", Num.ONE, "a literal of enum members", members=[Num.ONE, Num.TWO]),
        f("digit", "autolit", 1, "a literal of integers", members=[1, 2, 3]),
        f("magic", "autolit", b"\x03", "a literal of bytes", members=[b"\x01\x02", b"\x03"]),
        f("numbers", "list", [], "a list of integers", elem="int"),
        f("words", "list", None, "an optional list of strings", elem="str"),
        f("autos", "list", [4], "a list of integers in any base", elem="autoint"),
        f("ranks", "list", [], "a list of enum members", elem="enumarg", members=list(Num)),
        f("uniq", "set", set(), "a set of integers", elem="int"),
        f("pair", "tuple2", (0, 0), "a pair of integers", elem="int"),
        f("table", "dict", {}, "a mapping"),
        f("either", "union", 0, "a union"),
        f("reset", "autoint", None, "an optional value; the level is optional", hasconst=True, const=1),
        f("maybe", "int", None, "an optional integer"),
        f("target", "uri", None, "a target uri"),
        f("secret", "int", 3, "not part of the command line", hidden=True),
        f("elsewhere", "int", 2, "listed and configured somewhere else", group="x20 special", fsec="x20.other"),
        f("toplevel", "int", 6, "configured at the top level of the file", fsec=""),
        f("two_words", "int", 8, "a name with an underscore"),
    ]


def _req() -> list[FD]:
    g, cs = "x20 required", "x20.req"
    return [
        FD("req", "ident", "autoint", req=True, pos=True, desc="a required positional integer in any base", csec=cs),
        FD("req", "extra", "list", elem="int", dflt=[], pos=True, desc="optional positional integers", csec=cs),
        FD("req", "needed", "int", req=True, desc="a required integer", group=g, csec=cs),
        FD("req", "decide", "bool", req=True, desc="a required flag", group=g, csec=cs),
        FD("req", "opt", "int", dflt=1, desc="an optional integer", short="o", group=g, csec=cs),
    ]


def _grp() -> list[FD]:
    return [
        FD("grp", "plain", "int", dflt=0, desc="a field next to the group"),
        FD("grp", "gain", "int", dflt=1, desc="gain of the group", group="tuning", gallia=False, path=("tuning",)),
        FD("grp", "tag", "str", dflt="t", desc="tag of the group", group="tuning", gallia=False, path=("tuning",)),
    ]


def _sub() -> list[FD]:
    return [
        FD("alpha", "size", "autoint", dflt=1, desc="size of alpha", csec="x20.alpha"),
        FD("alpha", "turbo", "bool", dflt=False, desc="turbo of alpha", csec="x20.alpha"),
        FD("beta", "size", "autoint", dflt=2, desc="size of beta", csec="x20.beta"),
        FD("beta", "must", "int", req=True, desc="required by beta", csec="x20.beta"),
        FD("beta", "blob", "hexbytes", dflt=b"", desc="blob of beta", csec="x20.beta"),
    ]


def _pct() -> list[FD]:
    g, cs = "x20 percent", "x20.pct"
    return [
        FD("pct", "share", "str", dflt="100%", desc="the share that is used", group=g, csec=cs, pct=True),
        FD("pct", "fmt", "str", dflt="%Y-%m-%d", desc="a date format", group=g, csec=cs, pct=True),
        FD("pct", "rate", "int", dflt=50, desc="how many % of the requests are sent", group=g, csec=cs, pct=True),
        FD("pct", "n", "int", dflt=1, desc="a plain integer", group=g, csec=cs),
    ]


FIELDS: dict[str, list[FD]] = {"top": []}
for _fd in _all() + _req() + _grp() + _sub() + _pct():
    FIELDS.setdefault(_fd.model, []).append(_fd)


def fd_of(model: str, name: str) -> FD:
    for x in FIELDS[model]:
        if x.name == name:
            return x
    raise KeyError((model, name))


def check_declarations() -> None:
    """the table above and the classes above describe the same declarations (harness self-consistency, names only)"""
    for m, fds in FIELDS.items():
        cls = MODELS[m]
        if m == "top":
            continue
        if PREFIX[m]:
            cls = {"alpha": SubAlpha, "beta": SubBeta}[m]
        names = [n for n in cls.__annotations__ if n != "model_config"]
        flat: list[str] = []
        for n in names:
            if n == "tuning":
                flat += list(Tuning.__annotations__)
            else:
                flat.append(n)
        if sorted(flat) != sorted(x.name for x in fds):
            raise Machinery(f"x20_models: table and class of model {m} differ: {sorted(flat)} vs {sorted(x.name for x in fds)}")


# --------------------------------------------------------------------------- tokens
def _reading(x: str, base: int) -> dict[str, Any]:
    """the documented reference: 'See int() with base=0 / base=16 for more information on the syntax'"""
    try:
        n = int(x, base)
    except ValueError:
        return NOVAL
    return canon(n) if abs(n) < 2**31 else NOVAL


def tok(c: str, x: str, v: Any = None) -> dict[str, Any]:
    return {"c": c, "x": x, "v": NOVAL if v is None else (v if isinstance(v, dict) else canon(v)),
            "a": _reading(x, 0), "h": _reading(x, 16)}


def num_tok(c: str, n: int) -> dict[str, Any]:
    """render the integer n in the lexical class c"""
    a = abs(n)
    x = {"dec": str(a), "neg": "-" + str(a), "hex": hex(a), "hexu": "0X" + format(a, "X"), "oct": oct(a), "bin": bin(a),
         "bare": format(a, "x"), "zdec": "0" + str(a), "nhex": "-" + hex(a), "intfrac": f"{a}.0"}[c]
    val = -a if c in ("neg", "nhex") else a
    return tok(c, x, val)


def rng_tok(parts: list[tuple[int, int]], hexed: bool = False) -> dict[str, Any]:
    """a one-dimensional ranges token 'lo-hi,x' (unravel docstring: ranges by hyphens, enumerations by commas,
    overlapping ranges are merged, the result is a list of numbers -- the example is sorted)"""
    fmt = hex if hexed else str
    x = ",".join(fmt(lo) if lo == hi else f"{fmt(lo)}-{fmt(hi)}" for lo, hi in parts)
    vals = sorted({n for lo, hi in parts for n in range(lo, hi + 1)})
    return tok("rng", x, V("l", q=[canon(n) for n in vals]))


def r2_tok(outer: list[tuple[int, int]], inner: list[tuple[int, int]] | None) -> dict[str, Any]:
    """a two-dimensional ranges token 'outer:inner' or 'outer' (unravel_2d docstring)"""
    o = ",".join(str(lo) if lo == hi else f"{lo}-{hi}" for lo, hi in outer)
    keys = sorted({n for lo, hi in outer for n in range(lo, hi + 1)})
    if inner is None:
        return tok("r2", o, V("d", q=[V("kn", n=k) for k in keys]))
    i = ",".join(str(lo) if lo == hi else f"{lo}-{hi}" for lo, hi in inner)
    ins = sorted({n for lo, hi in inner for n in range(lo, hi + 1)})
    return tok("r2", f"{o}:{i}", V("d", q=[V("kv", n=k, q=[canon(n) for n in ins]) for k in keys]))


def enum_toks(e: type[enum.Enum], m: enum.Enum) -> list[dict[str, Any]]:
    out = [tok("ename", m.name, m), tok("evalue", str(m.value), m)]
    if isinstance(m.value, int):
        out.append(tok("ehexvalue", hex(m.value), m))
    return out


JUNK = tok("junk", "zz!")
EMPTY = tok("empty", "")
NUMS = [num_tok("dec", 12), num_tok("dec", 7), num_tok("neg", 3), num_tok("hex", 31), num_tok("hexu", 31),
        num_tok("oct", 15), num_tok("bin", 5), num_tok("bare", 31), num_tok("zdec", 10), tok("frac", "1.5", 1.5),
        num_tok("intfrac", 3), num_tok("nhex", 16), JUNK, EMPTY]
URIS = [tok("uri", "tcp-lines://127.0.0.1:1001", V("u", s="tcp-lines://127.0.0.1:1001")),
        tok("uri", "isotp://vcan0?src_addr=0x1&dst_addr=0x2", V("u", s="isotp://vcan0?src_addr=0x1&dst_addr=0x2"))]

# the fixed tables the TLC design run enumerates: conversion kind -> tokens
TOKENS: dict[str, list[dict[str, Any]]] = {
    "bool": [tok("word", "true"), num_tok("dec", 0)],
    "int": [t for t in NUMS if t["c"] in ("dec", "neg", "hex", "zdec", "frac", "intfrac", "junk", "empty")] + [num_tok("dec", 0)],
    "float": [t for t in NUMS if t["c"] in ("dec", "neg", "frac", "intfrac", "hex", "junk")] + [tok("exp", "1e3", 1000)],
    "str": [tok("word", "abc"), tok("word", "100%"), EMPTY, tok("dashword", "-x"), num_tok("dec", 12)],
    "path": [tok("pathy", "/x20/a"), tok("pathy", "rel/b")],
    "autoint": NUMS,
    "hexint": [t for t in NUMS if t["c"] in ("dec", "neg", "hex", "hexu", "oct", "bare", "zdec", "frac", "junk", "empty")]
    + [tok("word", "abc")],
    "hexbytes": [tok("hexl", "0a0b", b"\x0a\x0b"), tok("hexU", "0A0B", b"\x0a\x0b"), tok("odd", "0a0"), JUNK, EMPTY],
    "enum:Color": [tok("evalue", "g", Color.GREEN), tok("ename", "GREEN", Color.GREEN), tok("eunknown", "x"), JUNK],
    "enumarg:Num": enum_toks(Num, Num.TWO) + [tok("ename", "THREE", Num.THREE), tok("elower", "two"), tok("eunknown", "9"),
                                               JUNK, EMPTY],
    "enumarg:Color": enum_toks(Color, Color.BLUE) + [tok("elower", "blue"), tok("eunknown", "x"), JUNK],
    "literal": [tok("word", "slow"), tok("word", "fast"), tok("word", "medium"), JUNK, EMPTY],
    "autolit:service": enum_toks(Num, Num.TWO) + [tok("ename", "THREE", Num.THREE), tok("evalue", "3", Num.THREE), JUNK],
    "autolit:digit": [num_tok("dec", 2), num_tok("hex", 3), num_tok("dec", 7), JUNK],
    "autolit:magic": [tok("hexl", "0102", b"\x01\x02"), tok("hexl", "03", b"\x03"), tok("hexl", "0a0b", b"\x0a\x0b"), JUNK],
    "uri": URIS,
    "union": [num_tok("dec", 12), tok("word", "abc")],
    "ranges": [rng_tok([(1, 3), (7, 7)]), rng_tok([(16, 18)], hexed=True), rng_tok([(5, 5)]), rng_tok([(2, 4), (3, 6)]),
               tok("rrev", "3-1"), JUNK],
    "ranges2d": [r2_tok([(1, 1)], [(2, 3)]), r2_tok([(4, 5)], [(6, 6)]), r2_tok([(9, 9)], None), r2_tok([(1, 1)], None),
                 r2_tok([(1, 1)], [(3, 5)]), JUNK],
    "dict": [tok("word", "a=1"), tok("word", '{"a": 1}')],
    "elem:int": [num_tok("dec", 12), num_tok("dec", 7), num_tok("neg", 3), JUNK],
    "elem:str": [tok("word", "abc"), tok("word", "xyz"), EMPTY],
    "elem:autoint": [num_tok("hex", 31), num_tok("dec", 7), num_tok("zdec", 10)],
    "elem:enumarg": enum_toks(Num, Num.TWO)[:2] + [tok("ename", "ONE", Num.ONE), tok("eunknown", "9")],
}


def table_of(fd: FD) -> str:
    if fd.kind in ("list", "set", "tuple2"):
        return "elem:" + fd.elem
    if fd.kind == "enum":
        return "enum:Color"
    if fd.kind == "enumarg":
        return "enumarg:" + type(fd.members[0]).__name__
    if fd.kind == "autolit":
        return "autolit:" + fd.name
    return fd.kind


def option_strings(model: str) -> list[str]:
    """every option string of the model's parser, by the documented naming rules (plus the help flag)"""
    out = ["-h", "--help"]
    for x in FIELDS[model]:
        if not x.hidden:
            out += x.names()
    return out


def abbreviation(fd: FD) -> str:
    """a proper prefix of the long option that is a prefix of no other option string of the model ('' if none)"""
    if fd.pos or fd.hidden:
        return ""
    others = [o for o in option_strings(fd.model) if o != fd.long]
    for n in range(len(fd.long) - 1, 3, -1):
        p = fd.long[:n]
        if not any(o.startswith(p) for o in others):
            return p
    return ""


def base_item(fd: FD) -> dict[str, Any]:
    """a valid occurrence of a required field"""
    if fd.kind == "bool":
        return {"f": fd.name, "form": "long", "toks": []}
    return {"f": fd.name, "form": "pos" if fd.pos else "long", "toks": [num_tok("dec", 7)]}


def model_descriptor(m: str, with_tokens: bool = False) -> dict[str, Any]:
    fields = []
    for x in FIELDS[m]:
        d = dict(x.descriptor(), abbr=bool(abbreviation(x)))
        if x.req:
            d["base"] = base_item(x)
        fields.append(d)
    out = {"m": m, "fields": fields, "ext": m == "all", "parse": m != "top", "config": m != "top",
           "pct": m in MODEL_PCT or any(x.pct for x in FIELDS[m])}
    if with_tokens:
        out["toks"] = [TOKENS[table_of(x)] for x in FIELDS[m]]
    return out


def universe() -> dict[str, Any]:
    """what the MC configs of spec/MC_ArgFields.tla read (IOEnv.X20_UNIVERSE)"""
    check_declarations()
    return {"models": [model_descriptor(m, with_tokens=True) for m in FIELDS]}


if __name__ == "__main__":
    json.dump(universe(), sys.stdout)
