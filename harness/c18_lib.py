"""C18 helpers: walking the real command tree, reading the option DECLARATIONS
(independently of what pydantic made of them), value generators per field type,
running one parse of the real parser in a clean environment and projecting the
result into the vocabulary of spec/ConfigPrecedenceContract.tla.

Nothing in here judges the property; TLC does (Trace_ConfigPrecedence)."""

from __future__ import annotations

import ast
import contextlib
import dataclasses
import inspect
import io
import json
import os
import re
import shutil
import sys
import tempfile
import textwrap
import types
import typing
from dataclasses import dataclass, field
from enum import Enum
from pathlib import Path
from typing import Annotated, Any, Literal, Union, get_args, get_origin

import gallia.command  # noqa: F401  (resolves the import cycle command <-> plugins)
from gallia.cli import gallia as gcli
from gallia.command import config as gconfig
from gallia.plugins.plugin import CommandTree, load_commands
from gallia.pydantic_argparse.utils import field as argfield
from gallia.transports import TargetURI
from pydantic import BaseModel, ValidationError

from harness.common import Machinery

SRC = ("cli", "env", "file")
CONST = "<const>"  # CLI raw: the option given without a value


# --------------------------------------------------------------------------
# command tree


def walk_commands() -> list[tuple[tuple[str, ...], type]]:
    out: list[tuple[tuple[str, ...], type]] = []

    def rec(t: Any, path: tuple[str, ...]) -> None:
        for k, v in t.items():
            if isinstance(v, CommandTree):
                rec(v.subtree, path + (k,))
            else:
                out.append((path + (k,), v))

    rec(load_commands(), ())
    return out


# --------------------------------------------------------------------------
# declarations, read from the class sources (the developer's intent), NOT from
# model_fields (what the installed pydantic made of them)


@dataclass
class Decl:
    name: str
    owner: str
    gallia_field: bool = False  # declared with gallia.command.config.Field => env (and file) configurable
    arg_field: bool = False  # ... or with pydantic_argparse's Field (CLI attributes only)
    positional: bool = False
    hidden: bool = False
    has_const: bool = False
    const: Any = None
    short: str | None = None
    section: str | None = None
    annot_toplevel: bool = False
    annotation: Any = None
    # how the declaration binds its sources (see inherit_sources):
    #   section_explicit: the declaration itself fixes the section (Field(config_section=...) written out, or the
    #                     class statement carries config_section=...)
    #   bare:             redeclared without any Field() call (`name: T = value`: a new default, nothing else)
    #   sources_from:     the class up the MRO whose declaration this one keeps its env / file binding from
    section_explicit: bool = False
    bare: bool = False
    sources_from: str | None = None

    @property
    def key(self) -> str | None:
        if not self.gallia_field or self.section is None or self.hidden:
            return None
        return f"{self.section}.{self.name}" if self.section != "" else self.name


_DECL_CACHE: dict[type, dict[str, Decl]] = {}


def _class_decls(k: type) -> dict[str, Decl]:
    if k in _DECL_CACHE:
        return _DECL_CACHE[k]
    out: dict[str, Decl] = {}
    own = k.__dict__.get("__annotations__") or {}
    if not own or not isinstance(own, dict):
        _DECL_CACHE[k] = out
        return out
    try:
        src = textwrap.dedent(inspect.getsource(k))
    except (OSError, TypeError):
        _DECL_CACHE[k] = out
        return out
    mod = sys.modules[k.__module__]
    glob = dict(vars(mod))
    tree = ast.parse(src)
    cdef = next(n for n in tree.body if isinstance(n, ast.ClassDef))

    def ev(node: ast.AST) -> Any:
        return eval(compile(ast.Expression(node), "<decl>", "eval"), glob)  # noqa: S307

    section = None
    class_section_explicit = False
    for kw in cdef.keywords:
        if kw.arg == "config_section":
            section = ev(kw.value)
            class_section_explicit = True
    try:
        hints = typing.get_type_hints(k, include_extras=True)
    except Exception:  # noqa: BLE001
        hints = {}
    for st in cdef.body:
        if not (isinstance(st, ast.AnnAssign) and isinstance(st.target, ast.Name)):
            continue
        name = st.target.id
        if name.startswith("_") or name == "model_config":
            continue
        ann = hints.get(name, own.get(name))
        if get_origin(ann) is typing.ClassVar:
            continue
        d = Decl(name=name, owner=f"{k.__module__}.{k.__qualname__}", annotation=ann,
                 annot_toplevel=get_origin(ann) is Annotated, bare=not isinstance(st.value, ast.Call))
        if isinstance(st.value, ast.Call):
            try:
                fn = ev(st.value.func)
            except Exception:  # noqa: BLE001
                fn = None
            if fn is gconfig.Field or fn is argfield.Field:
                d.arg_field = True
                d.gallia_field = fn is gconfig.Field
                kws = {kw.arg: kw.value for kw in st.value.keywords if kw.arg}
                if "positional" in kws:
                    d.positional = bool(ev(kws["positional"]))
                if "hidden" in kws:
                    d.hidden = bool(ev(kws["hidden"]))
                if "short" in kws:
                    d.short = ev(kws["short"])
                if "const" in kws:
                    d.has_const = True
                    d.const = ev(kws["const"])
                fsec = ev(kws["config_section"]) if "config_section" in kws else None
                if d.gallia_field:
                    d.section = fsec if fsec is not None else section
                    d.section_explicit = "config_section" in kws or class_section_explicit
        out[name] = d
    _DECL_CACHE[k] = out
    return out


def inherit_sources(prev: Decl | None, new: Decl) -> Decl:
    """The declaration of option `new.name` as seen by a command whose config class REdeclares it (`new`) below
    an inherited declaration (`prev`, already merged along the MRO).

    Ground truth for "the matching key of gallia.toml" that does not come from the tree's own field metadata:
    the section is fixed by the class that introduces the option as file-configurable.  A subclass that
    redeclares the option (another default, another help text) keeps `S.<name>` -- that is the key --template
    prints for this option name and the key every sibling command reads -- unless the redeclaration ITSELF says
    otherwise: config_section= written out in the Field() call (whatever it evaluates to), config_section= on the
    class statement, or hidden=True.  A redeclaration without any Field() call (`name: T = value`) changes the
    default only and keeps the environment binding as well.  A redeclaration through another Field function
    (pydantic's / pydantic_argparse's) is a deliberate choice of a field kind: nothing is inherited (silent)."""
    if prev is None or prev.section is None or not prev.gallia_field or prev.hidden:
        return new
    if new.hidden or new.section_explicit:
        return new
    origin = prev.sources_from or prev.owner
    if new.gallia_field and new.section is None:
        return dataclasses.replace(new, section=prev.section, sources_from=origin)
    if new.bare:
        return dataclasses.replace(new, gallia_field=True, section=prev.section, sources_from=origin)
    return new


def declarations(cfg_type: type) -> dict[str, Decl]:
    out: dict[str, Decl] = {}
    for k in reversed(cfg_type.__mro__):
        if k in (object, BaseModel) or not isinstance(k, type):
            continue
        for name, d in _class_decls(k).items():
            out[name] = inherit_sources(out.get(name), d)
    return out


def all_config_classes() -> list[type]:
    seen: list[type] = []

    def rec(k: type) -> None:
        for s in k.__subclasses__():
            if s not in seen and not s.__name__.startswith("_dynamic_"):
                seen.append(s)
                rec(s)

    rec(gconfig.GalliaBaseModel)
    return seen


# --------------------------------------------------------------------------
# canonical values (data abstraction: equal canon <=> equal value)


def canon(v: Any) -> Any:
    if isinstance(v, TargetURI):
        return ["uri", type(v).__name__, v.raw]
    if isinstance(v, Enum):
        return ["enum", type(v).__name__, v.name]
    if isinstance(v, (bytes, bytearray)):
        return ["bytes", bytes(v).hex()]
    if isinstance(v, Path):
        return ["path", str(v)]
    if isinstance(v, bool):
        return ["bool", v]
    if isinstance(v, int):
        return ["num", str(v)]
    if isinstance(v, float):  # Python equality: 2 == 2.0
        return ["num", str(int(v)) if v.is_integer() else repr(v)]
    if isinstance(v, str):
        return ["str", v]
    if v is None:
        return ["none"]
    if isinstance(v, (list, tuple)):
        return [type(v).__name__, [canon(x) for x in v]]
    if isinstance(v, (set, frozenset)):
        return ["set", sorted(json.dumps(canon(x)) for x in v)]
    if isinstance(v, dict):
        return ["dict", sorted([json.dumps(canon(k)), canon(x)] for k, x in v.items())]
    if isinstance(v, BaseModel):
        return ["model", type(v).__name__, canon(dict(v))]
    return ["repr", type(v).__name__, repr(v)]


def ckey(v: Any) -> str:
    return json.dumps(canon(v), sort_keys=True)


# --------------------------------------------------------------------------
# type analysis and value generators


def _strip(ann: Any) -> tuple[Any, bool]:
    """-> (innermost non-Optional, non-Annotated type, was_optional)"""
    opt = False
    while True:
        o = get_origin(ann)
        if o is Annotated:
            ann = get_args(ann)[0]
        elif o is Union or o is types.UnionType:
            args = [a for a in get_args(ann) if a is not type(None)]
            opt = opt or len(args) != len(get_args(ann))
            ann = args[0] if args else type(None)
        else:
            return ann, opt


def kind_of(d: Decl) -> str:
    base, _ = _strip(d.annotation)
    o = get_origin(base) or base
    if base is bool:
        return "bool"
    if isinstance(o, type) and issubclass(o, (list, dict, set, frozenset, tuple)):
        return "container"
    if d.has_const:
        return "const"
    return "scalar"


def type_class(d: Decl) -> str:
    """The named field-type classes of the property's quantifier (for coverage reporting)."""
    base, opt = _strip(d.annotation)
    metas = _all_meta(d.annotation)
    o = get_origin(base) or base
    if d.positional:
        pre = "positional:"
    elif d.has_const:
        pre = "const-flag:"
    else:
        pre = ""
    if base is bool:
        return pre + "bool"
    if base is int:
        return pre + ("int-any-base" if metas else "int")
    if base is float:
        return pre + "float"
    if base is bytes:
        return pre + "hex-bytes"
    if base is str:
        return pre + "str"
    if isinstance(base, type) and issubclass(base, Path):
        return pre + "path"
    if isinstance(base, type) and issubclass(base, TargetURI):
        return pre + "uri"
    if isinstance(base, type) and issubclass(base, Enum):
        return pre + "enum-by-name-or-value"
    if o is Literal:
        return pre + "literal"
    if o is list:
        (el,) = get_args(base) or (Any,)
        eb, _ = _strip(el)
        if (get_origin(eb) or eb) is tuple:
            return pre + "list-of-tuples"
        return pre + ("ranges" if _is_ranges(d.annotation) else "list")
    if o is dict:
        ka = get_args(base)
        return pre + ("ranges-2d" if ka and ka[0] is int else "dict")
    return pre + "other"


def _all_meta(ann: Any) -> list[Any]:
    out: list[Any] = []
    o = get_origin(ann)
    if o is Annotated:
        out += list(get_args(ann)[1:])
        out += _all_meta(get_args(ann)[0])
    elif o is Union or o is types.UnionType:
        for a in get_args(ann):
            out += _all_meta(a)
    return out


def _is_ranges(ann: Any) -> bool:
    rf = get_args(gconfig.Ranges)[1].func
    return any(getattr(m, "func", None) is rf for m in _all_meta(ann))


INT_TEXTS = ["7", "0x1f", "0b101", "0o17", "12", "0x2A", "33", "0X10"]
FLOAT_TEXTS = ["1.5", "2.25", "3", "0.125"]
BYTES_TEXTS = ["0a0b", "deadbeef", "00", "FF01"]
STR_TEXTS = ["default", "abc", "xyz", "foo", "date +%s", "100%"]  # incl. texts that are no format strings
PATH_TEXTS = ["/nonexistent/c18/a", "/nonexistent/c18/b.db", "rel/c18"]
URI_TEXTS = ["tcp-lines://127.0.0.1:1001", "tcp://127.0.0.1:1002", "unix-lines:///nonexistent/c18.sock",
             "isotp://vcan0?src_addr=0x1&dst_addr=0x2&is_fd=false", "can-raw://vcan0", "doip://127.0.0.1:13400?src_addr=1&target_addr=2",
             "tcp-lines://127.0.0.1:1003?tag=a%20b"]
BAD = "zz!"


def scalar_texts(base: Any) -> list[str]:
    o = get_origin(base) or base
    if base is int:
        return INT_TEXTS
    if base is float:
        return FLOAT_TEXTS + ["7"]
    if base is bytes:
        return BYTES_TEXTS
    if base is str:
        return STR_TEXTS
    if isinstance(base, type) and issubclass(base, Path):
        return PATH_TEXTS
    if isinstance(base, type) and issubclass(base, TargetURI):
        return URI_TEXTS
    if isinstance(base, type) and issubclass(base, Enum):
        ms = list(base)[:4]
        out = []
        for i, m in enumerate(ms):
            out.append(m.name if i % 2 == 0 else (hex(m.value) if isinstance(m.value, int) else str(m.value)))
        out += [str(ms[0].value)]
        return out
    if o is Literal:
        out = []
        for i, a in enumerate(get_args(base)):
            if isinstance(a, Enum):
                out.append(a.name if i % 2 == 0 else str(a.value))
            elif isinstance(a, bytes):
                out.append(a.hex())
            else:
                out.append(str(a))
        return out
    if o is tuple:
        n = len(get_args(base))
        return [":".join(INT_TEXTS[(i + j) % len(INT_TEXTS)] for j in range(n)) for i in range(3)]
    return STR_TEXTS + INT_TEXTS[:2]


@dataclass
class Cands:
    """raw candidates per source.  cli: list of raw inputs (str | list[str] | bool | CONST),
    env: list[str], file: list of TOML-able python values."""
    cli: list[Any] = field(default_factory=list)
    env: list[Any] = field(default_factory=list)
    file: list[Any] = field(default_factory=list)


def _native(base: Any, text: str) -> Any:
    """a natively typed TOML value for text where one exists (int / float), else the text"""
    try:
        if base is int:
            return int(text, 0)
        if base is float:
            return float(text)
    except ValueError:
        pass
    return text


def candidates(d: Decl) -> Cands:
    base, _opt = _strip(d.annotation)
    o = get_origin(base) or base
    c = Cands()
    k = kind_of(d)
    if k == "bool":
        c.cli = [True, False]
        c.env = ["true", "false", "1", "0", BAD]
        c.file = [True, False, BAD]
        return c
    if k == "container":
        if o is dict:
            ka = get_args(base)
            if ka and ka[0] is int:  # Ranges2D
                groups = [["1:2", "3"], ["4:5-6"], ["0x10:1,2", "7-8:9"]]
            else:
                groups = [["a"], ["b", "c"]]
        else:
            el = (get_args(base) or (str,))[0]
            eb, _ = _strip(el)
            tx = scalar_texts(eb)
            groups = [[tx[0], tx[1 % len(tx)]], [tx[2 % len(tx)]], [tx[3 % len(tx)], tx[0]], [tx[1 % len(tx)]]]
            if _is_ranges(d.annotation):
                groups = [["1-3", "7"], ["0x10-0x12"], ["5,6"], ["9"]]
        c.cli = [list(g) for g in groups] + [[BAD]]
        c.env = [" ".join(g) for g in groups] + [BAD]
        c.file = [list(g) for g in groups] + [" ".join(groups[0])] + [[BAD], BAD]
        if o is list:
            eb, _ = _strip((get_args(base) or (str,))[0])
            if eb in (int, float):
                try:
                    c.file.insert(1, [_native(eb, t) for t in groups[1]])
                except Exception:  # noqa: BLE001
                    pass
        return c
    tx = scalar_texts(base)
    c.cli = list(tx) + [BAD]
    if k == "const":
        c.cli = [CONST] + c.cli
    c.env = list(reversed(tx)) + [BAD]
    c.file = [_native(base, t) for t in tx[1:] + tx[:1]] + [BAD]
    return c


# --------------------------------------------------------------------------
# options of one command


@dataclass
class Opt:
    name: str
    decl: Decl
    kind: str
    tclass: str
    long: str | None  # "--name" or None for positionals
    short: str | None
    is_positional_cli: bool
    env_var: str
    key: str | None


def cli_tokens(o: Opt, raw: Any, use_short: bool = False) -> list[str]:
    flag = (o.short if use_short and o.short else o.long)
    if o.is_positional_cli:
        return list(raw) if isinstance(raw, list) else [raw]
    assert flag is not None
    if isinstance(raw, bool):
        return [flag] if raw else ["--no-" + o.long[2:]]  # type: ignore[index]
    if raw == CONST:
        return [flag]
    if isinstance(raw, list):
        return [flag, *raw]
    return [flag, raw]


def cli_input(o: Opt, raw: Any) -> Any:
    """what the declared CLI grammar hands to the config class for this raw CLI text"""
    if raw == CONST:
        return o.decl.const
    return raw


def toml_value(v: Any) -> str:
    if isinstance(v, bool):
        return "true" if v else "false"
    if isinstance(v, (int, float)):
        return repr(v)
    if isinstance(v, str):
        return json.dumps(v)
    if isinstance(v, list):
        return "[" + ", ".join(toml_value(x) for x in v) + "]"
    raise TypeError(v)


def toml_text(pairs: dict[str, Any]) -> str:
    """dotted key -> value; written as [section] tables"""
    secs: dict[str, list[str]] = {}
    for k, v in pairs.items():
        sec, _, name = k.rpartition(".")
        secs.setdefault(sec, []).append(f"{name} = {toml_value(v)}")
    out = []
    for sec in sorted(secs, key=lambda s: (s != "", s)):
        if sec:
            out.append(f"[{sec}]")
        out += secs[sec]
        out.append("")
    return "\n".join(out)


# --------------------------------------------------------------------------
# running the real parser in a clean environment


class Sandbox:
    """one temp dir per worker; the process environment is restored after every parse"""

    def __init__(self) -> None:
        self.dir = tempfile.mkdtemp(prefix="c18-")
        self.toml = os.path.join(self.dir, "gallia.toml")

    def close(self) -> None:
        shutil.rmtree(self.dir, ignore_errors=True)

    def parse(self, target: Any, argv: list[str], env: dict[str, str], toml: str) -> tuple[Any, str | None]:
        """-> (config of the selected command | None, error text | None)"""
        saved = dict(os.environ)
        saved_argv = sys.argv
        err = io.StringIO()
        out = io.StringIO()
        try:
            for k in list(os.environ):
                if k.startswith("GALLIA_"):
                    del os.environ[k]
            with open(self.toml, "w") as f:
                f.write(toml)
            os.environ["GALLIA_CONFIG"] = self.toml
            os.environ.update(env)
            sys.argv = ["gallia"]
            try:
                with contextlib.redirect_stderr(err), contextlib.redirect_stdout(out):
                    parser = gcli.create_parser(target)
                    _, cfg = parser.parse_typed_args(list(argv))
                return cfg, None
            except SystemExit as e:
                return None, f"[exit {e.code}]\n" + err.getvalue()
            except Exception as e:  # noqa: BLE001
                return None, f"[raised {type(e).__name__}: {e}]\n" + err.getvalue()
        finally:
            sys.argv = saved_argv
            os.environ.clear()
            os.environ.update(saved)


def error_message(text: str) -> str:
    """the message part of the parser's error output (usage block removed)"""
    lines = text.split("\n")
    for i, ln in enumerate(lines):
        if ln.startswith("error:") or re.match(r"^\d+ errors:", ln):
            return "\n".join(lines[i:])
    keep = []
    in_usage = False
    for ln in lines:
        if ln.startswith("usage:"):
            in_usage = True
            continue
        if in_usage and ln[:1] in (" ", "\t"):
            continue
        in_usage = False
        keep.append(ln)
    return "\n".join(keep)


def named_sources(text: str, o: Opt, toml_path: str) -> list[str]:
    """projection of an error text onto the sources it names (liberal: any recognisable mention)"""
    msg = error_message(text)
    low = msg.lower()
    named = []
    if o.is_positional_cli:
        if re.search(r"argument[s]?\b[^\n]*\b" + re.escape(o.name) + r"\b", msg) or "required" in low:
            named.append("cli")
    else:
        names = [n for n in (o.long, ("-" + o.short.lstrip("-")) if o.short else None) if n]
        if any(re.search(r"(?<![\w-])" + re.escape(n) + r"(?![\w-])", msg) for n in names):
            named.append("cli")
    if o.env_var in msg or "environment" in low:
        named.append("env")
    if "config" in low or toml_path in msg or (o.key is not None and o.key in msg) or "gallia.toml" in low:
        named.append("file")
    return named


def introspect_cli(cmd: type, sb: Sandbox) -> dict[str, Any]:
    """dest -> argparse action of the real per-command parser (clean environment)"""
    saved = dict(os.environ)
    try:
        for k in list(os.environ):
            if k.startswith("GALLIA_"):
                del os.environ[k]
        with open(sb.toml, "w") as f:
            f.write("")
        os.environ["GALLIA_CONFIG"] = sb.toml
        parser = gcli.create_parser(cmd)
    finally:
        os.environ.clear()
        os.environ.update(saved)
    acts: dict[str, Any] = {}
    for a in parser._actions:  # noqa: SLF001
        acts.setdefault(a.dest, a)
    return acts


def options_of(cmd: type, sb: Sandbox) -> list[Opt]:
    cfg_type = cmd.CONFIG_TYPE
    decls = declarations(cfg_type)
    acts = introspect_cli(cmd, sb)
    out = []
    for name in cfg_type.model_fields:
        d = decls.get(name)
        if d is None:
            raise Machinery(f"no declaration found for {cfg_type.__name__}.{name}")
        if d.hidden:
            continue
        a = acts.get(name)
        if a is None:
            raise Machinery(f"option {cfg_type.__name__}.{name} has no command-line argument")
        longs = [s for s in a.option_strings if s.startswith("--") and not s.startswith("--no-")]
        shorts = [s for s in a.option_strings if not s.startswith("--")]
        out.append(Opt(name=name, decl=d, kind=kind_of(d), tclass=type_class(d),
                       long=longs[0] if longs else None, short=shorts[0] if shorts else None,
                       is_positional_cli=not a.option_strings, env_var=f"GALLIA_{name.upper()}", key=d.key))
    return out


# --------------------------------------------------------------------------
# reference: the config class applied directly to the raw value of ONE source


def reference(cfg_type: type, kwargs: dict[str, Any], name: str | None) -> tuple[str, Any]:
    """-> ("ok", model) | ("invalid", None)  field-level rejection of `name`
                        | ("missing", None)  `name` absent and required
                        | ("cross", None)    rejected, but not at field `name`"""
    try:
        return "ok", cfg_type(**kwargs)
    except ValidationError as e:
        errs = e.errors()
        mine = [x for x in errs if x["loc"] and x["loc"][0] == name]
        if mine:
            if name not in kwargs and all(x["type"] == "missing" for x in mine):
                return "missing", None
            return "invalid", None
        return "cross", None
    except Exception:  # noqa: BLE001  (a validator raising something else than ValueError)
        return "invalid", None
