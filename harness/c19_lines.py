"""C19 helpers: drive the real tcp-lines / unix-lines transports and the real
server loop TCPUDSServerTransport.handle_client over hand-fed streams (virtual
time) and over real loopback / unix sockets, and record the event alphabet of
spec/LinesStreamContract.tla (Send / Feed / Close / ReadBegin / ReadEnd).

Nothing here judges the property: results are projected (bytes -> content class
by exact dictionary lookup) and recorded; TLC (Trace_LinesStream) decides.

Plan language of the peer (the environment), over the byte stream of one
direction of one connection:
  ("F", k)   hand the next k bytes to the reader in ONE segment
  ("Z",)     let every ready callback run (no time passes)
  ("G", ms)  let ms (virtual) milliseconds pass
  ("T",)     wait until the reader has reported one more read timeout
             (server loop: it has no timeouts -> 1000 virtual ms pass)
  ("E",)     end-of-stream (peer closes)
"""

from __future__ import annotations

import asyncio
import binascii
import contextlib
import io
import math
import os
from collections.abc import Awaitable, Callable
from typing import Any

from gallia.services.uds.core import service
from gallia.services.uds.server import TCPUDSServerTransport, UDSServer
from gallia.transports.base import TargetURI
from gallia.transports.tcp import TCPLinesTransport
from gallia.transports.unix import UnixLinesTransport

from harness import streams, vloop
from harness.common import Machinery

CLIENT_KINDS = ("tcp", "unix")
KINDS = ("tcp", "unix", "server")
FAKE_URI = {"tcp": "tcp-lines://127.0.0.1:20162", "unix": "unix-lines:///nonexistent/c19.sock"}
CLS = {"tcp": TCPLinesTransport, "unix": UnixLinesTransport}
READ_TO_MS = 1000  # the read timeout used by timed reads under virtual time


def ref_encode(m: bytes) -> bytes:
    """The documented wire format: ascii hex + newline (harness-side reference)."""
    return binascii.hexlify(m) + b"\n"


def echo_reply(raw: bytes) -> bytes:
    """Reply of the echo-like virtual ECU: same length, first byte + 0x40 (mod 256)."""
    return bytes([(raw[0] + 0x40) & 0xFF]) + raw[1:] if raw else b""


def E(e: str, c: int = 0, n: int = 0, to: int = 0, r: str = "") -> dict[str, Any]:
    return {"e": e, "c": c, "n": n, "to": to, "r": r}


# --------------------------------------------------------------------------
# the virtual ECU side: real handle_client, echo-like UDSServer


class _Resp:
    def __init__(self, pdu: bytes) -> None:
        self.pdu = pdu


class EchoServer(UDSServer):
    """Echo-like UDSServer: replies echo_reply(raw request bytes).  The raw bytes
    are taken from RecordingServerTransport.handle_request so that the UDS codec
    (properties C01/C02) is not part of what is observed here."""

    def __init__(self) -> None:
        super().__init__()
        self.current_raw = b""
        self.on_respond: Callable[[], None] | None = None

    @property
    def supported_services(self) -> dict[int, Any]:  # type: ignore[override]
        return {}

    async def respond_after_default(self, request: service.UDSRequest) -> service.UDSResponse | None:
        return None

    # virtual-time runs: the ECU needs time for some requests and none for others (decided by the request's first
    # byte), so that a loop which does not finish one request before it serves the next shows in the reply order
    uneven = False

    async def respond(self, request: service.UDSRequest) -> Any:  # type: ignore[override]
        raw = self.current_raw
        if self.on_respond is not None:
            self.on_respond()
        if self.uneven and raw and raw[0] % 2 == 0:
            await asyncio.sleep(0.3)
        return _Resp(echo_reply(raw))


class RecordingServerTransport(TCPUDSServerTransport):
    """The real server transport; handle_request additionally reports the bytes
    the loop delivered to the UDS layer."""

    def __init__(self, on_request: Callable[[bytes], None]) -> None:
        super().__init__(EchoServer(), TargetURI(FAKE_URI["tcp"]))
        self.on_request = on_request

    async def handle_request(self, request_pdu: bytes) -> tuple[bytes | None, float]:
        self.on_request(bytes(request_pdu))
        self.server.current_raw = bytes(request_pdu)  # type: ignore[attr-defined]
        return await super().handle_request(request_pdu)


def instrument_reader(r: asyncio.StreamReader, on_begin: Callable[[], None] | None = None,
                      on_feed: Callable[[int], None] | None = None,
                      on_eof: Callable[[], None] | None = None) -> None:
    """Instance-level hooks on a real asyncio.StreamReader (harness process only)."""
    if on_begin is not None:
        depth = [0]

        def wrap(name: str) -> None:
            orig = getattr(r, name)

            async def w(*a: Any, **kw: Any) -> Any:
                if depth[0] == 0:
                    on_begin()
                depth[0] += 1
                try:
                    return await orig(*a, **kw)
                finally:
                    depth[0] -= 1

            setattr(r, name, w)

        for nm in ("readline", "readuntil", "read", "readexactly"):
            wrap(nm)
    if on_feed is not None:
        orig_fd = r.feed_data

        def fd(data: bytes) -> None:
            if data:
                on_feed(len(data))
            orig_fd(data)

        r.feed_data = fd  # type: ignore[method-assign]
    if on_eof is not None:
        orig_eof = r.feed_eof

        def fe() -> None:
            on_eof()
            orig_eof()

        r.feed_eof = fe  # type: ignore[method-assign]


# --------------------------------------------------------------------------
# one recorded direction


class Rec:
    """Event recorder of one direction (sender -> stream -> reader)."""

    def __init__(self, contents: list[bytes]) -> None:
        self.tab: dict[bytes, int] = {}
        self.ev: list[dict[str, Any]] = []
        self.rb: list[bytes] = []
        self.notes: dict[str, int] = {}
        self.timeouts = 0
        self.tmo_event: asyncio.Event | None = None
        self.reading = False
        self.closed = False
        self.feeder_done = False
        self.open_send: int | None = None  # index of the Send event still being written (real sockets)
        for c in contents:
            self.tab.setdefault(bytes(c), len(self.tab) + 1)

    def cid(self, b: bytes) -> int:
        return self.tab.get(bytes(b), 0)

    def note(self, k: str) -> None:
        self.notes[k] = self.notes.get(k, 0) + 1

    def send(self, content: bytes, n: int) -> None:
        self.ev.append(E("Send", c=self.cid(content), n=n))

    def feed(self, n: int) -> None:
        self.ev.append(E("Feed", n=n))

    def noise(self, who: int, n: int) -> None:
        """n bytes that belong to no message entered the stream; who = 1: put there by the environment's peer
        (a keep-alive), 0: by the sender under test outside of any message."""
        self.ev.append(E("Noise", c=who, n=n))

    def close(self) -> None:
        self.closed = True
        self.ev.append(E("Close"))

    # server loops: the loop may already wait for the next line while a request is still being served (read-ahead);
    # what counts is the sequence of messages handed to the UDS layer, so a second begin is not an event of its own
    read_ahead_ok = False

    def begin(self, to: int) -> None:
        if self.read_ahead_ok and self.reading:
            return
        self.reading = True
        self.ev.append(E("ReadBegin", to=to))

    def end(self, r: str, data: bytes = b"", n: int = 0) -> None:
        if self.read_ahead_ok and not self.reading:
            self.ev.append(E("ReadBegin", to=0))
        self.reading = False
        if r == "Msg":
            self.rb.append(bytes(data))
            self.ev.append(E("ReadEnd", r="Msg", c=self.cid(data)))
        else:
            self.ev.append(E("ReadEnd", r=r, n=n))  # n: "Overdue" only -- ms the read had been pending
        if r == "Timeout":
            self.timeouts += 1
            if self.tmo_event is not None:
                self.tmo_event.set()

    def outcomes(self) -> list[tuple[str, int]]:
        return [(e["r"], e["c"]) for e in self.ev if e["e"] == "ReadEnd"]


async def _one_read(tr: Any, to_s: float | None, via: str) -> bytes:
    """via = "read": transport.read(timeout).  "outer-read" / "outer-request": the time limit is the CALLER's
    (asyncio.wait_for around read() / request(), the way wait_for_ecu() and the scanners bound their calls), so
    the read ends by cancellation; the statement's "a read that times out consumes nothing" does not depend on
    who owns the timer."""
    if via == "read":
        return await tr.read(timeout=to_s)
    inner = 3000.0 if to_s else None
    coro = tr.read(timeout=inner) if via == "outer-read" else tr.request(b"\x3e\x00", timeout=inner)
    if to_s:
        return await asyncio.wait_for(coro, to_s)
    return await coro


async def client_reader(tr: Any, rec: Rec, policy: list[int], max_reads: int, scale: float = 1.0,
                        via: str = "read") -> None:
    """Read until end-of-stream is reported (or nothing more can come).
    policy: timeouts in ms, cycled; 0 = no timeout."""
    errors = 0
    for i in range(max_reads):
        to = policy[i % len(policy)]
        rec.begin(to)
        try:
            data = await _one_read(tr, (to / 1000.0 * scale) if to else None, via)
        except asyncio.TimeoutError:
            rec.end("Timeout")
            if rec.feeder_done and not rec.closed:
                return
            continue
        except asyncio.CancelledError:
            raise
        except Exception as e:  # noqa: BLE001  (recorded, judged by TLC)
            rec.note("error:" + type(e).__name__)
            rec.end("Error")
            errors += 1
            if errors >= 2:
                return
            continue
        if data:
            rec.end("Msg", data)
        else:
            rec.end("Empty")
            return


class FakePort:
    """Peer side of a hand-fed Wire."""

    def __init__(self, wire: streams.Wire, rec: Rec) -> None:
        self.wire = wire
        self.rec = rec

    async def feed(self, data: bytes) -> None:
        self.rec.feed(len(data))
        self.wire.feed(data)

    async def settle(self) -> None:
        await streams.settle(4)

    async def eof(self) -> None:
        self.rec.close()
        self.wire.eof()


async def run_plan(port: Any, rec: Rec, stream: bytes, plan: list[tuple[Any, ...]], *, has_timeouts: bool,
                   scale: float = 1.0) -> None:
    pos = 0
    for op in plan:
        k = op[0]
        if k == "F":
            data = stream[pos:pos + op[1]]
            pos += len(data)
            if data:
                await port.feed(data)
        elif k == "Z":
            await port.settle()
        elif k == "G":
            await asyncio.sleep(op[1] / 1000.0 * scale)
        elif k == "T":
            if has_timeouts:
                assert rec.tmo_event is not None
                rec.tmo_event.clear()
                await rec.tmo_event.wait()
            else:
                await asyncio.sleep(READ_TO_MS / 1000.0 * scale)
        elif k == "E":
            await port.eof()
        else:
            raise Machinery(f"unknown plan op {op!r}")
    rec.feeder_done = True
    await port.settle()


def n_waits(plan: list[tuple[Any, ...]]) -> int:
    return sum(1 for op in plan if op[0] in ("G", "T"))


def run_reader(kind: str, contents: list[bytes], chunks: list[bytes], plan: list[tuple[Any, ...]],
               policy: list[int], lead: str = "feeder", via: str = "read") -> dict[str, Any]:
    """One execution of the real reader `kind` (tcp | unix: LinesTransportMixin.read
    via the real connect(); server: the real handle_client) on a hand-fed stream
    under virtual time.  contents[i] is the message whose wire bytes are chunks[i]."""
    rec = Rec(contents)
    for c, ch in zip(contents, chunks):
        rec.send(c, len(ch))
    stream = b"".join(chunks)
    replies: list[tuple[bytes, bytes]] = []
    max_reads = len(contents) + 3 * n_waits(plan) + 4
    if kind != "server" and any(op[0] == "T" for op in plan) and not all(policy):
        raise Machinery("plan waits for a read timeout but the read policy has reads without timeout")

    async def main_client() -> None:
        rec.tmo_event = asyncio.Event()
        lis = streams.Listener()
        with streams.patched_connections(lis):
            tr = await CLS[kind].connect(FAKE_URI[kind])
        wire = lis.wires[0]
        port = FakePort(wire, rec)
        if lead == "reader":
            rt = asyncio.ensure_future(client_reader(tr, rec, policy, max_reads, via=via))
            await streams.settle(2)
            ft = asyncio.ensure_future(run_plan(port, rec, stream, plan, has_timeouts=True))
        else:
            ft = asyncio.ensure_future(run_plan(port, rec, stream, plan, has_timeouts=True))
            await streams.settle(1)
            rt = asyncio.ensure_future(client_reader(tr, rec, policy, max_reads, via=via))
        try:
            await rt
        finally:
            ft.cancel()
            await _quiet_close(tr)

    marks: list[int] = []
    contents_seen: list[bytes] = []
    srv_wire: list[streams.Wire] = []

    async def main_server() -> None:
        def on_request(raw: bytes) -> None:
            rec.end("Msg", raw)
            contents_seen.append(raw)

        srv = RecordingServerTransport(on_request)
        srv.server.uneven = True  # type: ignore[attr-defined]
        rec.read_ahead_ok = True
        wire = streams.Wire()
        srv_wire.append(wire)
        wire.reader = asyncio.StreamReader(limit=2 ** 16)
        instrument_reader(wire.reader, on_begin=lambda: rec.begin(0))
        srv.server.on_respond = lambda: marks.append(len(wire.out_bytes))  # type: ignore[attr-defined]
        port = FakePort(wire, rec)

        async def loop_task() -> None:
            try:
                await srv.handle_client(wire.reader, wire.writer)  # type: ignore[arg-type]
            except asyncio.CancelledError:
                raise
            except ZeroDivisionError:
                rec.note("handle_client:ZeroDivisionError-in-statistics")
            except Exception as e:  # noqa: BLE001
                rec.note("handle_client-raised:" + type(e).__name__)
            # the end of the server loop is its report of end-of-stream
            if not rec.reading:
                rec.begin(0)
            rec.end("Empty")

        if lead == "reader":
            lt = asyncio.ensure_future(loop_task())
            await streams.settle(2)
            ft = asyncio.ensure_future(run_plan(port, rec, stream, plan, has_timeouts=False))
        else:
            ft = asyncio.ensure_future(run_plan(port, rec, stream, plan, has_timeouts=False))
            await streams.settle(1)
            lt = asyncio.ensure_future(loop_task())
        try:
            await lt
        finally:
            ft.cancel()

    hang = False
    err = io.StringIO()
    try:
        with contextlib.redirect_stderr(err):
            vloop.run(main_server() if kind == "server" else main_client(), horizon=3600.0)
    except (vloop.BlockedForever, TimeoutError):
        hang = True
    if hang:
        if not rec.reading:
            rec.begin(0)
        rec.end("Hang")
    if err.getvalue():
        rec.note("stderr-output")
    if srv_wire:
        # bytes the server wrote between two respond() calls are the reply to the first of them
        out = srv_wire[0].out_bytes
        for i, raw in enumerate(contents_seen):
            if i < len(marks):
                a = marks[i]
                b = marks[i + 1] if i + 1 < len(marks) else len(out)
                replies.append((echo_reply(raw), out[a:b]))  # b == a: the loop wrote nothing for this reply
    return {"kind": kind, "ev": rec.ev, "rb": rec.rb, "tab": rec.tab, "wire": stream, "notes": rec.notes,
            "replies": replies, "outcomes": rec.outcomes()}


def emit_client(kind: str, msgs: list[bytes]) -> list[bytes]:
    """Bytes the real transport.write() puts on the wire, one chunk per message."""
    chunks: list[bytes] = []

    async def main() -> None:
        lis = streams.Listener()
        with streams.patched_connections(lis):
            tr = await CLS[kind].connect(FAKE_URI[kind])
        wire = lis.wires[0]
        for m in msgs:
            k = len(wire.out)
            await tr.write(m, timeout=1.0)
            chunks.append(b"".join(b for _, b in wire.out[k:]))
        await tr.close()

    vloop.run(main(), horizon=3600.0)
    return chunks


def emit_client_concurrent(kind: str, msgs: list[bytes]) -> tuple[list[bytes], list[bytes]]:
    """Two tasks of the caller write to ONE transport at the same time (pairwise: msgs[0] with msgs[1], ...), as the
    cyclic TesterPresent worker and a scanner do.  Returns (messages in the order their first byte reached the wire,
    wire chunks).  A message is handed over whole: the stream is the concatenation of the encoded messages in some
    order; if it is not, the stream is returned as one chunk and the readers will say what they got."""
    out: list[bytes] = []
    sent: list[bytes] = []

    async def main() -> None:
        lis = streams.Listener()
        with streams.patched_connections(lis):
            tr = await CLS[kind].connect(FAKE_URI[kind])
        wire = lis.wires[0]
        for i in range(0, len(msgs) - 1, 2):
            await asyncio.gather(tr.write(msgs[i], timeout=1.0), tr.write(msgs[i + 1], timeout=1.0))
            sent.extend(msgs[i:i + 2])
        out.append(b"".join(b for _, b in wire.out))
        await tr.close()

    vloop.run(main(), horizon=3600.0)
    stream = out[0]
    contents: list[bytes] = []
    chunks: list[bytes] = []
    rest = stream
    pending = list(sent)
    while rest and pending:
        hit = next((m for m in pending if rest.startswith(ref_encode(m))), None)
        if hit is None:
            break
        pending.remove(hit)
        contents.append(hit)
        chunks.append(ref_encode(hit))
        rest = rest[len(ref_encode(hit)):]
    if rest or pending:
        # not a concatenation of whole messages: hand the readers the stream as it is
        return list(sent), [stream] + [b""] * (len(sent) - 1)
    return contents, chunks


# --------------------------------------------------------------------------
# real sockets (normal event loop, real time)


class SockPort:
    """Peer side of a real socket: write + drain, then wait until the bytes
    reached the reader under test (so that the segmentation is what was asked
    for, as far as the kernel allows)."""

    def __init__(self, writer: asyncio.StreamWriter, arrived: Callable[[], int], eof_seen: Callable[[], bool],
                 gone: Callable[[], bool] = lambda: False) -> None:
        self.w = writer
        self.sent = 0
        self.arrived = arrived
        self.eof_seen = eof_seen
        self.gone = gone  # the reader under test has given up the connection: nothing more can arrive

    async def _until(self, cond: Callable[[], bool], what: str) -> None:
        for _ in range(10000):
            if cond() or self.gone():
                return
            await asyncio.sleep(0.002)
        raise Machinery(f"real socket: {what} did not happen within 20 s")

    async def feed(self, data: bytes) -> None:
        if self.gone():
            return
        try:
            self.w.write(data)
            await self.w.drain()
        except ConnectionError:
            return
        self.sent += len(data)
        await self._until(lambda: self.arrived() >= self.sent, "arrival of a segment")

    async def settle(self) -> None:
        for _ in range(6):
            await asyncio.sleep(0)

    async def eof(self) -> None:
        try:
            if self.w.can_write_eof():
                self.w.write_eof()
            else:
                self.w.close()
        except (ConnectionError, OSError):
            return
        await self._until(self.eof_seen, "end-of-stream at the reader")


REAL_SCALE = 0.05  # 1000 ms policy timeout -> 50 ms of real time
REAL_GUARD_S = 20.0  # a real-socket read still pending after this long is recorded as "Hang"
E2E_READ_TO_S = 5.0


async def real_client_run(kind: str, contents: list[bytes], chunks: list[bytes], plan: list[tuple[Any, ...]],
                          policy: list[int], tmpdir: str) -> dict[str, Any]:
    rec = Rec(contents)
    for c, ch in zip(contents, chunks):
        rec.send(c, len(ch))
    stream = b"".join(chunks)
    rec.tmo_event = asyncio.Event()
    loop = asyncio.get_running_loop()
    conn: asyncio.Future[tuple[asyncio.StreamReader, asyncio.StreamWriter]] = loop.create_future()
    done = asyncio.Event()

    async def peer(r: asyncio.StreamReader, w: asyncio.StreamWriter) -> None:
        conn.set_result((r, w))
        await done.wait()
        w.close()

    if kind == "tcp":
        server = await asyncio.start_server(peer, "127.0.0.1", 0)
        uri = f"tcp-lines://127.0.0.1:{server.sockets[0].getsockname()[1]}"
    else:
        path = os.path.join(tmpdir, f"c{len(os.listdir(tmpdir))}.sock")
        server = await asyncio.start_unix_server(peer, path)
        uri = f"unix-lines://{path}"
    try:
        tr = await CLS[kind].connect(uri, timeout=10.0)
        _pr, pw = await asyncio.wait_for(conn, 10.0)
        got = [0]
        eof = [False]

        def on_feed(n: int) -> None:
            got[0] += n
            rec.feed(n)

        def on_eof() -> None:
            eof[0] = True
            rec.close()

        instrument_reader(tr.reader, on_feed=on_feed, on_eof=on_eof)
        port = SockPort(pw, lambda: got[0], lambda: eof[0])
        # Feed/Close events come from the reader's side (the kernel's segmentation)
        ft = asyncio.ensure_future(run_plan(_SilentPort(port), rec, stream, plan, has_timeouts=True,
                                            scale=REAL_SCALE))
        rt = asyncio.ensure_future(client_reader(tr, rec, policy, len(contents) + 50 * (n_waits(plan) + 1) + 4,
                                                 scale=REAL_SCALE))
        try:
            await asyncio.wait_for(rt, REAL_GUARD_S)
        except asyncio.TimeoutError:
            # recorded, not judged here: TLC decides whether a read may still be pending
            rec.note("real-run-guard-expired")
            if rec.reading:
                rec.end("Hang")
        finally:
            ft.cancel()
            await _quiet_close(tr)
    finally:
        done.set()
        server.close()
        await server.wait_closed()
    return {"kind": "real-" + kind, "ev": rec.ev, "rb": rec.rb, "tab": rec.tab, "wire": stream, "notes": rec.notes,
            "replies": [], "outcomes": rec.outcomes()}


class _SilentPort:
    """Adapter: run_plan records Feed/Close through the port; on real sockets the
    reader-side instrumentation records them, so the port must not."""

    def __init__(self, port: SockPort) -> None:
        self.port = port

    async def feed(self, data: bytes) -> None:
        await self.port.feed(data)

    async def settle(self) -> None:
        await self.port.settle()

    async def eof(self) -> None:
        await self.port.eof()


async def real_server_run(kind: str, contents: list[bytes], chunks: list[bytes], plan: list[tuple[Any, ...]],
                          tmpdir: str) -> dict[str, Any]:
    """The real handle_client behind a real listening socket; the peer is a raw
    stream client of the harness.  Returns the request-direction trace and the
    raw reply bytes the peer received."""
    rec = Rec(contents)
    for c, ch in zip(contents, chunks):
        rec.send(c, len(ch))
    stream = b"".join(chunks)
    got = [0]
    eof = [False]
    finished = asyncio.Event()
    rec.read_ahead_ok = True
    srv = RecordingServerTransport(lambda raw: rec.end("Msg", raw))

    async def handler(r: asyncio.StreamReader, w: asyncio.StreamWriter) -> None:
        def on_feed(n: int) -> None:
            got[0] += n
            rec.feed(n)

        def on_eof() -> None:
            eof[0] = True
            rec.close()

        instrument_reader(r, on_begin=lambda: rec.begin(0), on_feed=on_feed, on_eof=on_eof)
        try:
            await srv.handle_client(r, w)
        except ZeroDivisionError:
            rec.note("handle_client:ZeroDivisionError-in-statistics")
        except Exception as e:  # noqa: BLE001
            rec.note("handle_client-raised:" + type(e).__name__)
        finally:
            if not rec.reading:
                rec.begin(0)
            rec.end("Empty")
            w.close()
            finished.set()

    if kind == "tcp":
        server = await asyncio.start_server(handler, "127.0.0.1", 0)
        port_no = server.sockets[0].getsockname()[1]
        pr, pw = await asyncio.wait_for(asyncio.open_connection("127.0.0.1", port_no), 10.0)
    else:
        path = os.path.join(tmpdir, f"s{len(os.listdir(tmpdir))}.sock")
        server = await asyncio.start_unix_server(handler, path)
        pr, pw = await asyncio.wait_for(asyncio.open_unix_connection(path), 10.0)
    raw_replies = bytearray()

    async def drain_replies() -> None:
        while True:
            d = await pr.read(65536)
            if not d:
                return
            raw_replies.extend(d)

    dt = asyncio.ensure_future(drain_replies())
    try:
        port = SockPort(pw, lambda: got[0], lambda: eof[0], gone=finished.is_set)
        await asyncio.wait_for(run_plan(_SilentPort(port), rec, stream, plan, has_timeouts=False, scale=REAL_SCALE),
                               60.0)
        if any(op[0] == "E" for op in plan):
            await asyncio.wait_for(finished.wait(), REAL_GUARD_S)
            await asyncio.wait_for(dt, REAL_GUARD_S)
    except asyncio.TimeoutError:
        rec.note("real-run-guard-expired")
        if rec.reading:
            rec.end("Hang")
    finally:
        dt.cancel()
        pw.close()
        server.close()
        await server.wait_closed()
    return {"kind": "real-server-" + kind, "ev": rec.ev, "rb": rec.rb, "tab": rec.tab, "wire": stream,
            "notes": rec.notes, "replies": [], "raw_replies": bytes(raw_replies), "outcomes": rec.outcomes()}


async def real_end_to_end(kind: str, msgs: list[bytes], mode: str, tmpdir: str, via_run: bool = False
                          ) -> list[dict[str, Any]]:
    """Real client transport <-> real handle_client over a real socket.
    mode 'lockstep': request() per message; 'burst': all writes, then all reads.
    via_run: the listening socket is created by the server transport's own run() (the way `gallia script vecu`
    starts it) instead of by the harness.
    Returns two traces: requests (client write -> server loop) and replies
    (server write -> client read)."""
    up = Rec(msgs)
    down = Rec([echo_reply(m) for m in msgs])
    up.read_ahead_ok = True
    srv = RecordingServerTransport(lambda raw: up.end("Msg", raw))
    finished = asyncio.Event()

    def sender_hook(w: Any, rec: Rec, current: list[bytes]) -> None:
        orig = w.write

        def wr(data: bytes) -> None:
            # every byte put on the stream belongs to the message handed over last
            if rec.open_send is not None:
                rec.ev[rec.open_send]["n"] += len(data)
            else:
                rec.note("bytes-written-outside-a-message")
            orig(data)

        w.write = wr

    cur_reply = [b""]

    async def handler(r: asyncio.StreamReader, w: asyncio.StreamWriter) -> None:
        instrument_reader(r, on_begin=lambda: up.begin(0), on_feed=up.feed, on_eof=up.close)
        sender_hook(w, down, cur_reply)

        def on_respond() -> None:
            cur_reply[0] = echo_reply(srv.server.current_raw)  # type: ignore[attr-defined]
            _hand_over(down, cur_reply[0])

        srv.server.on_respond = on_respond  # type: ignore[attr-defined]
        try:
            await type(srv).handle_client(srv, r, w)
        except ZeroDivisionError:
            up.note("handle_client:ZeroDivisionError-in-statistics")
        except Exception as e:  # noqa: BLE001
            up.note("handle_client-raised:" + type(e).__name__)
        finally:
            if not up.reading:
                up.begin(0)
            up.end("Empty")
            w.close()
            finished.set()

    run_task: asyncio.Task[None] | None = None
    server: Any = None
    if via_run:
        import socket as _socket

        from gallia.services.uds.server import UnixUDSServerTransport

        srv.handle_client = handler  # type: ignore[method-assign]  # run() hands self.handle_client to asyncio
        if kind == "tcp":
            with _socket.socket() as probe:
                probe.bind(("127.0.0.1", 0))
                port_no = probe.getsockname()[1]
            uri = f"tcp-lines://127.0.0.1:{port_no}"
            srv.target = TargetURI(uri)
            run_task = asyncio.ensure_future(TCPUDSServerTransport.run(srv))
        else:
            path = os.path.join(tmpdir, f"e{len(os.listdir(tmpdir))}.sock")
            uri = f"unix-lines://{path}"
            srv.target = TargetURI(uri)
            run_task = asyncio.ensure_future(UnixUDSServerTransport.run(srv))  # type: ignore[arg-type]
    elif kind == "tcp":
        server = await asyncio.start_server(handler, "127.0.0.1", 0)
        uri = f"tcp-lines://127.0.0.1:{server.sockets[0].getsockname()[1]}"
    else:
        path = os.path.join(tmpdir, f"e{len(os.listdir(tmpdir))}.sock")
        server = await asyncio.start_unix_server(handler, path)
        uri = f"unix-lines://{path}"
    try:
        tr = None
        for _ in range(200):  # run() needs a moment to listen
            try:
                tr = await CLS[kind].connect(uri, timeout=10.0)
                break
            except (ConnectionRefusedError, FileNotFoundError):
                if not via_run:
                    raise
                await asyncio.sleep(0.05)
        if tr is None:
            raise Machinery("real end-to-end: the server transport's run() never listened")
        instrument_reader(tr.reader, on_feed=down.feed, on_eof=down.close)
        cur_req = [b""]
        sender_hook(tr.writer, up, cur_req)

        async def read_one() -> bool:
            down.begin(int(E2E_READ_TO_S * 1000))
            try:
                data = await tr.read(timeout=E2E_READ_TO_S)
            except asyncio.TimeoutError:
                down.end("Timeout")
                return False
            except Exception as e:  # noqa: BLE001
                down.note("error:" + type(e).__name__)
                down.end("Error")
                return False
            down.end("Msg" if data else "Empty", data)
            return bool(data)

        async def write_one(m: bytes) -> None:
            cur_req[0] = m
            _hand_over(up, m)
            await tr.write(m, timeout=E2E_READ_TO_S)

        good = True  # the exchange stops at the first read that does not return a message
        if mode == "lockstep":
            for m in msgs:
                await write_one(m)
                good = await read_one()
                if not good:
                    break
        else:
            for m in msgs:
                await write_one(m)
            for _ in msgs:
                good = await read_one()
                if not good:
                    break
        if good and tr.writer.can_write_eof():
            tr.writer.write_eof()
            try:
                await asyncio.wait_for(finished.wait(), REAL_GUARD_S)
                await read_one()  # the server closed: end-of-stream at the client
            except asyncio.TimeoutError:
                up.note("real-run-guard-expired")
                if up.reading:
                    up.end("Hang")
        await _quiet_close(tr)
    except asyncio.TimeoutError:
        up.note("real-run-write-timeout")
    finally:
        if server is not None:
            server.close()
            await server.wait_closed()
        if run_task is not None:
            run_task.cancel()
            try:
                await run_task
            except (asyncio.CancelledError, Exception):  # noqa: BLE001
                pass
    out = []
    for name, rec in (("up", up), ("down", down)):
        out.append({"kind": f"real-e2e-{kind}-{mode}-{name}", "ev": rec.ev, "rb": rec.rb, "tab": rec.tab,
                    "wire": b"", "notes": rec.notes, "replies": [], "outcomes": rec.outcomes()})
    return out


async def real_two_clients(kind: str, msgs_a: list[bytes], msgs_b: list[bytes], tmpdir: str) -> list[dict[str, Any]]:
    """Two client transports connected AT THE SAME TIME to one server transport started through its own run():
    each peer must get exactly the replies to its own requests (the reply direction of each connection is one
    trace).  Requests alternate A, B, A, B ...; the contents of the two clients are disjoint."""
    from gallia.services.uds.server import UnixUDSServerTransport

    downs = {"A": Rec([echo_reply(m) for m in msgs_a]), "B": Rec([echo_reply(m) for m in msgs_b])}
    owner = {bytes(m): "A" for m in msgs_a} | {bytes(m): "B" for m in msgs_b}
    srv = RecordingServerTransport(lambda raw: None)
    order: list[str] = []

    def hook_writer(w: Any, rec: Rec) -> None:
        orig = w.write

        def wr(data: bytes) -> None:
            if rec.open_send is not None:
                rec.ev[rec.open_send]["n"] += len(data)
            else:
                rec.note("bytes-written-outside-a-message")
            orig(data)

        w.write = wr

    def on_respond() -> None:
        who = owner.get(bytes(srv.server.current_raw), "A")  # type: ignore[attr-defined]
        for r in downs.values():
            r.open_send = None
        _hand_over(downs[who], echo_reply(srv.server.current_raw))  # type: ignore[attr-defined]

    srv.server.on_respond = on_respond  # type: ignore[attr-defined]

    async def handler(r: asyncio.StreamReader, w: asyncio.StreamWriter) -> None:
        who = "AB"[len(order)] if len(order) < 2 else "B"
        order.append(who)
        hook_writer(w, downs[who])
        try:
            await type(srv).handle_client(srv, r, w)
        except Exception as e:  # noqa: BLE001
            downs[who].note("handle_client-raised:" + type(e).__name__)
        finally:
            w.close()

    srv.handle_client = handler  # type: ignore[method-assign]
    path = os.path.join(tmpdir, f"t{len(os.listdir(tmpdir))}.sock")
    if kind == "tcp":
        import socket as _socket

        with _socket.socket() as probe:
            probe.bind(("127.0.0.1", 0))
            uri = f"tcp-lines://127.0.0.1:{probe.getsockname()[1]}"
        srv.target = TargetURI(uri)
        run_task = asyncio.ensure_future(TCPUDSServerTransport.run(srv))
    else:
        uri = f"unix-lines://{path}"
        srv.target = TargetURI(uri)
        run_task = asyncio.ensure_future(UnixUDSServerTransport.run(srv))  # type: ignore[arg-type]
    trs: dict[str, Any] = {}
    try:
        for who in ("A", "B"):
            for _ in range(200):
                try:
                    trs[who] = await CLS[kind].connect(uri, timeout=10.0)
                    break
                except (ConnectionRefusedError, FileNotFoundError):
                    await asyncio.sleep(0.05)
            if who not in trs:
                raise Machinery("two clients: the server transport's run() never listened")
            instrument_reader(trs[who].reader, on_feed=downs[who].feed, on_eof=downs[who].close)
            await asyncio.sleep(0.05)  # the server accepts A before B connects

        async def read_one(who: str) -> None:
            rec = downs[who]
            rec.begin(int(E2E_READ_TO_S * 1000))
            try:
                data = await trs[who].read(timeout=E2E_READ_TO_S)
            except asyncio.TimeoutError:
                rec.end("Timeout")
                return
            except Exception as e:  # noqa: BLE001
                rec.note("error:" + type(e).__name__)
                rec.end("Error")
                return
            rec.end("Msg" if data else "Empty", data)

        for ma, mb in zip(msgs_a, msgs_b):
            await trs["A"].write(ma, timeout=E2E_READ_TO_S)
            await trs["B"].write(mb, timeout=E2E_READ_TO_S)
            await read_one("A")
            await read_one("B")
    finally:
        for tr in trs.values():
            await _quiet_close(tr)
        run_task.cancel()
        try:
            await run_task
        except (asyncio.CancelledError, Exception):  # noqa: BLE001
            pass
    return [{"kind": f"real-two-clients-{kind}-{who}", "ev": rec.ev, "rb": rec.rb, "tab": rec.tab, "wire": b"",
             "notes": rec.notes, "replies": [], "outcomes": rec.outcomes()} for who, rec in downs.items()]


async def real_burst_then_close(kind: str, msgs: list[bytes], tmpdir: str) -> list[dict[str, Any]]:
    """The real client transport writes a burst to a peer that reads SLOWLY (small socket buffers, so part of the
    burst is still buffered on the client side) and then closes: every message whose write() returned must still
    reach the peer, in order, before end-of-stream.  The peer is the harness's reference line reader."""
    import binascii
    import socket as _socket

    up = Rec(msgs)
    done = asyncio.Event()

    async def peer(r: asyncio.StreamReader, w: asyncio.StreamWriter) -> None:
        instrument_reader(r, on_feed=up.feed, on_eof=up.close)
        try:
            await asyncio.sleep(0.5)  # the peer is busy while the burst arrives
            while True:
                up.begin(0)
                line = await r.readline()
                if not line:
                    up.end("Empty")
                    break
                if not line.endswith(b"\n"):
                    up.note("line-cut-at-end-of-stream")
                    up.end("Error")
                    continue
                try:
                    up.end("Msg", binascii.unhexlify(line.strip()))
                except binascii.Error:
                    up.note("undecodable-line")
                    up.end("Error")
                await asyncio.sleep(0.0005)
        finally:
            w.close()
            done.set()

    if kind == "tcp":
        sock = _socket.socket()
        sock.setsockopt(_socket.SOL_SOCKET, _socket.SO_RCVBUF, 4096)
        sock.bind(("127.0.0.1", 0))
        server = await asyncio.start_server(peer, sock=sock, limit=2 ** 16)
        uri = f"tcp-lines://127.0.0.1:{sock.getsockname()[1]}"
    else:
        path = os.path.join(tmpdir, f"b{len(os.listdir(tmpdir))}.sock")
        server = await asyncio.start_unix_server(peer, path, limit=2 ** 16)
        uri = f"unix-lines://{path}"
    try:
        tr = await CLS[kind].connect(uri, timeout=10.0)
        try:
            tr.writer.get_extra_info("socket").setsockopt(_socket.SOL_SOCKET, _socket.SO_SNDBUF, 4096)
        except Exception:  # noqa: BLE001
            pass
        orig = tr.writer.write

        def wr(data: bytes) -> None:
            if up.open_send is not None:
                up.ev[up.open_send]["n"] += len(data)
            orig(data)

        tr.writer.write = wr
        for m in msgs:
            _hand_over(up, m)
            await tr.write(m, timeout=30.0)
        up.open_send = None
        up.ev.append(E("SenderClose"))
        await _quiet_close(tr)
        try:
            await asyncio.wait_for(done.wait(), REAL_GUARD_S)
        except asyncio.TimeoutError:
            up.note("real-run-guard-expired")
            if up.reading:
                up.end("Hang")
    finally:
        server.close()
        await server.wait_closed()
    return [{"kind": f"real-burst-close-{kind}", "ev": up.ev, "rb": up.rb, "tab": up.tab, "wire": b"",
             "notes": up.notes, "replies": [], "outcomes": up.outcomes()}]


async def _quiet_close(tr: Any) -> None:
    """close() of the transport under test; a reset by the (already gone) peer is not an observation."""
    try:
        await asyncio.wait_for(tr.close(), 5.0)
    except (ConnectionError, OSError, asyncio.TimeoutError):
        pass


def _hand_over(rec: Rec, content: bytes) -> None:
    """The sender hands `content` to its transport: the bytes written from now on belong to it."""
    rec.open_send = len(rec.ev)
    rec.ev.append(E("Send", c=rec.cid(content), n=0))


def run_real(coro_fn: Callable[[str], Awaitable[Any]]) -> Any:
    """Run on the normal asyncio loop with a private temp dir for unix sockets."""
    import shutil
    import tempfile

    d = tempfile.mkdtemp(prefix="c19-")
    try:
        with contextlib.redirect_stderr(io.StringIO()):  # handle_client prints tracebacks
            return asyncio.run(coro_fn(d))  # type: ignore[arg-type]
    finally:
        shutil.rmtree(d, ignore_errors=True)


# --------------------------------------------------------------------------
# non-message lines of the peer (keep-alives) and connections that stay idle -- virtual time
#
# Two families the plan language above cannot express:
#  * a peer (the environment, not gallia code) that emits blank / whitespace-only lines now and then.  They are no
#    messages; the recorder says so (Noise c=1) and the contract leaves open what a read reports for them.  What it
#    does not leave open is that a read WITH a timeout ends: every timed read runs under a watchdog of
#    OVERDUE_WATCH x its timeout (virtual time, exact) and a read that is still pending then is recorded as
#    ReadEnd "Overdue" with the time it had been pending -- TLC decides whether that is too long.
#  * a connection to the virtual ECU's line server, started through its own run(), that stays open while nothing is
#    requested for a while.  Whatever the server writes while no request is being served belongs to no message
#    (Noise c=0); the client's reads are recorded as they are.

OVERDUE_WATCH = 8  # watchdog of a timed read, in multiples of its timeout (the contract's bound is smaller)


async def _watched(rec: Rec, to_ms: int, coro: Awaitable[bytes]) -> tuple[str, bytes]:
    """Await one read of the code under test (ReadBegin has been recorded) and record how it ends."""
    loop = asyncio.get_running_loop()
    t0 = loop.time()
    task = asyncio.ensure_future(coro)
    try:
        if to_ms:
            await asyncio.wait({task}, timeout=OVERDUE_WATCH * to_ms / 1000.0)
        else:
            await asyncio.wait({task})
        if not task.done():
            rec.end("Overdue", n=int(round((loop.time() - t0) * 1000)))
            return "Overdue", b""
        try:
            data = task.result()
        except asyncio.TimeoutError:
            rec.end("Timeout")
            return "Timeout", b""
        except asyncio.CancelledError:
            raise
        except Exception as e:  # noqa: BLE001  (recorded, judged by TLC)
            rec.note("error:" + type(e).__name__)
            rec.end("Error")
            return "Error", b""
        if data:
            rec.end("Msg", data)
            return "Msg", data
        rec.end("Empty")
        return "Empty", b""
    finally:
        if not task.done():
            task.cancel()
            await asyncio.gather(task, return_exceptions=True)


def run_noise_reader(scn: dict[str, Any]) -> dict[str, Any]:
    """The real tcp-lines / unix-lines transport (real connect(), hand-fed stream, virtual time) against a peer that
    sends `count` non-message lines `noise`, one every `interval` ms, optionally preceded / followed by messages.

      via = "read"   the harness reads with timeout `to` ms (0: none) until end-of-stream / nothing more can come
      via = "uds"    one UDSClient.request() over the transport (timeout `to`, no retry); the peer starts when the
                     request is on the wire.  Every transport.read() the client makes is recorded (instance-level
                     wrapper); what the request returns is C04's subject, not recorded here.
    """
    kind, via, to = scn["kind"], scn["via"], int(scn["to"])
    line = bytes.fromhex(scn["noise"])
    before = [bytes.fromhex(h) for h in scn.get("before", [])]
    after = [bytes.fromhex(h) for h in scn.get("after", [])]
    interval, count = int(scn["interval"]), int(scn["count"])
    rec = Rec(before + after)
    span = interval * count + int(scn.get("after_gap", 0))
    max_reads = len(before) + len(after) + count + (span // to if to else 0) + 8

    async def peer(port: FakePort) -> None:
        for m in before:
            rec.send(m, len(ref_encode(m)))
            await port.feed(ref_encode(m))
            await port.settle()
        for _ in range(count):
            await asyncio.sleep(interval / 1000.0)
            rec.noise(1, len(line))
            await port.feed(line)
        await asyncio.sleep(int(scn.get("after_gap", 0)) / 1000.0)
        for m in after:
            rec.send(m, len(ref_encode(m)))
            await port.feed(ref_encode(m))
            await port.settle()
        if scn.get("eof"):
            await port.eof()
        rec.feeder_done = True

    async def reader(tr: Any) -> None:
        errors = 0
        for _ in range(max_reads):
            rec.begin(to)
            r, _d = await _watched(rec, to, tr.read(timeout=to / 1000.0 if to else None))
            if r == "Overdue" or (r == "Empty" and rec.closed) or (r == "Timeout" and rec.feeder_done and not rec.closed):
                return
            if r == "Error":
                errors += 1
                if errors >= count + 2:
                    return

    async def main() -> None:
        lis = streams.Listener()
        with streams.patched_connections(lis):
            tr = await CLS[kind].connect(FAKE_URI[kind])
        wire = lis.wires[0]
        port = FakePort(wire, rec)
        if via == "read":
            rt = asyncio.ensure_future(reader(tr))
            await streams.settle(2)
            ft = asyncio.ensure_future(peer(port))
            try:
                await rt
            finally:
                ft.cancel()
                await _quiet_close(tr)
            return
        from gallia.services.uds.core.client import UDSClient, UDSRequestConfig
        from gallia.services.uds.core.service import TesterPresentRequest

        on_wire = asyncio.Event()
        wire.on_out = lambda _b: on_wire.set()
        gave_up = [False]
        orig_read = tr.read

        async def recorded_read(timeout: float | None = None, tags: list[str] | None = None) -> bytes:
            t_ms = int(round(timeout * 1000)) if timeout else 0
            rec.begin(t_ms)
            r, data = await _watched(rec, t_ms, orig_read(timeout, tags))
            if r == "Overdue":
                gave_up[0] = True
                raise asyncio.CancelledError()  # the observation is complete: end the request
            if r == "Timeout":
                raise asyncio.TimeoutError()
            if r == "Error":
                raise ConnectionError("recorded: read() raised")
            return data

        tr.read = recorded_read

        async def peer_after_request() -> None:
            await on_wire.wait()
            await peer(port)

        ft = asyncio.ensure_future(peer_after_request())
        client = UDSClient(tr, timeout=to / 1000.0, max_retry=0)
        try:
            await client.request_unsafe(TesterPresentRequest(False), UDSRequestConfig(timeout=to / 1000.0, max_retry=0))
            rec.note("uds-request:returned")
        except asyncio.CancelledError:
            if not gave_up[0]:
                raise
            rec.note("uds-request:given-up-by-the-watchdog")
        except Exception as e:  # noqa: BLE001
            rec.note("uds-request:" + type(e).__name__)
        finally:
            ft.cancel()
            await _quiet_close(tr)

    hang = False
    err = io.StringIO()
    try:
        with contextlib.redirect_stderr(err):
            vloop.run(main(), horizon=3600.0, real_limit=60.0)
    except (vloop.BlockedForever, TimeoutError):
        hang = True
    except vloop.Stuck:
        # the reader kept the loop busy without ever suspending: no virtual time passes, no watchdog can fire
        rec.note("loop-busy-without-suspending")
        hang = True
    if hang:
        if not rec.reading:
            rec.begin(0)
        rec.end("Hang")
    return {"kind": "noise-" + kind, "ev": rec.ev, "rb": rec.rb, "tab": rec.tab, "wire": b"", "notes": rec.notes,
            "replies": [], "outcomes": rec.outcomes()}


class _FakeServer:
    """What asyncio.start_server() / start_unix_server() hand out, without sockets."""

    sockets: tuple[Any, ...] = ()

    def __init__(self, cb: Any, limit: int) -> None:
        self.cb = cb
        self.limit = limit
        self.serving = True
        self._forever: asyncio.Future[None] | None = None

    def close(self) -> None:
        self.serving = False
        if self._forever is not None and not self._forever.done():
            self._forever.cancel()

    def is_serving(self) -> bool:
        return self.serving

    def get_loop(self) -> asyncio.AbstractEventLoop:
        return asyncio.get_running_loop()

    async def start_serving(self) -> None:
        self.serving = True

    async def serve_forever(self) -> None:
        self._forever = asyncio.get_running_loop().create_future()
        await self._forever

    async def wait_closed(self) -> None:
        await asyncio.sleep(0)

    async def __aenter__(self) -> "_FakeServer":
        return self

    async def __aexit__(self, *exc: Any) -> None:
        self.close()
        await self.wait_closed()


class _Duplex:
    """One in-memory connection between a client transport and the server loop: two hand-fed Wires joined back to
    back.  Bytes travel by call_soon (they arrive in a later loop iteration, as through a socket).  The reply
    direction (server writes -> client reads) is recorded in `rec`."""

    def __init__(self, limit: int, rec: Rec) -> None:
        self.rec = rec
        self.c = streams.Wire()
        self.s = streams.Wire()
        self.s.reader = asyncio.StreamReader(limit=limit)
        instrument_reader(self.c.reader, on_eof=rec.close)
        loop = asyncio.get_running_loop()
        self.c.on_out = lambda data: loop.call_soon(self.s.feed, data)
        self.c.on_client_close = lambda: loop.call_soon(self.s.eof)
        self.s.on_out = self._server_wrote
        self.s.on_client_close = lambda: loop.call_soon(self.c.eof)

    def _server_wrote(self, data: bytes) -> None:
        rec = self.rec
        if rec.open_send is not None:
            rec.ev[rec.open_send]["n"] += len(data)  # every byte written while a reply is due belongs to it
        else:
            rec.noise(0, len(data))  # written although no request is being served
        asyncio.get_running_loop().call_soon(self._deliver, data)

    def _deliver(self, data: bytes) -> None:
        if self.c.feed(data):
            self.rec.feed(len(data))


@contextlib.contextmanager
def _in_memory_network(recs: list[Rec], made: list[_Duplex]) -> Any:
    """asyncio.start_server / start_unix_server / open_connection / open_unix_connection of the harness process
    replaced by an in-memory listener (the k-th accepted connection records into recs[k])."""
    servers: list[_FakeServer] = []

    async def start(cb: Any, *a: Any, limit: int = 2 ** 16, **kw: Any) -> _FakeServer:
        srv = _FakeServer(cb, limit)
        servers.append(srv)
        return srv

    async def open_(*a: Any, **kw: Any) -> tuple[asyncio.StreamReader, Any]:
        await asyncio.sleep(0)
        live = [s for s in servers if s.serving]
        if not live or len(made) >= len(recs):
            raise ConnectionRefusedError("fake: connection refused")
        d = _Duplex(live[-1].limit, recs[len(made)])
        made.append(d)
        res = live[-1].cb(d.s.reader, d.s.writer)
        if asyncio.iscoroutine(res):
            asyncio.ensure_future(res)
        return d.c.reader, d.c.writer

    names = ("start_server", "start_unix_server", "open_connection", "open_unix_connection")
    saved = {n: getattr(asyncio, n, None) for n in names}
    for n, f in zip(names, (start, start, open_, open_)):
        if saved[n] is not None:
            setattr(asyncio, n, f)
    try:
        yield
    finally:
        for n, f in saved.items():
            if f is not None:
                setattr(asyncio, n, f)


def run_idle_server(scn: dict[str, Any]) -> list[dict[str, Any]]:
    """Real client transport(s) <-> the real server loop, started through the server transport's OWN run() (serve()
    and whatever it starts included), on an in-memory network under virtual time; the clocks the server module
    reads follow the virtual loop.  scn["plan"]:
       ["R", who, [hex, ...]]  client `who` writes these requests back to back, then reads once per request
       ["P", who, ms]          client `who` reads with a timeout of ms although it has nothing outstanding
       ["I", ms]               nobody does anything for ms (virtual) milliseconds
    One trace per client: the reply direction of its connection."""
    from gallia.services.uds import server as server_mod
    from gallia.services.uds.server import UnixUDSServerTransport

    kind = scn["kind"]
    whos = sorted({st[1] for st in scn["plan"] if st[0] in ("R", "P")})
    reqs = {w: [bytes.fromhex(h) for st in scn["plan"] if st[0] == "R" and st[1] == w for h in st[2]] for w in whos}
    recs = {w: Rec([echo_reply(m) for m in reqs[w]]) for w in whos}
    owner = {bytes(m): w for w in whos for m in reqs[w]}
    made: list[_Duplex] = []
    read_to_ms = 5000

    async def main() -> None:
        loop = asyncio.get_running_loop()
        # the clock the server reads ticks in 2**-20 s (about a microsecond): differences of such values are exact.
        # With the raw float clock, code that sleeps "until the deadline" (sleep(limit - (now - since))) can be asked
        # to sleep for less than the clock can add to its value (25.3 + 10 - 35.3 != 0) and then spins without any
        # virtual time passing -- an artefact of virtual time, a real clock always moves on
        tick = 2.0 ** -20
        server_mod.time = lambda: math.floor(loop.time() / tick) * tick  # type: ignore[assignment]
        srv = RecordingServerTransport(lambda raw: None)
        srv.server.uneven = True  # type: ignore[attr-defined]

        def on_respond() -> None:
            raw = bytes(srv.server.current_raw)  # type: ignore[attr-defined]
            w = owner.get(raw)
            if w is not None:
                _hand_over(recs[w], echo_reply(raw))

        srv.server.on_respond = on_respond  # type: ignore[attr-defined]
        srv.target = TargetURI(FAKE_URI[kind])
        trs: dict[str, Any] = {}
        with _in_memory_network([recs[w] for w in whos], made):
            run_task = asyncio.ensure_future(
                TCPUDSServerTransport.run(srv) if kind == "tcp" else UnixUDSServerTransport.run(srv))  # type: ignore[arg-type]
            await streams.settle(4)
            try:
                for w in whos:
                    trs[w] = await CLS[kind].connect(FAKE_URI[kind])
                    await streams.settle(4)
                for st in scn["plan"]:
                    if st[0] == "I":
                        await asyncio.sleep(st[1] / 1000.0)
                        continue
                    w = st[1]
                    rec, tr = recs[w], trs[w]
                    if st[0] == "P":
                        rec.begin(int(st[2]))
                        await _watched(rec, int(st[2]), tr.read(timeout=st[2] / 1000.0))
                        continue
                    try:
                        for h in st[2]:
                            await tr.write(bytes.fromhex(h), timeout=read_to_ms / 1000.0)
                    except (ConnectionError, OSError, asyncio.TimeoutError) as e:
                        rec.note("write-failed:" + type(e).__name__)
                        break
                    stop = False
                    for _h in st[2]:
                        rec.begin(read_to_ms)
                        r, _d = await _watched(rec, read_to_ms, tr.read(timeout=read_to_ms / 1000.0))
                        stop = stop or r != "Msg"
                    if stop:
                        # a tester would not go on; neither does the scenario.  The server gets the time to finish
                        # what it is doing, so that the recorded size of every reply handed over is the final one
                        await asyncio.sleep(1.0)
                        break
                    await streams.settle(6)
                    # the exchange is over: what the server writes from now on is the reply to nothing
                    rec.open_send = None
            finally:
                for tr in trs.values():
                    await _quiet_close(tr)
                run_task.cancel()
                await asyncio.gather(run_task, return_exceptions=True)

    real_time = server_mod.time
    hang = False
    try:
        with contextlib.redirect_stderr(io.StringIO()):
            vloop.run(main(), horizon=3600.0, real_limit=120.0)  # vloop.Stuck (nothing ever suspends): machinery
    except (vloop.BlockedForever, TimeoutError):
        hang = True
    finally:
        server_mod.time = real_time  # type: ignore[assignment]
    out = []
    for w, rec in recs.items():
        if hang and rec.reading:
            rec.end("Hang")
        out.append({"kind": f"idle-{kind}-{w}", "ev": rec.ev, "rb": rec.rb, "tab": rec.tab, "wire": b"",
                    "notes": rec.notes, "replies": [], "outcomes": rec.outcomes()})
    return out
