"""C01/C02 shared driver code: TLC case export, execution of request cases and
response parses against the real gallia classes, batched TLC validation.

Python only drives and records; every comparison is made by TLC in
spec/Trace_UdsLayoutReq.tla / Trace_UdsLayoutResp.tla.
"""

from __future__ import annotations

import copy
import json
import random
import shutil
import tempfile
from concurrent.futures import ThreadPoolExecutor
from typing import Any

from gallia.services.uds.core import service as S
from gallia.services.uds.core.client import UDSClient

from harness import tlc, vloop
from harness.c01_bind import (
    CLIENT_METHOD,
    concrete_classes,
    ctor_kwargs,
    expose_request,
    expose_response,
    req_kind,
    resp_kind,
)
from harness.common import Machinery
from harness.fakes import ScriptedTransport, ScriptEnv

JENV = {"JAVA_TOOL_OPTIONS": "-Xss256m"}


# ----------------------------------------------------------------------------- TLC: export + model checking
def export_cases(max_groups: int = 3) -> tuple[dict[str, Any], tlc.TlcResult]:
    """TLC enumerates the abstract case space of UdsLayout and writes the concretised cases."""
    d = tempfile.mkdtemp(prefix="c01-")
    try:
        cfg = (tlc.SPEC_DIR / "MC_UdsLayoutExport.cfg").read_text().replace("MaxGroups = 3",
                                                                            f"MaxGroups = {max_groups}")
        res = tlc.run_tlc("MC_UdsLayoutExport", cfg_text=cfg, env={"CASES_OUT": f"{d}/cases.json", **JENV},
                          timeout=900, workers=2)
        if res.violated:
            raise Machinery(f"export run violated {res.violated}")
        data = json.loads(open(f"{d}/cases.json").read())
        n = [p for p in res.prints if isinstance(p, list) and p and p[0] == "EXPORTED"]
        if not n or n[0][1] != len(data["req_cases"]) or n[0][2] != len(data["resp_cases"]):
            raise Machinery("export: case counts printed by TLC and found in the JSON file differ")
        return data, res
    finally:
        shutil.rmtree(d, ignore_errors=True)


NEG_CONTROLS = {  # deviation -> (cfg, invariants one of which must be violated)
    "Dev_S1_CdtcsNoSuppressBit": ("MC_UdsLayout_devS1.cfg", {"Q1_Layout", "Q3_NeverRaw"}),
    "Dev_S2_ClearDddiInverted": ("MC_UdsLayout_devS2.cfg", {"Q1_Constructible", "Q1_Layout", "Q3_NeverRaw"}),
    "Dev_S3_Type6Pack": ("MC_UdsLayout_devS3.cfg", {"Q1_Constructible"}),
    "Dev_S4_ExtDataWidths": ("MC_UdsLayout_devS4.cfg", {"R2_Reencode"}),
    "Dev_S5_WmbaTrailing": ("MC_UdsLayout_devS5.cfg", {"R2_Reencode", "R3_LengthRule"}),
    "Dev_S6_DtcDictCollapse": ("MC_UdsLayout_devS6.cfg", {"R1_Fields", "R2_Reencode"}),
    "Dev_S7_ClearDddiLen3": ("MC_UdsLayout_devS7.cfg", {"R2_Reencode", "R3_LengthRule"}),
}


def model_check(side: str, max_groups: int, devs: list[str], pool: ThreadPoolExecutor, coverage: bool = True) -> Any:
    """Submit the exhaustive design-vs-contract run of one side (MC_UdsLayout_{req,resp}[8].cfg) and its
    negative controls (MC_UdsLayout_devS*.cfg)."""
    futs = {}
    cfg = f"MC_UdsLayout_{side}{'8' if max_groups == 8 else ''}.cfg"
    futs["design"] = pool.submit(tlc.run_tlc, "MC_UdsLayout", cfg, timeout=1800, workers=4, env=JENV,
                                 coverage=coverage)
    for d in devs:
        futs[d] = pool.submit(tlc.run_tlc, "MC_UdsLayout", NEG_CONTROLS[d][0], timeout=600, workers=2, env=JENV)
    return futs


def collect_mc(rep: Any, futs: Any, actions: set[str]) -> None:
    for name, fu in futs.items():
        res = fu.result()
        if name == "design":
            rep.add_tlc(res, f"MC_UdsLayout {rep.property_id} design (all deviations off)")
            if not res.ok:
                rep.violate(f"design/{res.violated}", {"where": "UdsLayout design layer vs contract"},
                            {"cex": res.cex[-4:], "out": res.out[-1500:]})
            never = [a for a in actions if res.coverage.get(a, (0, 0))[0] == 0]
            if res.coverage and never:
                raise Machinery(f"design layer actions never taken (vacuous model): {never}")
            rep.extra["design_actions_taken"] = {a: res.coverage.get(a, (0, 0))[0] for a in sorted(actions)}
        else:
            rep.add_tlc(res, f"MC_UdsLayout {name} (negative control)")
            want = NEG_CONTROLS[name][1]
            if res.violated not in want:
                raise Machinery(f"negative control {name} violated {res.violated!r}, expected one of {sorted(want)}: "
                                f"the contract does not see the deviation")
            rep.extra.setdefault("negative_controls", {})[name] = res.violated


# ----------------------------------------------------------------------------- requests: execute
NOFP = {"ok": False, "kind": "none", "f": {}, "b": []}
NODYN = {"typed": False, "kind": "none", "f": {}, "b": []}
NOWIRE = {"has": False, "ok": False, "b": []}


def request_classes(layout: dict[str, Any]) -> dict[str, type]:
    return concrete_classes(S.UDSRequest, set(layout), req_kind)


def response_classes(layout: dict[str, Any]) -> dict[str, type]:
    return concrete_classes(S.UDSResponse, set(layout), resp_kind)


def assigned_object(cls: type, kind: str, fa: dict[str, Any], fb: dict[str, Any]) -> Any | None:
    """A request object constructed with the parameters `fa` whose public fields are then assigned the values of
    the parameters `fb` (the way a dump loop re-uses one request and advances its address).  None if either
    parameter record is not constructible, if the class does not allow assignment, or if the user-visible fields
    do not all end up with fb's values (then nothing is claimed about the object)."""
    try:
        a = cls(**ctor_kwargs(cls, kind, fa))
        b = cls(**ctor_kwargs(cls, kind, fb))
    except Exception:  # noqa: BLE001
        return None
    names = [n for n in vars(b) if not n.startswith("_")]
    for klass in type(b).__mro__:
        for n, d in vars(klass).items():
            if isinstance(d, property) and d.fset is not None and not n.startswith("_") and n not in names:
                names.append(n)
    try:
        for n in names:
            setattr(a, n, copy.deepcopy(getattr(b, n)))
        # every public field (plain attributes first, then properties with a setter) was assigned fb's value without
        # an error: the object is "a request with the parameters fb"; a setter that stores elsewhere shows up as a
        # layout mismatch
        expose_request(a)
    except Machinery:
        raise
    except Exception:  # noqa: BLE001
        return None
    return a


def parsed_then_assigned(cls: type, kind: str, fa: dict[str, Any], fb: dict[str, Any]) -> Any | None:
    """Like assigned_object(), but the object that gets fb's values was obtained by PARSING the bytes of a request
    with the parameters fa (a replay / fuzzing script that takes a recorded request as template and edits it).
    None under the same conditions as assigned_object()."""
    try:
        a = S.UDSRequest.parse_dynamic(bytes(cls(**ctor_kwargs(cls, kind, fa)).pdu))
        b = cls(**ctor_kwargs(cls, kind, fb))
    except Exception:  # noqa: BLE001
        return None
    if type(a) is not type(b):
        return None
    names = [n for n in vars(b) if not n.startswith("_")]
    for klass in type(b).__mro__:
        for n, d in vars(klass).items():
            if isinstance(d, property) and d.fset is not None and not n.startswith("_") and n not in names:
                names.append(n)
    try:
        for n in names:
            setattr(a, n, copy.deepcopy(getattr(b, n)))
        expose_request(a)
    except Machinery:
        raise
    except Exception:  # noqa: BLE001
        return None
    return a


def exec_request(cls: type, kind: str, f: dict[str, Any], obj: Any = None) -> tuple[dict[str, Any], dict[str, Any]]:
    """Construct (or take the given object), serialise, parse back (class and dynamic).  Returns (trace record, notes)."""
    rec: dict[str, Any] = {"kind": kind, "f": f, "built": {"ok": False}, "pdu": {"ok": False, "b": []},
                           "fp": NOFP, "dyn": NODYN, "wire": NOWIRE}
    notes: dict[str, Any] = {}
    if obj is not None:
        rec["built"] = {"ok": True}
    else:
        kw = ctor_kwargs(cls, kind, f)
        try:
            obj = cls(**kw)
            rec["built"] = {"ok": True}
        except Exception as e:  # noqa: BLE001
            notes["ctor"] = f"{type(e).__name__}: {e}"[:120]
            return rec, notes
    try:
        pdu = obj.pdu
        if not isinstance(pdu, (bytes, bytearray)):
            raise TypeError(f"pdu is {type(pdu).__name__}")
        pdu = bytes(pdu)
        rec["pdu"] = {"ok": True, "b": list(pdu)}
    except Exception as e:  # noqa: BLE001
        notes["pdu"] = f"{type(e).__name__}: {e}"[:120]
        return rec, notes
    try:
        o2 = cls.from_pdu(pdu)
        k2, f2 = expose_request(o2)
        rec["fp"] = {"ok": True, "kind": k2, "f": f2, "b": list(o2.pdu)}
    except Machinery:
        raise
    except Exception as e:  # noqa: BLE001
        notes["from_pdu"] = f"{type(e).__name__}: {e}"[:120]
    try:
        o3 = S.UDSRequest.parse_dynamic(pdu)
        if isinstance(o3, S.RawRequest):
            notes["dyn"] = "RawRequest"
        else:
            k3, f3 = expose_request(o3)
            rec["dyn"] = {"typed": True, "kind": k3, "f": f3, "b": list(o3.pdu)}
    except Machinery:
        raise
    except Exception as e:  # noqa: BLE001
        notes["dyn"] = f"{type(e).__name__}: {e}"[:120]
    return rec, notes


class _WireEnv(ScriptEnv):
    """Peer that answers every request with `7F sid 11` at once and remembers what was written."""

    def __init__(self) -> None:
        super().__init__()
        self.written: list[bytes] = []

    def rec(self, **kw: Any) -> None:  # keep no log: thousands of calls
        return

    def on_write(self, data: bytes) -> str | None:
        self.written.append(bytes(data))
        return None

    def on_read(self, timeout: float | None) -> tuple[str, bytes | None]:
        sid = self.written[-1][0] if self.written and self.written[-1] else 0
        return "NegFinal", bytes([0x7F, sid, 0x11])


def exec_wire(cases: list[tuple[str, dict[str, Any]]]) -> list[dict[str, Any]]:
    """For each (kind, f): the bytes UDSClient.<method>() hands to transport.write (one loop for all)."""
    out: list[dict[str, Any]] = []
    env = _WireEnv()

    async def go() -> None:
        tr = ScriptedTransport(env)
        cl = UDSClient(tr, timeout=1.0, max_retry=0)
        for kind, f in cases:
            if kind not in CLIENT_METHOD:
                out.append(NOWIRE)
                continue
            name, mk = CLIENT_METHOD[kind]
            meth = getattr(cl, name, None)
            if meth is None:
                raise Machinery(f"binding: UDSClient has no method {name}")
            env.written.clear()
            try:
                await meth(**mk(f))
            except Machinery:
                raise
            except Exception:  # noqa: BLE001
                pass
            if len(env.written) == 1:
                out.append({"has": True, "ok": True, "b": list(env.written[0])})
            else:
                out.append({"has": True, "ok": False, "b": []})

    try:
        vloop.run(go(), horizon=10.0 * (len(cases) + 10))
    finally:
        env.dispose()
    return out


def exec_wire_objects(objs: list[Any]) -> list[dict[str, Any]]:
    """The bytes UDSClient.request(obj) hands to transport.write for each given request object."""
    out: list[dict[str, Any]] = []
    env = _WireEnv()

    async def go() -> None:
        tr = ScriptedTransport(env)
        cl = UDSClient(tr, timeout=1.0, max_retry=0)
        for o in objs:
            env.written.clear()
            try:
                await cl.request(o)
            except Machinery:
                raise
            except Exception:  # noqa: BLE001
                pass
            if len(env.written) == 1:
                out.append({"has": True, "ok": True, "b": list(env.written[0])})
            else:
                out.append({"has": True, "ok": False, "b": []})

    try:
        vloop.run(go(), horizon=10.0 * (len(objs) + 10))
    finally:
        env.dispose()
    return out


# ----------------------------------------------------------------------------- responses: execute
def exec_response(b: bytes, cls: type | None, valid: bool = False) -> tuple[dict[str, Any], str]:
    """parse_dynamic(b) (cls None) or cls.from_pdu(b): verdict class, exposed fields, re-serialisation."""
    rec: dict[str, Any] = {"b": list(b), "v": "reject", "dyn": cls is None, "kind": "none", "f": {},
                           "re": {"ok": False, "b": []}, "valid": valid}
    note = ""
    try:
        o = S.UDSResponse.parse_dynamic(b) if cls is None else cls.from_pdu(b)
    except Exception as e:  # noqa: BLE001
        return rec, f"{type(e).__name__}: {e}"[:100]
    if isinstance(o, S.RawResponse):
        rec["v"] = "raw"
    else:
        rec["v"] = "typed"
        rec["kind"], rec["f"] = expose_response(o)
    try:
        re_ = o.pdu
        if not isinstance(re_, (bytes, bytearray)):
            raise TypeError("pdu is not bytes")
        rec["re"] = {"ok": True, "b": list(re_)}
    except Exception as e:  # noqa: BLE001
        note = f"pdu raises {type(e).__name__}: {e}"[:100]
    return rec, note


# ----------------------------------------------------------------------------- TLC: batch validation
def _chunks(n: int, size: int) -> list[tuple[int, int]]:
    return [(i, min(n, i + size)) for i in range(0, n, size)]


def validate(module: str, traces: list[dict[str, Any]], sweeps: list[dict[str, Any]] | None = None,
             chunk: int = 4000, jobs: int = 6, workers: int = 2,
             sweep_chunk: int = 20000) -> tuple[dict[int, list[Any]], list[Any], list[Any]]:
    """Validate traces with TLC in parallel JVMs.  Trace ids are positions in `traces`; the records of
    sweep k (`sweeps[k]["records"]`, pointed to by its 1-based `codes`) get the ids following them, in
    order (`sweeps[k]["first_id"]` is set).  Returns ({id: [verdict, extra...]}, sweep lines, TlcResults)."""
    batches: list[dict[str, Any]] = []
    for lo, hi in _chunks(len(traces), chunk):
        sub = []
        for i in range(lo, hi):
            t = dict(traces[i])
            t["id"] = i
            sub.append(t)
        batches.append({"traces": sub, "sweeps": []})
    nxt = len(traces)
    cur: dict[str, Any] = {"traces": [], "sweeps": []}
    for sw in sweeps or []:
        # small sweeps share a batch; codes are rebased onto the batch's trace list
        if cur["sweeps"] and len(cur["traces"]) + len(sw["records"]) + len(sw["codes"]) // 8 > sweep_chunk:
            batches.append(cur)
            cur = {"traces": [], "sweeps": []}
        base = len(cur["traces"])
        sw["first_id"] = nxt
        for r in sw["records"]:
            t = dict(r)
            t["id"] = nxt
            nxt += 1
            cur["traces"].append(t)
        cur["sweeps"].append({"sid": sw["sid"], "len": sw["len"], "codes": [c + base if c else 0 for c in sw["codes"]]})
    if cur["sweeps"]:
        batches.append(cur)
    verdicts: dict[int, list[Any]] = {}
    sweep_lines: list[Any] = []
    results: list[Any] = []

    def one(batch: dict[str, Any]) -> Any:
        return tlc.validate_batch(module, f"{module}.cfg", batch, timeout=3000, env=JENV, workers=workers, heap="4g")

    with ThreadPoolExecutor(max_workers=jobs) as ex:
        for batch, res in zip(batches, ex.map(one, batches)):
            results.append(res)
            if res.violated:
                raise Machinery(f"{module}: TLC reported {res.violated} on a trace batch:\n{res.out[-1500:]}")
            got = 0
            for p in res.prints:
                if isinstance(p, list) and p and p[0] == "V":
                    verdicts[p[1]] = p[2:]
                    got += 1
                elif isinstance(p, list) and p and p[0] == "S":
                    sweep_lines.append(p)
            if got != len(batch["traces"]):
                raise Machinery(f"{module}: {len(batch['traces'])} traces in a batch but {got} verdict lines:\n"
                                + res.out[-1500:])
    return verdicts, sweep_lines, results


# ----------------------------------------------------------------------------- random families (inputs only)
def rand_big(rnd: random.Random, width: int) -> dict[str, Any]:
    if width == 0:
        return {"neg": False, "b": []}
    b = [rnd.randint(1, 255)] + [rnd.randint(0, 255) for _ in range(width - 1)]
    return {"neg": False, "b": b}


def rand_bytes(rnd: random.Random, long_ok: bool) -> list[int]:
    r = rnd.random()
    n = 0 if r < 0.1 else rnd.randint(1, 12) if r < 0.95 or not long_ok else rnd.choice([255, 256, 4093, 4095])
    return [rnd.randint(0, 255) for _ in range(n)]


def rand_request_fields(rnd: random.Random, kind: str, layout: list[dict[str, Any]], variants: dict[str, Any],
                        max_groups: int) -> dict[str, Any]:
    """Random parameters for one request kind, driven by the exported layout table; mostly inside the
    documented ranges, sometimes just outside (TLC classifies)."""
    f: dict[str, Any] = {}
    out_p = 0.08

    def rint(w_pow: int) -> int:
        r = rnd.random()
        if r < out_p:
            return rnd.choice([-1, w_pow, w_pow + rnd.randint(1, 300), -rnd.randint(2, 300)])
        if r < 0.3:
            return rnd.choice([0, 1, w_pow - 1, w_pow - 2])
        return rnd.randint(0, w_pow - 1)

    for d in layout:
        t = d["t"]
        if t == "sf":
            f["sup"] = rnd.random() < 0.5
            if d["fix"] < 0:
                f[d["n"]] = rint(128)
        elif t == "u":
            f[d["n"]] = rint(256 ** d["w"])
        elif t == "nib":
            f[d["hi"]] = rint(16)
            f[d["lo"]] = rint(16)
        elif t == "mem":
            cnt = rnd.randint(0 if rnd.random() < 0.05 else 1, max_groups) if d["multi"] else 1
            auto = rnd.random() < 0.5
            aw, sw = rnd.randint(1, 15), rnd.randint(1, 15)
            f["alfid_auto"] = auto
            f["alfid"] = 0 if auto else sw * 16 + aw
            if not auto and rnd.random() < 0.05:
                f["alfid"] = rnd.choice([0, aw, sw * 16, 256, -1, 300])

            def val(w: int) -> dict[str, Any]:
                r = rnd.random()
                if r < 0.04:
                    return {"neg": True, "b": [rnd.randint(1, 255)]}
                if r < 0.10:
                    return rand_big(rnd, min(16, w + 1))
                return rand_big(rnd, rnd.randint(0, w))

            f["addrs"] = [val(aw) for _ in range(cnt)]
            f["sizes"] = [val(sw) for _ in range(cnt)]
            if kind == "WriteMemoryByAddress":
                f["size_auto"] = rnd.random() < 0.5
        elif t == "rest":
            f[d["n"]] = rand_bytes(rnd, True)
        elif t == "rest2":
            if kind in variants:
                v = variants[kind]
                f[d["n1"]] = [v["iocp"]] + (rand_bytes(rnd, True) if v["more"] else [])
            else:
                f[d["n1"]] = rand_bytes(rnd, True)
            f[d["n2"]] = rand_bytes(rnd, False)
        elif t == "grp":
            cnt = rnd.randint(0 if rnd.random() < 0.05 else 1, max_groups)
            for n, w in zip(d["ns"], d["ws"]):
                f[n] = [rint(256 ** w) for _ in range(cnt)]
        elif t == "optu":
            f[d["flag"]] = rnd.random() < 0.6
            f[d["n"]] = rint(256 ** d["w"]) if f[d["flag"]] else 0
    return f


def mutants(b: bytes, fmt_positions: tuple[int, ...] = (1, 2, 4)) -> list[bytes]:
    """Neighbours of a valid response: every truncation, one-byte extensions, single bit flips in the
    first 8 bytes."""
    out: list[bytes] = []
    for n in range(1, len(b)):
        out.append(b[:n])
    out.append(b + b"\x00")
    out.append(b + b"\x55")
    out.append(b + b"\xff\xff")
    for i in range(min(8, len(b))):
        for bit in range(8):
            m = bytearray(b)
            m[i] ^= 1 << bit
            out.append(bytes(m))
    return out
