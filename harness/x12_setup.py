"""X12 part 2 — the UDS scanner set-up / tear-down (gallia.command.uds.UDSScanner.setup / teardown) in the loop.

Full in-memory tcp-lines stack of harness/c10_stack.py (imported, not modified): a trivial UDSScanner subclass defined
here is run through the real `AsyncScript.run()` (setup -> main -> teardown) between the real `_db_insert_run_meta()`
and `_db_finish_run_meta()`; `load_transport`, `TCPLinesTransport`, `ECU`/`UDSClient`, the cyclic tester-present task,
`DBHandler` with its SQL and the real virtual-ECU server loop (`TCPUDSServerTransport.handle_client`) are gallia code.

Stand-ins of the harness process (each one named in the evidence file):
  * asyncio.open_connection             -> in-memory wires (harness.streams)
  * gallia.command.uds.load_ecu         -> PropECU, an ECU subclass whose properties() reads DID 0xF190 from the ECU
                                           (the default ECU class has no properties at all: nothing could be compared)
  * aiosqlite.connect (in gallia.db.handler) -> a synchronous sqlite3 connection with the same coroutine surface
                                           (a worker thread does not mix with virtual time); it can be told to fail
                                           the statements that write the scan run / properties_pre / properties_post
  * the ECU is PropServer, a scripted UDSServer subclass that records every request with its virtual time.

A case is plain JSON:
  {"ping", "tp", "interval" (s), "props", "compare", "reset": level|None, "db": bool, "art": bool,
   "ecu": {"reset": "ok"|"neg_then_ok"|"neg", "tp_silent": k, "dsc": "ok"|"neg"},
   "main": {"ms": int, "write": bool, "fail": bool, "reqs": int}, "db_fail": None|"scan_run"|"pre"|"post"}
Nothing here judges the property: the module records events and lays them out for spec/Trace_UdsScannerSetup.tla.
"""

from __future__ import annotations

import asyncio
import json
import logging
import os
import shutil
import sqlite3
import tempfile
from dataclasses import dataclass
from pathlib import Path
from typing import Any

from harness import vloop
from harness.c10_stack import TARGET, cache_entry_points, serving
from harness.vloop import now_ms

DID = 0xF190


# ------------------------------------------------------------------ the ECU
class _Raw:
    def __init__(self, pdu: bytes) -> None:
        self.pdu = pdu


def prop_value(i: int) -> bytes:
    return b"VIN-%04d" % i


def make_server(model: dict[str, Any], box: dict[str, Any]) -> Any:
    from gallia.services.uds.server import UDSServer

    class PropServer(UDSServer):
        def __init__(self) -> None:
            super().__init__()
            self.m = model
            self.log: list[dict[str, Any]] = []
            self.prop = 1
            self.tp_silent = int(model.get("tp_silent", 0))
            self.dsc_seen = False
            self.mutant: str | None = None

        @property
        def supported_services(self) -> Any:
            return {1: {}}

        async def respond_after_default(self, request: Any) -> Any:
            return None

        async def respond(self, request: Any) -> Any:
            pdu = bytes(request.pdu)
            sid = pdu[0]
            k, res, v, lvl, raw = "other", "neg", -1, -1, bytes([0x7F, sid, 0x11])
            if sid == 0x3E and len(pdu) == 2:
                k = "tp"
                if self.tp_silent > 0:
                    self.tp_silent -= 1
                    res, raw = "none", None
                elif pdu[1] & 0x80:
                    res, raw = "none", None
                else:
                    res, raw = "pos", b"\x7e\x00"
            elif sid == 0x11 and len(pdu) == 2:
                k, lvl = "reset", pdu[1] & 0x7F
                beh = self.m.get("reset", "ok")
                if beh == "ok" or (beh == "neg_then_ok" and self.dsc_seen):
                    res, raw = "pos", bytes([0x51, pdu[1] & 0x7F])
                    self.dsc_seen = False
                elif beh == "neg_then_ok":
                    res, raw = "neg", b"\x7f\x11\x7f"
                else:
                    res, raw = "neg", b"\x7f\x11\x22"
            elif sid == 0x10 and len(pdu) == 2:
                k, lvl = "dsc", pdu[1] & 0x7F
                if self.m.get("dsc", "ok") == "ok":
                    res, raw = "pos", bytes([0x50, pdu[1] & 0x7F, 0x00, 0x32, 0x01, 0xF4])
                    self.dsc_seen = True
                else:
                    res, raw = "neg", b"\x7f\x10\x22"
            elif pdu[:3] == bytes([0x22, DID >> 8, DID & 0xFF]) and len(pdu) == 3:
                k, res, v = "prop", "pos", self.prop
                raw = bytes([0x62, DID >> 8, DID & 0xFF]) + prop_value(self.prop)
            elif pdu[:3] == bytes([0x2E, DID >> 8, DID & 0xFF]):
                k, res = "write", "pos"
                self.prop += 1
                v = self.prop
                raw = bytes([0x6E, DID >> 8, DID & 0xFF])
            if self.m.get("dead_after_main") and box["phase"] in ("teardown", "after"):
                res, raw = "none", None     # the ECU no longer answers once main() is over (outside the statement)
            if self.mutant == "logs-other-prop-value" and k == "prop":
                v += 7                      # mutant of the fake: the ground truth it records is not what it sent
            self.log.append({"t": now_ms(), "ph": box["phase"], "k": k, "res": res, "v": v, "lvl": lvl})
            return None if raw is None else _Raw(raw)

    return PropServer()


# ------------------------------------------------------------------ synchronous stand-in for aiosqlite
class _Cursor:
    def __init__(self, cur: sqlite3.Cursor) -> None:
        self._c = cur
        self.lastrowid = cur.lastrowid

    async def fetchone(self) -> Any:
        return self._c.fetchone()

    async def fetchall(self) -> Any:
        return self._c.fetchall()


FAULT_SQL = {"scan_run": "INSERT INTO scan_run", "pre": "SET properties_pre", "post": "SET properties_post"}


class SyncConn:
    def __init__(self, path: Any, fault: str | None, box: dict[str, Any]) -> None:
        self.con = sqlite3.connect(str(path))
        self.con.execute("PRAGMA synchronous = OFF")   # no fsync per commit: durability is not what is observed here
        self.fault = fault
        self.box = box

    async def execute(self, sql: str, params: Any = ()) -> _Cursor:
        await asyncio.sleep(0)
        if self.fault is not None and FAULT_SQL[self.fault] in sql:
            self.box["faults_fired"] = self.box.get("faults_fired", 0) + 1
            raise sqlite3.OperationalError("fake: database is locked")
        return _Cursor(self.con.execute(sql, params))

    async def executescript(self, script: str) -> None:
        await asyncio.sleep(0)
        self.con.executescript(script)

    async def commit(self) -> None:
        await asyncio.sleep(0)
        self.con.commit()

    async def close(self) -> None:
        await asyncio.sleep(0)
        self.con.close()


# ------------------------------------------------------------------ logging
class _Capture(logging.Handler):
    def __init__(self) -> None:
        super().__init__(level=logging.WARNING)
        self.box: dict[str, Any] | None = None

    def emit(self, record: logging.LogRecord) -> None:
        if self.box is None:
            return
        try:
            msg = record.getMessage()
        except Exception:  # noqa: BLE001
            msg = "?"
        self.box["warn"].append({"ph": self.box["phase"], "lvl": record.levelno, "name": record.name, "msg": msg[:120]})


_CAP = _Capture()
_installed = False


def install_capture() -> None:
    """Warnings of gallia are observations here (the comparison of the properties only shows as a warning): they go to
    the capture handler, nothing is printed."""
    global _installed
    logging.disable(logging.INFO)
    if _installed:
        return
    _installed = True
    cache_entry_points()
    logging.getLogger().addHandler(logging.NullHandler())
    lg = logging.getLogger("gallia")
    lg.propagate = False
    lg.setLevel(logging.WARNING)
    lg.addHandler(_CAP)


# ------------------------------------------------------------------ one run
def run_case(case: dict[str, Any], mutant: str | None = None) -> dict[str, Any]:
    import gallia.command  # noqa: F401
    import gallia.command.uds as uds_mod
    import gallia.db.handler as dbh
    import gallia.services.uds.server as server_mod
    from gallia.command.uds import UDSScanner, UDSScannerConfig
    from gallia.services.uds.core.service import NegativeResponse
    from gallia.services.uds.ecu import ECU, ECUProperties

    install_capture()
    shm = "/dev/shm" if os.access("/dev/shm", os.W_OK) else None     # memory-backed scratch directory if there is one
    tmp = Path(tempfile.mkdtemp(prefix="x12s-", dir=shm))
    box: dict[str, Any] = {"phase": "setup", "warn": [], "marks": []}
    _CAP.box = box
    plan = case["main"]
    interval = float(case["interval"])

    @dataclass
    class Props(ECUProperties):
        vin: str

    class PropECU(ECU):
        async def properties(self, fresh: bool = False, config: Any = None) -> ECUProperties:
            resp = await self.read_data_by_identifier(DID, config=config)
            if isinstance(resp, NegativeResponse):
                return Props(vin="")
            return Props(vin=bytes(resp.data_record).decode("ascii", "replace"))

    def mark(e: str, **kw: Any) -> None:
        box["marks"].append({"e": e, "t": now_ms(), **kw})

    class TrivialScanner(UDSScanner):
        async def main(self) -> None:
            box["phase"] = "main"
            mark("MainStart")
            out = "ok"
            try:
                for _ in range(int(plan.get("reqs", 0))):
                    await self.ecu.read_data_by_identifier(0x1234)
                if plan.get("write"):
                    await self.ecu.write_data_by_identifier(DID, b"\x01")
                await asyncio.sleep(int(plan["ms"]) / 1000.0)
                if plan.get("fail"):
                    out = "raise"
                    raise RuntimeError("scripted: main failed")
            except asyncio.CancelledError:
                out = "cancel"
                raise
            except Exception:
                out = "raise"
                raise
            finally:
                mark("MainEnd", out=out)
                box["phase"] = "teardown"

    server = make_server(case.get("ecu", {}), box)
    server.mutant = mutant
    out: dict[str, Any] = {"run": "hang", "exc": ""}
    dbpath = tmp / "scan.sqlite" if case["db"] else None
    art = tmp / "art" if case["art"] else None

    async def go() -> None:
        kw: dict[str, Any] = dict(target=TARGET, dumpcap=False, hooks=False, ping=bool(case["ping"]),
                                  tester_present=bool(case["tp"]), tester_present_interval=interval,
                                  properties=bool(case["props"]), compare_properties=bool(case["compare"]))
        if case.get("reset") is not None:
            kw["ecu_reset"] = int(case["reset"])
        if dbpath is not None:
            kw["db"] = dbpath
        sc = TrivialScanner(UDSScannerConfig(**kw))
        if art is not None:
            art.mkdir()
            sc.artifacts_dir = art
        with serving(server) as lst:
            before = set(asyncio.all_tasks())
            try:
                try:
                    await sc._db_insert_run_meta()
                    await sc.run()
                    out["run"] = "ok"
                finally:
                    await sc._db_finish_run_meta()
            except SystemExit as e:
                out["run"], out["exc"] = "exc", f"SystemExit({e.code})"
            except asyncio.CancelledError:
                t = asyncio.current_task()
                if t is not None and t.cancelling() > 0:
                    raise
                out["run"], out["exc"] = "exc", "CancelledError()"
            except RuntimeError as e:
                out["run"] = "main-exc" if "scripted: main failed" in str(e) else "exc"
                out["exc"] = repr(e)[:200]
            except BaseException as e:  # noqa: BLE001
                out["run"], out["exc"] = "exc", repr(e)[:200]
            box["phase"] = "after"
            mark("RunEnd")
            await asyncio.sleep(3 * interval + 1.0)
            out["open"] = sum(1 for w in lst.wires if w.client_closed_at is None)
            # background tasks the run created and left pending (the ECU's own connection handlers are not the run's)
            out["leaked"] = sum(1 for t in asyncio.all_tasks() - before
                                if not t.done() and getattr(t.get_coro(), "__name__", "") != "handle_client")
            out["conns"] = len(lst.wires)
            # stop what a faulty teardown may have left behind, so that the loop can end
            tp = getattr(getattr(sc, "ecu", None), "tester_present_task", None)
            if tp is not None and not tp.done():
                out["tp_left_running"] = True
                tp.cancel()

    orig = (uds_mod.load_ecu, dbh.aiosqlite.connect, server_mod.time)

    async def fake_connect(path: Any, *a: Any, **k: Any) -> SyncConn:
        return SyncConn(path, case.get("db_fail"), box)

    uds_mod.load_ecu = lambda oem: PropECU  # type: ignore[assignment]
    dbh.aiosqlite.connect = fake_connect  # type: ignore[assignment]
    server_mod.time = lambda: asyncio.get_event_loop().time()  # type: ignore[assignment]
    try:
        try:
            vloop.run(go(), horizon=3600.0)
        except (TimeoutError, vloop.BlockedForever):
            out["run"] = "hang"
        dbrow: dict[str, Any] = {"has": False, "rows": 0, "pre": "", "post": "", "preNull": True, "postNull": True}
        if dbpath is not None and dbpath.exists():
            con = sqlite3.connect(str(dbpath))
            try:
                rows = con.execute("SELECT properties_pre, properties_post FROM scan_run ORDER BY id").fetchall()
            finally:
                con.close()
            dbrow["rows"] = len(rows)
            if rows:
                pre, post = rows[-1]
                dbrow.update(has=True, preNull=pre is None, postNull=post is None,
                             pre=_vin(pre), post=_vin(post))
        files = {"pre": "", "post": "", "hasPre": False, "hasPost": False}
        if art is not None:
            for key, fn in (("pre", "PROPERTIES_PRE.json"), ("post", "PROPERTIES_POST.json")):
                p = art / fn
                if p.exists():
                    files["has" + key.capitalize()] = True
                    files[key] = _vin(p.read_text())
        return {"case": case, "log": server.log, "marks": box["marks"], "warn": box["warn"], "run": out["run"],
                "exc": out["exc"], "open": out.get("open", -1), "conns": out.get("conns", -1), "db": dbrow,
                "files": files, "faults_fired": box.get("faults_fired", 0), "leaked": out.get("leaked", -1),
                "tp_left_running": bool(out.get("tp_left_running", False))}
    finally:
        uds_mod.load_ecu, dbh.aiosqlite.connect, server_mod.time = orig  # type: ignore[assignment]
        _CAP.box = None
        shutil.rmtree(tmp, ignore_errors=True)


def _vin(text: Any) -> str:
    if text is None:
        return ""
    try:
        return str(json.loads(text).get("vin", ""))
    except Exception:  # noqa: BLE001
        return "?"


def to_trace(r: dict[str, Any]) -> dict[str, Any]:
    """Lay one run out as the observation of UdsScannerSetupContract (structural only, no judgement)."""
    c = r["case"]
    marks = {m["e"]: m for m in r["marks"]}
    ms = marks.get("MainStart", {"t": -1})["t"]
    me = marks.get("MainEnd", {"t": -1, "out": "none"})
    re_ = marks.get("RunEnd", {"t": -1})["t"]
    nmain = sum(1 for m in r["marks"] if m["e"] == "MainStart")

    def vin_idx(s: str) -> int:
        if s.startswith("VIN-"):
            try:
                return int(s[4:])
            except ValueError:
                return -2
        return -1 if s == "" else -2

    return {
        "cfg": {"ping": bool(c["ping"]), "tp": bool(c["tp"]), "interval": int(round(float(c["interval"]) * 1000)),
                "props": bool(c["props"]), "compare": bool(c["compare"]),
                "reset": -1 if c.get("reset") is None else int(c["reset"]), "db": bool(c["db"]), "art": bool(c["art"]),
                "dbFault": c.get("db_fail") or "none", "dscRefused": c.get("ecu", {}).get("dsc", "ok") != "ok"},
        "reqs": [{"t": e["t"], "ph": e["ph"], "k": e["k"], "res": e["res"], "v": e["v"], "lvl": e["lvl"]} for e in r["log"]],
        "nmain": nmain, "mainStart": ms, "mainEnd": me["t"], "mainOut": me.get("out", "none"),
        "runEnd": re_, "runOut": r["run"], "open": r["open"], "leaked": r["leaked"],
        "db": {"has": r["db"]["has"], "rows": r["db"]["rows"], "pre": -1 if r["db"]["preNull"] else vin_idx(r["db"]["pre"]),
               "post": -1 if r["db"]["postNull"] else vin_idx(r["db"]["post"])},
        "files": {"pre": vin_idx(r["files"]["pre"]) if r["files"]["hasPre"] else -1,
                  "post": vin_idx(r["files"]["post"]) if r["files"]["hasPost"] else -1},
        "warnTeardown": sum(1 for w in r["warn"] if w["ph"] == "teardown" and w["lvl"] >= logging.WARNING),
    }
