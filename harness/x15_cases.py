"""X15: case families (see props/x15.py for what is exhaustive and what is sampled)."""

from __future__ import annotations

import hashlib
import itertools
import json
import random
from typing import Any

URI = "tcp://192.0.2.5:5025?product_id=hmc804"
TGT = "tcp-lines://127.0.0.1:20162"

INIT_A = {"master": 0, "out": [0, 1, 0], "volt": [5_000_000, 12_000_000, 3_300_000], "curr": [100_000, 200_000, 300_000], "sel": 3}
INIT_B = {"master": 1, "out": [1, 0, 1], "volt": [1_500_000, 24_000_000, 9_000_000], "curr": [1_000_000, 50_000, 2_500_000], "sel": 1}
INIT_ON = {"master": 1, "out": [1, 1, 1], "volt": [5_000_000, 12_000_000, 3_300_000], "curr": [100_000, 200_000, 300_000], "sel": 2}
ENVS = [
    {"init": INIT_A},
    {"init": INIT_B, "lat": 5, "proc": 20, "fmt": "e", "eol": "\r\n"},
    {"init": INIT_A, "lat": 40, "proc": 0, "fmt": "plus"},
    {"init": INIT_B, "lat": 0, "proc": 150, "fmt": "f4"},
]


# asyncio.wait_for() of Python 3.11 runs writer.drain() in a task of its own: the caller yields to the loop between two
# writes (so does a transport whose send buffer is full): harness.streams.FakeWriter.drain() models that
ENV_Y = {"init": INIT_A, "yield_drain": True}


def digest(case: dict[str, Any]) -> str:
    c = {k: v for k, v in case.items() if k != "origin"}
    return hashlib.sha1(json.dumps(c, sort_keys=True).encode()).hexdigest()[:16]


def G(attr: str, ch: int = 0) -> dict[str, Any]:
    return {"op": "get", "attr": attr, "ch": ch}


def S(attr: str, ch: int, v: int) -> dict[str, Any]:
    return {"op": "set", "attr": attr, "ch": ch, "v": v}


GETTERS = [G("master")] + [G(a, c) for a in ("out", "volt", "curr") for c in (1, 2, 3)]
SETTERS = ([S("master", 0, b) for b in (0, 1)] + [S("out", c, b) for c in (1, 2, 3) for b in (0, 1)]
           + [S("volt", c, v) for c in (1, 2, 3) for v in (0, 1_500_000, 12_345_000, 32_000_000)]
           + [S("curr", c, v) for c in (1, 2, 3) for v in (1_000, 500_000, 1_234_000, 3_000_000)])
# the alphabet for pairs / sequences: every kind of operation, two channels
ALPHA = [G("master"), G("out", 1), G("out", 2), G("volt", 1), G("volt", 3), G("curr", 2),
         S("master", 0, 1), S("out", 1, 1), S("out", 2, 0), S("volt", 1, 7_000_000), S("volt", 2, 2_500_000),
         S("curr", 3, 750_000)]


def drv(env: dict[str, Any], callers: list[dict[str, Any]], origin: str, **kw: Any) -> dict[str, Any]:
    return {"kind": "driver", "env": env, "tmo": kw.pop("tmo", 1.0), "callers": callers, "origin": origin, **kw}


def single_ops() -> list[dict[str, Any]]:
    out = []
    for op in GETTERS + SETTERS:
        for env in ENVS:
            out.append(drv(env, [{"ops": [op]}], "enum-single"))
    for env in ENVS[:2]:
        out.append(drv(env, [], "enum-single", connect=True))
        out.append(drv(env, [{"ops": [{"op": "ident"}]}], "enum-single"))
    return out


def sequences() -> list[dict[str, Any]]:
    out = []
    for a, b in itertools.product(ALPHA, repeat=2):
        out.append(drv(ENVS[0], [{"ops": [a, b]}], "enum-seq"))
    # read-after-write on one connection-less driver: the getter must see what the setter left
    for c in (1, 2, 3):
        out.append(drv(ENVS[1], [{"ops": [S("volt", c, 6_000_000), G("volt", c), S("out", c, 1), G("out", c),
                                          S("curr", c, 900_000), G("curr", c)]}], "enum-seq"))
    return out


def pairs(tier: str) -> list[dict[str, Any]]:
    out = []
    envs = [ENVS[0], ENVS[1]] if tier == "quick" else ENVS
    for a, b in itertools.product(ALPHA, repeat=2):
        for env in envs:
            out.append(drv(env, [{"ops": [a]}, {"ops": [b]}], "enum-pair"))
    for a, b in itertools.product(ALPHA, repeat=2):
        out.append(drv(ENVS[0], [{"ops": [a]}, {"start": 1, "ops": [b]}], "enum-pair-staggered"))
        out.append(drv(ENV_Y, [{"ops": [a]}, {"ops": [b]}], "enum-pair-yield"))
    return out


def triples(rnd: random.Random, n: int) -> list[dict[str, Any]]:
    out = []
    for _ in range(n):
        k = rnd.choice([3, 3, 4])
        callers = []
        for _c in range(k):
            ops = [rnd.choice(GETTERS + SETTERS) for _ in range(rnd.choice([1, 2, 3]))]
            callers.append({"start": rnd.choice([0, 0, 1, 7, 30]), "ops": ops})
        out.append(drv(rnd.choice(ENVS[:3] + [ENV_Y]), callers, "seeded-concurrent"))
    return out


FAULTS: list[dict[str, Any]] = [
    {"kind": "refuse"}, {"kind": "hang"}, {"kind": "silent"}, {"kind": "deaf"}, {"kind": "eof"},
    {"kind": "eof_mid", "cut": 1}, {"kind": "eof_mid", "cut": 2}, {"kind": "eof_mid", "cut": 4},
    {"kind": "reset"}, {"kind": "garbage", "text": "?#!"}, {"kind": "garbage", "text": ""},
    {"kind": "garbage", "text": "ERR"}, {"kind": "binary"}, {"kind": "late"}, {"kind": "reset_on_line"},
    # healthy but awkward: slow within the timeout, answer in several segments
    {"delay": 400}, {"split": [1], "gap": 10}, {"split": [1, 3, 5], "gap": 100},
]
FAULT_OPS = [G("master"), G("out", 2), G("volt", 2), G("curr", 1), S("master", 0, 1), S("out", 2, 0), S("volt", 1, 8_000_000),
             {"op": "ident"}]


def faults() -> list[dict[str, Any]]:
    out = []
    for op in FAULT_OPS:
        for f in FAULTS:
            for idx in (0, 1):
                for tmo in (1.0, 0.25):
                    if tmo == 0.25 and f.get("delay", 0) + 100 * len(f.get("split", [])) >= 200:
                        continue
                    env = {"init": INIT_B, "faults": {str(idx): f}}
                    out.append(drv(env, [{"ops": [op]}], "enum-fault", tmo=tmo))
    for f in FAULTS:
        out.append(drv({"init": INIT_A, "faults": {"0": f}}, [], "enum-fault", connect=True))
        # a second caller after the faulty one: it must not inherit the trouble
        out.append(drv({"init": INIT_A, "faults": {"1": f}}, [{"ops": [G("volt", 1)]}, {"start": 3000, "ops": [G("volt", 2), S("out", 3, 1)]}],
                       "enum-fault"))
    return out


# ------------------------------------------------------------------------------------------------ PowerSupply
def ps_uri(chs: list[int], order: int = 0) -> str:
    q = [f"channel={c}" for c in chs]
    return "tcp://192.0.2.5:5025?" + "&".join(q + ["product_id=hmc804"] if order else ["product_id=hmc804"] + q)


def ps(chs: list[int], env: dict[str, Any], callers: list[dict[str, Any]], origin: str, order: int = 0) -> dict[str, Any]:
    return {"kind": "ps", "uri": ps_uri(chs, order), "chs": chs, "env": env, "callers": callers, "origin": origin}


CHS = [[0], [1], [2], [3], [0, 1], [2, 0], [1, 2, 3], [0, 1, 2, 3], [3, 1]]


def cyc(sleep: int, cb: int | None = None, **kw: Any) -> dict[str, Any]:
    return {"op": "cycle", "sleep": sleep, "cb": cb, **kw}


def cycles(tier: str) -> list[dict[str, Any]]:
    out = []
    envs = [{"init": INIT_ON}, {"init": INIT_B, "lat": 5, "proc": 20}]
    for chs in CHS:
        for sleep in (500, 2000, 5000):
            for cb in (None, 0, 300):
                for i, env in enumerate(envs):
                    out.append(ps(chs, env, [{"ops": [cyc(sleep, cb)]}], "enum-cycle", order=i))
    # two callers on one PowerSupply: the second one arrives before / during the sleep / during the callback / after
    for chs in ([0], [2], [0, 2], [1, 2, 3]):
        for start2 in (0, 1, 700, 2100, 2600, 4000):
            for cb1, cb2 in ((None, None), (400, None), (400, 250), (None, 250)):
                for env in envs:
                    out.append(ps(chs, env, [{"ops": [cyc(2000, cb1)]}, {"start": start2, "ops": [cyc(1000, cb2)]}], "enum-cycle2"))
    # three callers, two cycles each
    for chs in ([1], [0, 3]):
        for starts in ((0, 0, 0), (0, 500, 1000), (0, 1600, 1700)):
            out.append(ps(chs, envs[0], [{"start": s, "ops": [cyc(1500, 200), cyc(500, None)]} for s in starts], "enum-cycle3"))
    # a monitoring caller reads / programs other channels while a cycle runs
    for chs in ([1], [0, 2]):
        for env in envs:
            out.append(ps(chs, env, [{"ops": [cyc(2000, 300)]},
                                     {"start": 0, "ops": [G("volt", 3), {**G("out", chs[-1]), "gap": 500}, {**S("volt", 3, 4_000_000), "gap": 1490},
                                                          {**G("curr", 3), "gap": 10}, {**G("master"), "gap": 100}]}], "enum-cycle-monitor"))
    # default sleep (no figure documented: only the order of events is demanded)
    out.append(ps([2], envs[0], [{"ops": [cyc(0, 100, default_sleep=True)]}], "enum-cycle"))
    # the callback fails / the instrument fails in the middle: the next cycle must still run
    out.append(ps([1], envs[0], [{"ops": [cyc(1000, 100, cb_raises=True)]}, {"start": 10, "ops": [cyc(500, 50)]}], "enum-cycle-fault"))
    for idx in (1, 2, 3, 4):
        for f in ({"kind": "refuse"}, {"kind": "hang"}, {"kind": "reset_on_line"}):
            out.append(ps([0, 2], {"init": INIT_ON, "faults": {str(idx): f}},
                          [{"ops": [cyc(1000, 100)]}, {"start": 10, "ops": [cyc(500, 50)]}], "enum-cycle-fault"))
    return out


# ------------------------------------------------------------------------------------------------ netzteil CLI
def cli() -> list[dict[str, Any]]:
    out = []

    def case(argv: list[str], op: dict[str, Any], env: dict[str, Any]) -> None:
        out.append({"kind": "cli", "argv": argv, "env": env, "callers": [{"ops": [op]}], "origin": "enum-cli"})

    for env in ({"init": INIT_A}, {"init": INIT_B, "proc": 20, "fmt": "e"}):
        for c in (1, 2, 3):
            case(["get", "-t", URI, "-c", str(c), "-a", "voltage"], G("volt", c), env)
            case(["get", "--power-supply", URI, "--channel", str(c), "--attr", "current"], G("curr", c), env)
            case(["get", "-t", URI, "-c", str(c), "-a", "output"], G("out", c), env)
            case(["set", "-t", URI, "-c", str(c), "-a", "voltage", "7.25"], S("volt", c, 7_250_000), env)
            case(["set", "-t", URI, "-c", str(c), "-a", "current", "0.5"], S("curr", c, 500_000), env)
            for word, b in (("on", 1), ("off", 0), ("1", 1), ("0", 0), ("true", 1), ("false", 0)):
                case(["set", "-t", URI, "-c", str(c), "-a", "output", word], S("out", c, b), env)
        case(["get", "-t", URI, "-c", "0", "-a", "output"], G("master"), env)
        for word, b in (("on", 1), ("off", 0)):
            case(["set", "-t", URI, "-c", "0", "-a", "output", word], S("master", 0, b), env)
    for f in ({"kind": "silent"}, {"kind": "refuse"}, {"kind": "eof"}, {"kind": "garbage"}, {"kind": "hang"}):
        for idx in (0, 1, 2):
            out.append({"kind": "cli", "argv": ["get", "-t", URI, "-c", "2", "-a", "voltage"], "env": {"init": INIT_A, "faults": {str(idx): f}},
                        "callers": [{"ops": [G("volt", 2)]}], "origin": "enum-cli-fault"})
    return out


# ------------------------------------------------------------------------------------------------ Scanner / ECU / RND320
def setups() -> list[dict[str, Any]]:
    out = []
    for chs in ([0], [2], [1, 3], [0, 2]):
        uri = ps_uri(chs)
        for sleep in ("1", "3.5", None):
            for env in ({"init": INIT_ON}, {"init": INIT_B, "lat": 5, "proc": 20}):
                argv = ["--target", TGT, "--no-dumpcap", "--power-supply", uri, "--power-cycle"]
                ms = 5000  # documented default of --power-cycle-sleep
                if sleep is not None:
                    argv += ["--power-cycle-sleep", sleep]
                    ms = int(float(sleep) * 1000)
                out.append({"kind": "setup", "argv": argv, "chs": chs, "sleep": ms, "env": env, "origin": "enum-setup"})
        # a power supply without --power-cycle: nothing is switched
        out.append({"kind": "setup", "argv": ["--target", TGT, "--no-dumpcap", "--power-supply", uri], "chs": [], "sleep": 0,
                    "env": {"init": INIT_ON}, "origin": "enum-setup"})
        out.append({"kind": "setup", "argv": ["--target", TGT, "--no-dumpcap", "--power-supply", uri, "--no-power-cycle", "--power-cycle-sleep", "2"],
                    "chs": [], "sleep": 0, "env": {"init": INIT_ON}, "origin": "enum-setup"})
    out.append({"kind": "setup", "argv": ["--target", TGT, "--no-dumpcap"], "chs": [], "sleep": 0, "env": {"init": INIT_ON}, "origin": "enum-setup"})
    return out


def ecus() -> list[dict[str, Any]]:
    out = []
    for chs in ([0], [1], [0, 2]):
        for sleep in (1000, 4000):
            out.append({"kind": "ecu", "uri": ps_uri(chs), "chs": chs, "sleep": sleep, "env": {"init": INIT_ON, "lat": 5}, "origin": "enum-ecu"})
    out.append({"kind": "ecu", "chs": [], "env": {"init": INIT_ON}, "origin": "enum-ecu"})
    return out


def rnds() -> list[dict[str, Any]]:
    out = []
    m1 = {"attr": "master", "ch": 0}
    for uri_chs in ([], [1]):
        for master in (0, 1):
            env = {"init": {"master": master}}
            out.append({"kind": "rnd", "uri_chs": uri_chs, "env": env, "origin": "enum-rnd",
                        "callers": [{"ops": [S("master", 0, 1), S("master", 0, 0), {**S("out", 1, 1), "decl": m1}]}]})
            out.append({"kind": "rnd", "uri_chs": uri_chs, "env": env, "origin": "enum-rnd",
                        "callers": [{"ops": [cyc(1500, 200)]}]})
            out.append({"kind": "rnd", "uri_chs": uri_chs, "env": env, "origin": "enum-rnd",
                        "callers": [{"ops": [cyc(2000, 300)]}, {"ops": [cyc(1000, None)]}, {"ops": [cyc(500, 100)]}]})
    return out


# ------------------------------------------------------------------------------------------------ spec -> code
# the programs of spec/MC_PowerSupply.tla (two channels) as cases; keep in step with that module
MC_INIT0 = {"sel": 2, "master": 0, "out": [0, 1], "volt": [5_000_000, 12_000_000], "curr": [100_000, 200_000]}
MC_INITON = {"sel": 1, "master": 1, "out": [1, 1], "volt": [5_000_000, 12_000_000], "curr": [100_000, 200_000]}


def design_programs() -> dict[str, list[dict[str, Any]]]:
    progs: dict[str, list[dict[str, Any]]] = {}
    for name, (lat, proc) in (("a", (0, 0)), ("b", (5, 20)), ("c", (0, 40))):
        e0 = {"n": 2, "init": MC_INIT0, "lat": lat, "proc": proc}
        e1 = {"n": 2, "init": MC_INITON, "lat": lat, "proc": proc}
        progs.setdefault("drv2", []).append(drv(e0, [{"ops": [G("volt", 1), S("out", 1, 1)]},
                                                     {"ops": [G("out", 2), S("volt", 2, 7_000_000)]}], "design-drv2"))
        progs.setdefault("drv3", []).append(drv(e0, [{"ops": [G("volt", 1)]}, {"ops": [S("curr", 2, 1_500_000)]},
                                                     {"ops": [G("out", 2), G("master")]}], "design-drv3"))
        progs.setdefault("cyc2", []).append(ps([0, 2], e1, [{"ops": [cyc(3000, 500)]}, {"start": 100, "ops": [cyc(1000, None)]}], "design-cyc2"))
        progs.setdefault("cyc3", []).append(ps([1], e1, [{"ops": [cyc(1000, 200)]}, {"ops": [cyc(2000, 300)]},
                                                         {"ops": [G("volt", 2), S("volt", 2, 9_000_000)]}], "design-cyc3"))
        progs.setdefault("mix", []).append(ps([2, 0], e1, [{"ops": [cyc(2000, 300), G("out", 2)]},
                                                           {"start": 100, "ops": [G("volt", 1), S("volt", 1, 3_300_000), G("volt", 1)]}], "design-mix"))
    return progs


def build(tier: str, seed: int) -> list[dict[str, Any]]:
    rnd = random.Random(seed * 7919 + 15)
    cases = single_ops() + sequences() + pairs(tier) + faults() + cycles(tier) + cli() + setups() + ecus() + rnds()
    cases += triples(rnd, 150 if tier == "quick" else 8000)
    if tier == "thorough":
        full = GETTERS + SETTERS
        for a, b in itertools.product(full, repeat=2):
            if a["op"] == "get" or b["op"] == "get" or (a["attr"], a.get("ch")) != (b["attr"], b.get("ch")):
                cases.append(drv(ENVS[1], [{"ops": [a]}, {"ops": [b]}], "enum-pair-full"))
                cases.append(drv(ENV_Y, [{"ops": [a]}, {"ops": [b]}], "enum-pair-full"))
        for _ in range(4000):
            chs = rnd.choice(CHS)
            k = rnd.choice([2, 3])
            callers = [{"start": rnd.choice([0, 1, 100, 900, 1500, 2500]),
                        "ops": [cyc(rnd.choice([300, 1000, 2000]), rnd.choice([None, 0, 150, 600])) for _ in range(rnd.choice([1, 2]))]}
                       for _ in range(k)]
            if rnd.random() < 0.4:
                callers.append({"start": rnd.choice([0, 50, 1200]), "ops": [dict(rnd.choice(GETTERS), gap=rnd.choice([0, 400])) for _ in range(3)]})
            env = {"init": rnd.choice([INIT_ON, INIT_B, INIT_A]), "lat": rnd.choice([0, 5, 40]), "proc": rnd.choice([0, 20])}
            out = ps(chs, env, callers, "seeded-cycles")
            cases.append(out)
        for _ in range(4000):
            op = rnd.choice(GETTERS + SETTERS)
            f = dict(rnd.choice(FAULTS))
            if f.get("kind") == "eof_mid":
                f["cut"] = rnd.randint(1, 6)
            env = {"init": rnd.choice([INIT_A, INIT_B]), "faults": {str(rnd.randint(0, 2)): f}, "lat": rnd.choice([0, 5]),
                   "fmt": rnd.choice(["f3", "e", "plus", "f4"])}
            cases.append(drv(env, [{"ops": [rnd.choice(GETTERS), op]}, {"start": rnd.choice([0, 2000]), "ops": [rnd.choice(GETTERS)]}],
                             "seeded-fault", tmo=rnd.choice([1.0, 0.5])))
    seen: set[str] = set()
    uniq = []
    for c in cases:
        d = digest(c)
        if d not in seen:
            seen.add(d)
            uniq.append(c)
    return uniq
