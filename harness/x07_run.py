"""X07 — run the REAL `scan uds dump-seeds` command (SASeedsDumper.run(): setup, main, teardown) on one
case over the full in-memory tcp-lines stack (harness/c10_stack.serving) under virtual time and record the trace.

A case is plain JSON (replayable):
  {"ecu": {...SeedEcu script...}, "cfg": {...option values...}, "int": seconds | None (interrupt), "origin": str}

The ECU (SeedEcu, a gallia UDSServer subclass served by the real TCPUDSServerTransport.handle_client):
  sessions      list of sessions offered by DiagnosticSessionControl (gallia's default response chain)
  dsc           behaviours of the successive DSC requests for a non-default session:
                "ok" | "lazy" (positive answer, session unchanged) | "sil" | <nrc>;  dsc_tail for the rest ("ok")
  sess_read     "ok" (22 F1 86 answered by gallia's default chain) | "nrc31" | "sil";  rd: the same per successive read
  seed          behaviours of the successive RequestSeed PDUs, then seed_tail cyclically:
                ["pos", n] ["same"] ["posdrop", n] ["neg", nrc] ["negdrop", nrc] ["sil"] ["mis", n] ["misneg"]
  lat           seconds the ECU thinks about a SecurityAccess request (> 0: the dump loop has no other delay)
  key           {"len": L, "accept": bool, "nrc": n, "sil": bool, "drop": bool}  SendKey behaviour;
                keys: per successive SendKey PDU "model" | "sil" | "accept" | "invalid" | "badlen"
  prot          None | {"max": k, "on": "seed"|"key", "delay": s}: brute force protection: after k counted events
                the ECU answers exceededNumberOfAttempts once and requiredTimeDelayNotExpired for `delay` seconds;
                an ECUReset clears it (the counter-measures of the help texts act on this)
  reset         {"ans": "ok"|"neg"|"sil", "boot": seconds without any answer after the reset}; resets: per reset PDU
Every request is recorded AT THE ECU: virtual ms of arrival / answer, ground-truth session before the request,
request bytes, answer bytes.  The seeds file is read back from the artifacts directory.  Nothing is judged here.
"""

from __future__ import annotations

import asyncio
import shutil
import tempfile
import time as _time
from pathlib import Path
from typing import Any

import gallia.services.uds.server as server_mod
from gallia.services.uds.core import service
from gallia.services.uds.core.constants import UDSIsoServices
from gallia.services.uds.server import UDSServer

from harness import vloop
from harness.c10_stack import TARGET, _Raw, serving, setup_logging_once

SAFETY = 40.0  # virtual seconds granted to teardown after the interrupt


def gen_seed(counter: int, n: int) -> bytes:
    return bytes(((counter * 37 + j * 11 + 5) & 0xFF) for j in range(n))


class SeedEcu(UDSServer):
    def __init__(self, ecu: dict[str, Any], mutant: str | None = None) -> None:
        super().__init__()
        self.m = ecu
        self.mutant = mutant
        self.sessions = sorted(set(ecu.get("sessions", [1, 2, 3])) | {1})
        self.sess_read = ecu.get("sess_read", "ok")
        self.dsc = list(ecu.get("dsc", []))
        self.dsc_tail = ecu.get("dsc_tail", "ok")
        self.seed = [list(x) for x in ecu.get("seed", [])]
        self.seed_tail = [list(x) for x in ecu.get("seed_tail", [["pos", 4]])]
        self.lat = float(ecu.get("lat", 1.0))
        self.key = dict(ecu.get("key", {"len": 4, "accept": False, "nrc": 0x35}))
        self.prot = ecu.get("prot")
        self.rst = dict(ecu.get("reset", {"ans": "ok", "boot": 0.0}))
        self.rd = list(ecu.get("rd", []))
        self.keys = list(ecu.get("keys", []))
        self.resets = [dict(x) for x in ecu.get("resets", [])]
        self.n_rd = self.n_key = self.n_rst = 0
        self.sent: bytes | None = None
        self.log: list[dict[str, Any]] = []
        self.n_dsc = 0
        self.n_seed = 0
        self.counter = 0
        self.last_seed = b""
        self.attempts = 0
        self.locked_at: float | None = None
        self.lock_fresh = False
        self.silent_until = 0.0
        sup: dict[UDSIsoServices, list[int] | None] = {
            UDSIsoServices.DiagnosticSessionControl: self.sessions,
            UDSIsoServices.TesterPresent: [0],
            UDSIsoServices.ReadDataByIdentifier: None,
        }
        self._sup = {s: dict(sup) for s in self.sessions}

    @property
    def supported_services(self) -> dict[int, dict[UDSIsoServices, list[int] | None]]:
        return self._sup

    async def respond_after_default(self, request: service.UDSRequest) -> service.UDSResponse | None:
        return None

    # ------------------------------------------------------------------ behaviours
    def _now(self) -> float:
        return asyncio.get_running_loop().time()

    def _locked(self) -> int | None:
        """NRC of the brute force protection, if it is active."""
        if self.prot is None or self.locked_at is None:
            return None
        if self._now() - self.locked_at >= float(self.prot["delay"]):
            self.locked_at = None
            self.attempts = 0
            return None
        if self.lock_fresh:
            self.lock_fresh = False
            return 0x36  # exceededNumberOfAttempts
        return 0x37  # requiredTimeDelayNotExpired

    def _count(self, what: str) -> None:
        if self.prot is not None and self.prot["on"] == what and self.locked_at is None:
            self.attempts += 1
            if self.attempts > int(self.prot["max"]):
                self.locked_at = self._now()
                self.lock_fresh = True

    def _seed_answer(self, pdu: bytes) -> bytes | None:
        lvl = pdu[1] & 0x7F
        if self.n_seed < len(self.seed):
            b = self.seed[self.n_seed]
        else:
            b = self.seed_tail[(self.n_seed - len(self.seed)) % len(self.seed_tail)]
        self.n_seed += 1
        self._count("seed")
        nrc = self._locked()
        if nrc is not None:
            return bytes([0x7F, 0x27, nrc])
        k = b[0]
        if k in ("pos", "posdrop", "same", "mis"):
            if k == "same":
                sd = self.last_seed
            else:
                self.counter += 1
                sd = gen_seed(self.counter, int(b[1]))
            if k == "mis":
                return bytes([0x67, (lvl + 2) & 0x7F]) + sd  # positive answer for another level
            self.last_seed = sd
            if k == "posdrop":
                self.state.reset()
            if self.mutant == "fake-sends-other-seed-than-recorded" and sd:
                self.sent = bytes([0x67, lvl]) + bytes(x ^ 0xFF for x in sd)
            return bytes([0x67, lvl]) + sd
        if k in ("neg", "negdrop"):
            if k == "negdrop":
                self.state.reset()
            return bytes([0x7F, 0x27, int(b[1])])
        if k == "misneg":
            return bytes([0x7F, 0x22, 0x31])  # negative answer of another service
        assert k == "sil", b
        return None

    def _key_answer(self, pdu: bytes) -> bytes | None:
        kb = pdu[2:]
        b = self.keys[self.n_key] if self.n_key < len(self.keys) else "model"
        self.n_key += 1
        if self.key.get("sil") or b == "sil":
            return None
        if b == "accept":
            return bytes([0x67, pdu[1] & 0x7F])
        if b == "badlen":
            return bytes([0x7F, 0x27, 0x13])
        if b == "invalid":
            return bytes([0x7F, 0x27, 0x35])
        nrc = self._locked()
        if nrc is not None:
            return bytes([0x7F, 0x27, nrc])
        if len(kb) != int(self.key["len"]):
            return bytes([0x7F, 0x27, 0x13])
        if self.key.get("accept"):
            return bytes([0x67, pdu[1] & 0x7F])
        self._count("key")
        if self.key.get("drop"):
            self.state.reset()
        return bytes([0x7F, 0x27, int(self.key.get("nrc", 0x35))])

    def _read_mode(self, consume: bool = False) -> str:
        m = self.rd[self.n_rd] if self.n_rd < len(self.rd) else self.sess_read
        if consume:
            self.n_rd += 1
        return str(m)

    async def respond(self, request: service.UDSRequest) -> Any:
        pdu = bytes(request.pdu)
        self.sent = None
        truth = self.state.session
        t0 = self._now()
        raw: bytes | None
        if t0 < self.silent_until:
            raw = None  # still booting after the reset
        elif pdu[0] == 0x10 and len(pdu) == 2 and (pdu[1] & 0x7F) != 1:
            b = self.dsc[self.n_dsc] if self.n_dsc < len(self.dsc) else self.dsc_tail
            self.n_dsc += 1
            if b == "ok":
                r = await super().respond(request)
                raw = None if r is None else bytes(r.pdu)
            elif b == "lazy":
                raw = bytes(service.DiagnosticSessionControlResponse(pdu[1] & 0x7F).pdu)
            elif b == "sil":
                raw = None
            else:
                raw = bytes([0x7F, 0x10, int(b)])
        elif pdu == b"\x22\xf1\x86" and self._read_mode() != "ok":
            raw = None if self._read_mode(True) == "sil" else bytes([0x7F, 0x22, 0x31])
        elif pdu[0] in (0x10, 0x22, 0x3E):
            if pdu == b"\x22\xf1\x86":
                self._read_mode(True)
            r = await super().respond(request)  # gallia's default chain + state update
            raw = None if r is None else bytes(r.pdu)
        elif pdu[0] == 0x11 and len(pdu) == 2:
            rst = self.resets[self.n_rst] if self.n_rst < len(self.resets) else self.rst
            self.n_rst += 1
            ans = rst.get("ans", "ok")
            if ans == "neg":
                raw = bytes([0x7F, 0x11, 0x22])
            else:
                self.state.reset()
                self.attempts = 0
                self.locked_at = None
                self.silent_until = t0 + float(rst.get("boot", 0.0))
                raw = None if ans == "sil" else bytes([0x51, pdu[1] & 0x7F])
        elif pdu[0] == 0x27 and len(pdu) >= 2:
            await asyncio.sleep(self.lat)
            raw = self._seed_answer(pdu) if pdu[1] % 2 == 1 else self._key_answer(pdu)
        else:
            raw = bytes([0x7F, pdu[0], 0x11])
        self.log.append({"t": int(round(t0 * 1000)), "ta": int(round(self._now() * 1000)), "s": truth,
                         "q": list(pdu), "a": list(raw or b""), "has": raw is not None})
        if self.sent is not None:
            return _Raw(self.sent)  # mutant of the fake: what is sent differs from what is recorded
        return None if raw is None else _Raw(raw)


class _Clock:
    """time.time()/monotonic() of the process follow the virtual loop while a case runs (the command
    measures its duration with the wall clock)."""

    def __enter__(self) -> "_Clock":
        self.orig = (_time.time, _time.monotonic, server_mod.time)

        def now() -> float:
            try:
                return 1_000_000.0 + asyncio.get_running_loop().time()
            except RuntimeError:
                return 1_000_000.0

        _time.time = now  # type: ignore[assignment]
        _time.monotonic = now  # type: ignore[assignment]
        server_mod.time = now  # type: ignore[assignment]
        return self

    def __exit__(self, *a: Any) -> None:
        _time.time, _time.monotonic, server_mod.time = self.orig  # type: ignore[assignment]


def build_config(cfg: dict[str, Any]) -> Any:
    from gallia.commands.scan.uds.sa_dump_seeds import SASeedsDumperConfig

    kw: dict[str, Any] = dict(
        target=TARGET, dumpcap=False, hooks=False, properties=False, ping=bool(cfg.get("ping", False)),
        tester_present=bool(cfg.get("tp", False)), timeout=float(cfg.get("timeout", 2.0)),
        max_retries=int(cfg.get("retries", 0)), session=cfg["session"], level=cfg["level"],
        check_session=bool(cfg.get("check", False)), duration=float(cfg.get("duration", 0)),
    )
    if cfg.get("data"):
        kw["data_record"] = cfg["data"]  # hex string, parsed by gallia's HexBytes
    if cfg.get("zk") is not None:
        kw["send_zero_key"] = int(cfg["zk"])
    if cfg.get("zkmax") is not None:
        kw["determine_key_size_max_length"] = int(cfg["zkmax"])
    if cfg.get("reset") is not None:
        kw["reset"] = int(cfg["reset"])
    if cfg.get("sleep") is not None:
        kw["sleep"] = float(cfg["sleep"])
    return SASeedsDumperConfig(**kw)


def run_case(case: dict[str, Any], mutant: str | None = None) -> dict[str, Any]:
    from gallia.commands.scan.uds.sa_dump_seeds import SASeedsDumper

    setup_logging_once()
    ecu, cfg = case["ecu"], case["cfg"]
    interrupt = case.get("int")
    tmp = tempfile.mkdtemp(prefix="x07-")
    out: dict[str, Any] = {"end": "hang", "exc": "", "tend": 0}
    server = SeedEcu(ecu, mutant=mutant)

    async def go() -> None:
        loop = asyncio.get_running_loop()
        with serving(server):
            sc = SASeedsDumper(build_config(cfg))
            sc.artifacts_dir = Path(tmp)
            task = asyncio.ensure_future(sc.run())
            if interrupt is not None:
                loop.call_at(float(interrupt), task.cancel)  # Ctrl-C: asyncio.run() cancels the main task
            try:
                await task
                out["end"] = "done"
            except asyncio.CancelledError:
                out["end"] = "cancel"
            except SystemExit as e:
                out["end"] = "exit"
                out["exc"] = f"SystemExit({e.code})"
            except Exception as e:  # noqa: BLE001
                out["end"] = "exc"
                out["exc"] = f"{type(e).__name__}: {e}"[:200]
            out["tend"] = int(round(loop.time() * 1000))

    horizon = (float(interrupt) if interrupt is not None else 0.0) + SAFETY
    try:
        with _Clock():
            try:
                vloop.run(go(), horizon=horizon)
            except (TimeoutError, vloop.BlockedForever):
                out["end"] = "hang"
            except SystemExit as e:  # raised inside a task
                out["end"] = "exit"
                out["exc"] = f"SystemExit({e.code})"
        files = sorted(p.name for p in Path(tmp).rglob("*") if p.is_file())
        sf = Path(tmp) / "seeds.bin"
        exists = sf.is_file()
        data = sf.read_bytes() if exists else b""
    finally:
        shutil.rmtree(tmp, ignore_errors=True)
    c = cfg
    return {
        "C": {"session": int(str(c["session"]), 0), "level": int(str(c["level"]), 0),
              "data": list(bytes.fromhex(c["data"])) if c.get("data") else [],
              "check": bool(c.get("check", False)),
              "zk": -1 if c.get("zk") is None else int(c["zk"]),
              "zkmax": int(c["zkmax"]) if c.get("zkmax") is not None else 1024,
              "reset": -1 if c.get("reset") is None else int(c["reset"]),
              "dur": int(round(float(c.get("duration", 0)) * 60000)) if float(c.get("duration", 0)) > 0 else 0,
              "sleep": -1 if c.get("sleep") is None else int(round(float(c["sleep"]) * 1000)),
              "retries": int(c.get("retries", 0)),
              "int": -1 if interrupt is None else int(round(float(interrupt) * 1000))},
        "ev": server.log,
        "file": list(data),
        "exists": exists,
        "files": files,
        "end": out["end"],
        "exc": out["exc"],
        "tend": out["tend"],
        "origin": case.get("origin", ""),
    }


__all__ = ["run_case", "SeedEcu", "gen_seed", "build_config"]
