"""X16 test command: a Scanner subclass (in an importable module, like harness/c15_cmds.py: META.json stores
`command = "<module>.<class>"`) whose main() does what the case scripts.  setup() / teardown() are the REAL
Scanner.setup / Scanner.teardown: `--dumpcap` handling, load_transport(target).connect(target), transport.close(),
dumpcap.stop().

Side channel (not part of gallia): MARKS collects (CLOCK_MONOTONIC ns, name) of the phases entered.
"""

from __future__ import annotations

import asyncio
import json
import sys
import time
from pathlib import Path
from typing import Any

from gallia.command.base import Scanner, ScannerConfig
from gallia.command.config import Field

MARKS: list[tuple[int, str]] = []


def mark(name: str) -> None:
    MARKS.append((time.monotonic_ns(), name))


class X16Cfg(ScannerConfig):
    inject: str = Field("", description="X16 main() script (JSON)")


def _journal_has(path: str, pred: Any) -> bool:
    p = Path(path)
    if not p.exists():
        return False
    for ln in p.read_text().splitlines():
        parts = ln.split(" ")
        if len(parts) >= 2 and pred(parts[1:]):
            return True
    return False


class X16Scanner(Scanner):
    CONFIG_TYPE = X16Cfg

    async def setup(self) -> None:
        mark("setup")
        await super().setup()
        mark("setup_done")

    async def main(self) -> None:
        mark("main")
        sp: dict[str, Any] = json.loads(self.config.inject) if self.config.inject else {}
        await self.transport.write(b"3e00")  # some traffic over the connection the capture is about
        j = sp.get("journal", "")
        patience = float(sp.get("patience_s", 40))
        end = time.monotonic() + patience
        if sp.get("go"):
            (Path(j).parent / "go").write_text("go\n")  # opens the gate of the fake (see x16_fake: gate_after)
        if sp.get("wait_wrote"):
            n = int(sp["wait_wrote"])
            while time.monotonic() < end and not _journal_has(j, lambda e: e[0] == "wrote" and int(e[1]) >= n):
                await asyncio.sleep(0.02)
        if sp.get("wait_exit"):
            while time.monotonic() < end and not _journal_has(j, lambda e: e[0] == "exit"):
                await asyncio.sleep(0.02)
        how = sp.get("how", "ok")
        mark("main_end")
        if how == "conn":
            raise ConnectionError("injected by X16")
        if how == "rt":
            raise RuntimeError("injected by X16")
        if how == "exit":
            sys.exit(int(sp.get("n", 3)))

    async def teardown(self) -> None:
        mark("teardown")
        await super().teardown()
        mark("teardown_done")
