"""X18: key scripts (token lists), filters with a meaning the harness knows, session families.

A script is a list of items {"t": token, "n": number, "key": concrete key or {"resize": [h, w]}}; the tokens are what
spec/CursedHrContract.tla interprets, the concrete keys are what the viewer gets from getkey().
"""

from __future__ import annotations

import itertools
import random
from typing import Any

from harness import x18_run as R

KEY_OF = {"up": "KEY_UP", "down": "KEY_DOWN", "ppage": "KEY_PPAGE", "npage": "KEY_NPAGE", "left": "KEY_LEFT",
          "right": "KEY_RIGHT", "home": "g", "end": "G", "mark": "v", "esc": "\x1b", "P": "P", "p": "p", "undo": "u",
          "redo": "r", "interp": "i", "x": "x", "t": "t", "z": "z", "help": "?", "quit": "q", "f": "f", "enter": "\n"}
LEVEL_KEY = {0: "m", 1: "a", 2: "c", 3: "e", 4: "w", 5: "n", 6: "i", 7: "d", 8: "t"}
TOKEN_OF_KEY = {v: k for k, v in KEY_OF.items()}


def tok(t: str, n: int = 0, key: Any = None) -> dict[str, Any]:
    if key is None:
        key = LEVEL_KEY[n] if t == "lvl" else KEY_OF[t]
    return {"t": t, "n": n, "key": key}


def resize(h: int, w: int) -> dict[str, Any]:
    return {"t": "resize", "n": h, "key": {"resize": [h, w]}}


def other(key: str) -> dict[str, Any]:
    """a key whose effect the sources do not fix in the mode it is pressed in"""
    return {"t": "other", "n": 0, "key": key}


# ---------------------------------------------------------------------------------------------------------------
# filters: text -> meaning over the harness's ground truth (prio, tags, text); ids 1.. are positions in `sat`
def _uniq(log: R.Log) -> str:
    k = log.n // 2
    return next(ch for ch in log.lines[k][0] if ch in R.ALPHABET) if any(ch in R.ALPHABET for ch in log.lines[k][0]) else "Ā"


def filters_of(log: R.Log) -> list[dict[str, Any]]:
    u = _uniq(log)
    return [
        {"id": 1, "text": "priority <= 5", "sat": [p <= 5 for p in log.prio]},
        {"id": 2, "text": '"ta" in (tags or [])', "sat": [bool(t) and "ta" in t for t in log.tags]},
        {"id": 3, "text": "priority != 6", "sat": [p != 6 for p in log.prio]},
        {"id": 4, "text": f'"{u}" in data', "sat": [u in t for t in log.text]},
        {"id": 5, "text": f'module == "{R.MODULE}"', "sat": [True] * log.n},
        {"id": 6, "text": "len(data) > 25", "sat": [len(t) > 25 for t in log.text]},
        {"id": 7, "text": "False", "sat": [False] * log.n},
    ]


INVALID_FILTERS = ["priority <", "nosuchname > 3", "data[99999]", "1 +* 2"]
# accepted by the viewer's own validation (its test entry has tags=[] and priority INFO) but raising on real records
RAISING_FILTERS = ['"ta" in tags', "1 / (priority - 7) > 0", "tags[0] == 'ta'", "data[40] != ' '"]


def typed(text: str, n: int) -> list[dict[str, Any]]:
    """f, the characters, ENTER (n: filter number / 0 empty / -1 to be refused / -2 meaning not fixed)"""
    return [tok("f")] + [{"t": "ch", "n": 0, "key": c} for c in text] + [tok("enter", n)]


def ground(log: R.Log) -> list[dict[str, Any]]:
    fs = filters_of(log)
    return [{"prio": log.prio[i], "lens": [len(x) for x in log.lines[i]], "sat": [f["sat"][i] for f in fs]}
            for i in range(log.n)]


# ---------------------------------------------------------------------------------------------------------------
# macros (short key groups with a documented joint meaning)
def macros(log: R.Log, *, levels: tuple[int, ...] = (4, 6, 8)) -> dict[str, list[dict[str, Any]]]:
    fs = filters_of(log)
    m: dict[str, list[dict[str, Any]]] = {
        "up": [tok("up")], "down": [tok("down")], "ppage": [tok("ppage")], "npage": [tok("npage")],
        "home": [tok("home")], "end": [tok("end")], "mark": [tok("mark")], "undo": [tok("undo")],
        "redo": [tok("redo")], "esc": [tok("esc")], "left": [tok("left")], "right": [tok("right")],
        "x": [tok("x")], "t": [tok("t")], "z": [tok("z")], "i": [tok("interp")],
        "help": [tok("help"), tok("quit")], "help-esc": [tok("help"), tok("down"), tok("esc")],
        "f-none": typed("", 0), "f-cancel": [tok("f"), {"t": "ch", "n": 0, "key": "1"}, tok("esc")],
        "f-bad": typed(INVALID_FILTERS[0], -1) + [tok("esc")], "quit": [tok("quit")],
    }
    for lv in levels:
        m[f"P{lv}"] = [tok("P"), tok("lvl", lv)]
        m[f"p{lv}"] = [tok("p"), tok("lvl", lv)]
    m["P-esc"] = [tok("P"), tok("esc")]
    for f in fs:
        m[f"f{f['id']}"] = typed(f["text"], f["id"])
    return m


NAV = ["up", "down", "ppage", "npage", "home", "end"]
CORE = NAV + ["P4", "P8", "mark", "p6", "p8", "undo", "redo", "f2", "f1", "f-none", "help"]


def random_script(rnd: random.Random, log: R.Log, length: int, *, size: tuple[int, int], wild: float = 0.0,
                  resize_p: float = 0.06, sizes: list[tuple[int, int]] | None = None) -> list[dict[str, Any]]:
    m = macros(log)
    names = list(m)
    out: list[dict[str, Any]] = []
    sizes = sizes or [(6, 110), (10, 120), (24, 160), (5, 130)]
    for _ in range(length):
        k = rnd.random()
        if k < 0.5:
            out += m[rnd.choice(NAV)]
        elif k < 0.5 + resize_p:
            h, w = rnd.choice(sizes)
            out.append(resize(h, w))
        elif k < 0.62:
            out += [tok("mark")] + [tok(rnd.choice(["down", "down", "up", "npage"]))] * rnd.randint(1, 4) + m[rnd.choice(["p4", "p6", "p8"])]
        elif k < 0.62 + wild:
            out.append(rnd.choice([other("KEY_BACKSPACE"), other("KEY_HOME"), other("KEY_F(1)"), other("A"), other("0"),
                                   other("\t"), other("KEY_DC"), other("KEY_END"), other(" "), other("~")]))
        else:
            out += m[rnd.choice(names)]
    return out


def exhaustive_scripts(log: R.Log, names: list[str], length: int) -> list[list[dict[str, Any]]]:
    m = macros(log)
    out = []
    for n in range(1, length + 1):
        for combo in itertools.product(names, repeat=n):
            sc: list[dict[str, Any]] = []
            for c in combo:
                sc += m[c]
            out.append(sc)
    return out


# ---------------------------------------------------------------------------------------------------------------
# log shapes
def spec_from(prios: list[int], nls: list[int], *, name: str, tags: list[list[str] | None] | None = None,
              linelen: int = 6, long_at: dict[int, int] | None = None) -> dict[str, Any]:
    """a log with the given priorities (numbers 2..8) and numbers of message lines"""
    recs = []
    for i, (p, nl) in enumerate(zip(prios, nls)):
        lens = [linelen + (i + j) % 3 for j in range(nl)]
        if long_at and i in long_at:
            lens[0] = long_at[i]
        recs.append({"level": R.P.PRIO_TO_LEVEL[p], "lines": lens, "tags": tags[i] if tags else None})
    return {"kind": "x18", "recs": recs, "name": name}


SMALL_LOGS = [
    {"prios": [6, 8, 6, 8], "nls": [2, 1, 3, 1]},
    {"prios": [8, 5, 8, 5, 7, 7], "nls": [1, 3, 2, 2, 1, 2]},
    {"prios": [5, 5, 8, 8, 6], "nls": [3, 1, 1, 2, 2]},
    {"prios": [7, 8, 8, 7, 4, 8], "nls": [2, 2, 1, 3, 1, 1]},
    {"prios": [6, 6, 6], "nls": [1, 1, 1]},
    {"prios": [8, 8], "nls": [2, 1]},
    {"prios": [6], "nls": [4]},
]
_TAGS = [None, ["ta"], ["tb"], ["ta", "tb"], None, ["ta"], None]


def small_log_spec(i: int) -> dict[str, Any]:
    d = SMALL_LOGS[i % len(SMALL_LOGS)]
    n = len(d["prios"])
    return spec_from(d["prios"], d["nls"], name=f"small{i}", tags=[_TAGS[(i + j) % len(_TAGS)] for j in range(n)])
