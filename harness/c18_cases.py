"""C18: per-command work done inside a worker process -- plans (base invocation,
reference values per source), instantiation of the TLC-exported case patterns on
every option of the real command, Q3 reload records.  Returns plain JSON-able
records; the verdicts come from TLC (Trace_ConfigPrecedence)."""

from __future__ import annotations

import asyncio
import importlib
import json
import os
from dataclasses import dataclass, field
from typing import Any

from harness import c18_lib as L
from harness.common import Machinery

RANK = {"cli": 1, "env": 2, "file": 3, "default": 4}


@dataclass
class Plan:
    opt: L.Opt
    base_wo: dict[str, Any]  # name -> cli raw of the other base options
    kwargs_wo: dict[str, Any]
    default_state: str = "missing"  # ok | missing | cross
    default_key: str | None = None
    valid: dict[str, list[tuple[Any, Any, str]]] = field(default_factory=dict)  # src -> [(raw, input, ckey)]
    invalid: dict[str, list[tuple[Any, Any]]] = field(default_factory=dict)
    cross: dict[str, list[tuple[Any, Any]]] = field(default_factory=dict)
    others_ref: dict[str, str] | None = None


class CommandCtx:
    def __init__(self, path: tuple[str, ...], cmd: type, sb: L.Sandbox) -> None:
        self.path = path
        self.cmd = cmd
        self.cfg_type = cmd.CONFIG_TYPE
        self.sb = sb
        self.opts = L.options_of(cmd, sb)
        self.by_name = {o.name: o for o in self.opts}
        self.cands = {o.name: L.candidates(o.decl) for o in self.opts}
        self.base = self._find_base()
        self.plans: dict[str, Plan] = {}

    # ---- base invocation: every required option given, cross-option constraints satisfied
    def _kwargs(self, base: dict[str, Any]) -> dict[str, Any]:
        return {n: L.cli_input(self.by_name[n], r) for n, r in base.items()}

    def _find_base(self) -> dict[str, Any] | None:
        from pydantic import ValidationError

        idx: dict[str, int] = {}
        base: dict[str, Any] = {}
        for _ in range(200):
            try:
                self.cfg_type(**self._kwargs(base))
                return base
            except ValidationError as e:
                fl = [x for x in e.errors() if x["loc"] and x["loc"][0] in self.by_name]
                if not fl:
                    break
                progressed = False
                for x in fl:
                    n = x["loc"][0]
                    i = idx.get(n, -1) + 1
                    cl = [r for r in self.cands[n].cli if r != L.BAD and r != [L.BAD]]
                    if i < len(cl):
                        idx[n] = i
                        base[n] = cl[i]
                        progressed = True
                if not progressed:
                    return None
        # cross-option constraint: other values for the required options, then one or two optional options
        optional = [o.name for o in self.opts if o.name not in base]

        def ok(b: dict[str, Any]) -> bool:
            return L.reference(self.cfg_type, self._kwargs(b), None)[0] == "ok"

        def good(n: str) -> list[Any]:
            return [r for r in self.cands[n].cli if r not in (L.BAD, [L.BAD], L.CONST)]

        for n in list(base):
            for r in good(n):
                b = dict(base)
                b[n] = r
                if ok(b):
                    return b
        req = list(base)
        for i, n in enumerate(req):
            for m in req[i + 1:]:
                for r in good(n):
                    for q in good(m):
                        b = dict(base)
                        b[n] = r
                        b[m] = q
                        if ok(b):
                            return b

        for n in optional:
            for r in self.cands[n].cli[:3]:
                if r in (L.BAD, [L.BAD]):
                    continue
                b = dict(base)
                b[n] = r
                if ok(b):
                    return b
        for i, n in enumerate(optional):
            for m in optional[i + 1:]:
                for r in self.cands[n].cli[:2]:
                    for q in self.cands[m].cli[:2]:
                        if L.BAD in (r, q) or [L.BAD] in (r, q):
                            continue
                        b = dict(base)
                        b[n] = r
                        b[m] = q
                        if ok(b):
                            return b
        return None

    def argv_of(self, base: dict[str, Any]) -> list[str]:
        """positionals (declaration order) first, then the options"""
        pos: list[str] = []
        opt: list[str] = []
        for o in self.opts:
            if o.name in base:
                (pos if o.is_positional_cli else opt).extend(L.cli_tokens(o, base[o.name]))
        return pos + opt

    # ---- plan for one option
    def plan(self, name: str) -> Plan:
        if name in self.plans:
            return self.plans[name]
        assert self.base is not None
        o = self.by_name[name]
        base_wo = {n: r for n, r in self.base.items() if n != name}
        kw = self._kwargs(base_wo)
        p = Plan(opt=o, base_wo=base_wo, kwargs_wo=kw)
        st, m = L.reference(self.cfg_type, kw, name)
        p.default_state = st if st in ("ok", "missing") else "cross"
        any_model = None
        if st == "ok":
            p.default_key = L.ckey(getattr(m, name))
            any_model = m
        c = self.cands[name]
        for src in L.SRC:
            p.valid[src], p.invalid[src], p.cross[src] = [], [], []
            for raw in getattr(c, src):
                inp = L.cli_input(o, raw) if src == "cli" else raw
                st2, m2 = L.reference(self.cfg_type, {**kw, name: inp}, name)
                if st2 == "ok":
                    p.valid[src].append((raw, inp, L.ckey(getattr(m2, name))))
                    any_model = any_model or m2
                elif st2 == "invalid":
                    p.invalid[src].append((raw, inp))
                else:
                    p.cross[src].append((raw, inp))
        if any_model is not None:
            p.others_ref = {q.name: L.ckey(getattr(any_model, q.name)) for q in self.opts if q.name != name}
        self.plans[name] = p
        return p

    # ---- one case
    def build_case(self, name: str, pattern: dict[str, int], variant: int, tree: Any = None,
                   use_short: bool = False) -> dict[str, Any] | None:
        """pattern: src -> 1 valid / 0 invalid / -1 absent / -2 cross.  None if not instantiable."""
        p = self.plan(name)
        o = p.opt
        present = [s for s in L.SRC if pattern[s] != -1]
        if "file" in present and o.key is None:
            return None
        chosen: dict[str, tuple[Any, Any, str | None]] = {}
        used: list[str] = []
        for s in present:
            if pattern[s] == 1:
                pool = p.valid[s]
                if not pool:
                    return None
                rot = pool[variant % len(pool):] + pool[:variant % len(pool)]
                avoid = ([p.default_key] if p.default_key else []) + used
                pick = next((x for x in rot if x[2] not in avoid), None)
                if pick is None:
                    pick = next((x for x in rot if x[2] not in used), None)
                if pick is None:
                    pick = next((x for x in rot if not used or x[2] != used[0]), rot[0])
                chosen[s] = pick
                used.append(pick[2])
            elif pattern[s] == 0:
                pool2 = p.invalid[s]
                if not pool2:
                    return None
                raw, inp = pool2[variant % len(pool2)]
                if isinstance(raw, str):  # distinct malformed texts per source
                    raw = inp = raw + str(RANK[s])
                    if L.reference(self.cfg_type, {**p.kwargs_wo, name: inp}, name)[0] != "invalid":
                        raw, inp = pool2[variant % len(pool2)]
                chosen[s] = (raw, inp, None)
            else:
                pool3 = p.cross[s]
                if not pool3:
                    return None
                raw, inp = pool3[variant % len(pool3)]
                chosen[s] = (raw, inp, None)
        # an invalid command-line value that is a fragment of the VALID value a lower source gives (a typo, an unset
        # shell variable): still the command line's error
        if pattern.get("cli") == 0 and "cli" in chosen and isinstance(chosen["cli"][0], str) and (variant + len(name)) % 2 == 1:
            for s in ("env", "file"):
                if s in chosen and pattern[s] == 1 and isinstance(chosen[s][0], str) and len(chosen[s][0]) >= 2:
                    v = chosen[s][0]
                    for sub in (v[1:], v[:-1], v[1:-1]):
                        if sub and not sub.startswith("-") and L.reference(
                                self.cfg_type, {**p.kwargs_wo, name: L.cli_input(o, sub)}, name)[0] == "invalid":
                            chosen["cli"] = (sub, L.cli_input(o, sub), None)
                            break
                    break
        # ids
        ids: dict[str, int] = {}
        val = {"cli": -1, "env": -1, "file": -1, "default": -1}
        if p.default_state == "ok":
            ids[p.default_key] = len(ids) + 1  # type: ignore[index]
            val["default"] = ids[p.default_key]  # type: ignore[index]
        elif p.default_state == "cross":
            val["default"] = -2
        for s in present:
            if pattern[s] == 1:
                k = chosen[s][2]
                assert k is not None
                if k not in ids:
                    ids[k] = len(ids) + 1
                val[s] = ids[k]
            else:
                val[s] = pattern[s]
        # invocation
        base = dict(p.base_wo)
        if "cli" in present:
            base_with = {}
            for q in self.opts:  # keep declaration order for positionals
                if q.name == name:
                    base_with[name] = chosen["cli"][0]
                elif q.name in base:
                    base_with[q.name] = base[q.name]
            if use_short and o.short and not o.is_positional_cli:
                argv = self.argv_of(base) + L.cli_tokens(o, chosen["cli"][0], use_short=True)
            else:
                argv = self.argv_of(base_with)
        else:
            argv = self.argv_of(base)
        env = {o.env_var: str(chosen["env"][0])} if "env" in present else {}
        toml = L.toml_text({o.key: chosen["file"][0]}) if "file" in present else ""  # type: ignore[dict-item]
        target: Any = self.cmd
        full_argv = argv
        if tree is not None:
            target = tree
            full_argv = list(self.path) + argv
        cfg, err = self.sb.parse(target, full_argv, env, toml)
        if cfg is not None:
            k = L.ckey(getattr(cfg, name))
            others = True
            disturbed = []
            if p.others_ref is not None:
                for q in self.opts:
                    if q.name != name and L.ckey(getattr(cfg, q.name)) != p.others_ref[q.name]:
                        others = False
                        disturbed.append(q.name)
            out: dict[str, Any] = {"t": "value", "id": ids.get(k, 99), "others": others}
            shown = {"value": L.canon(getattr(cfg, name)), "disturbed": disturbed}
        else:
            assert err is not None
            out = {"t": "error", "named": L.named_sources(err, o, self.sb.toml)}
            shown = {"error": L.error_message(err)[:400]}
        applies = ["cli", "default"] + (["env"] if o.decl.gallia_field else []) + (["file"] if o.key else [])
        rec = {
            "kind": "prec",
            "present": present + (["default"] if p.default_state != "missing" else []),
            "applies": applies,
            "val": val,
            "positional": bool(o.decl.positional),
            "out": out,
        }
        detail = {
            "command": list(self.path), "option": name, "pattern": pattern, "variant": variant,
            "mode": "tree" if tree is not None else "command", "short": use_short,
            "argv": full_argv, "env": env, "toml": toml, "observed": shown,
            "type_class": o.tclass, "annotation": "top-level Annotated" if o.decl.annot_toplevel else "plain",
            "file_key": o.key, "declared_by": o.decl.owner, "sources_kept_from": o.decl.sources_from,
        }
        flags = {"kind": o.kind, "annot": o.decl.annot_toplevel, "meta": o.decl.gallia_field,
                 "fileKey": o.key is not None, "positional": bool(o.decl.positional),
                 "hasDefault": p.default_state != "missing"}
        return {"rec": rec, "detail": detail, "flags": flags, "cfg": cfg,
                "distinct": len({v for v in val.values() if v > 0}) == len([v for v in val.values() if v > 0])}


# --------------------------------------------------------------------------
# Q3: reload


def _ids(orig: list[str], re_: list[str]) -> tuple[list[int], list[int]]:
    table: dict[str, int] = {}
    for k in orig + re_:
        table.setdefault(k, len(table) + 1)
    return [table[k] for k in orig], [table[k] for k in re_]


def reload_record(cfg_type: type, cfg: Any, names: list[str], how: str, loader: Any) -> dict[str, Any]:
    orig = [L.ckey(getattr(cfg, n)) for n in names]
    try:
        re_cfg = loader(cfg)
        re_ = [L.ckey(getattr(re_cfg, n)) for n in names]
        err = False
        note = ""
    except BaseException as e:  # noqa: BLE001
        re_ = []
        err = True
        note = f"{type(e).__name__}: {e}"[:300]
    a, b = _ids(orig, re_)
    diff = [n for n, x, y in zip(names, a, b) if x != y] if not err else []
    try:
        dump = cfg.model_dump_json()[:6000]
    except Exception as e:  # noqa: BLE001
        dump = f"(model_dump_json failed: {type(e).__name__})"
    return {"rec": {"kind": "reload", "orig": a, "re": b, "err": err},
            "detail": {"how": how, "config_type": cfg_type.__name__, "differs": diff, "error": note, "dump": dump}}


def load_direct(cmd: type, sb: Any = None) -> Any:
    def f(cfg: Any) -> Any:
        return cmd.CONFIG_TYPE(**json.loads(cfg.model_dump_json()))
    return f


def load_via_meta(cmd: type, sb: L.Sandbox) -> Any:
    """cfg -> BaseCommand.run_meta -> META.json -> real Rerunner.main() (entry_point of the
    re-created command is stubbed in THIS process to capture its config)"""
    from gallia.commands.script.rerun import Rerunner, RerunnerConfig

    def f(cfg: Any) -> Any:
        command = cmd(cfg)
        meta = os.path.join(sb.dir, "META.json")
        with open(meta, "w") as fh:
            fh.write(command.run_meta.json() + "\n")
        return _rerun(Rerunner(RerunnerConfig(file=meta)), None)
    return f


def load_via_db(cmd: type, sb: L.Sandbox) -> Any:
    from datetime import UTC, datetime
    from pathlib import Path

    from gallia.commands.script.rerun import Rerunner, RerunnerConfig
    from gallia.db.handler import DBHandler

    def f(cfg: Any) -> Any:
        dbp = Path(sb.dir) / "c18.sqlite"
        command = cmd(cfg)

        async def go() -> Any:
            h = DBHandler(dbp)
            await h.connect()
            try:
                await h.insert_run_meta(script=command.run_meta.command, config=cfg,
                                        start_time=datetime.now(UTC).astimezone(), path=None)
                r = Rerunner(RerunnerConfig(id=h.meta, db=dbp))
                r.db_handler = h
                return await _rerun_async(r)
            finally:
                await h.disconnect()
        try:
            return asyncio.run(go())
        finally:
            for suffix in ("", "-wal", "-shm"):
                try:
                    os.unlink(str(dbp) + suffix)
                except OSError:
                    pass
    return f


def load_via_meta_new_process(cmd: type, sb: L.Sandbox) -> Any:
    """As load_via_meta, but the real Rerunner runs in a NEW interpreter (what `gallia script rerun` always is):
    defaults that are computed when gallia is imported differ there, only what the stored document carries
    re-creates the run.  The child prints the re-created configuration as JSON."""
    import subprocess
    import sys

    def f(cfg: Any) -> Any:
        command = cmd(cfg)
        meta = os.path.join(sb.dir, "META-np.json")
        with open(meta, "w") as fh:
            fh.write(command.run_meta.json() + "\n")
        code = ("import sys, logging; logging.disable(logging.CRITICAL)\n"
                "from gallia.commands.script.rerun import Rerunner, RerunnerConfig\n"
                "from harness import c18_cases as C\n"
                "cfg = C._rerun(Rerunner(RerunnerConfig(file=sys.argv[1])), None)\n"
                "sys.stdout.write('C18-RECREATED ' + cfg.model_dump_json() + '\\n')\n")
        p = subprocess.run([sys.executable, "-c", code, meta], capture_output=True, text=True, timeout=300)
        line = next((ln for ln in p.stdout.splitlines() if ln.startswith("C18-RECREATED ")), None)
        if line is None:
            raise RuntimeError(f"rerun in a new process failed: {p.stderr[-300:]}")
        return type(cfg).model_validate_json(line[len("C18-RECREATED "):])
    return f


LOADERS = {"model_dump_json": load_direct, "META.json+Rerunner": load_via_meta,
           "META.json+Rerunner(new process)": load_via_meta_new_process,
           "run_meta row+Rerunner": load_via_db}


class _Captured(Exception):
    def __init__(self, cfg: Any) -> None:
        self.cfg = cfg


async def _rerun_async(r: Any) -> Any:
    script = (await r.db())[0] if r.config.id is not None else r.file()[0]
    mod, _, cls_name = script.rpartition(".")
    target = getattr(importlib.import_module(mod), cls_name)
    orig = target.__dict__.get("entry_point")

    async def fake(self: Any) -> int:
        raise _Captured(self.config)

    target.entry_point = fake
    try:
        await r.main()
    except _Captured as c:
        return c.cfg
    finally:
        if orig is None:
            del target.entry_point
        else:
            target.entry_point = orig
    raise Machinery("Rerunner.main() returned without running the command")


def _rerun(r: Any, _unused: Any) -> Any:
    return asyncio.run(_rerun_async(r))


# --------------------------------------------------------------------------
# worker entry point


def run_command(job: dict[str, Any]) -> dict[str, Any]:
    """job: {index, tier, patterns: {flagkey: [pattern,...]}, variants: [...], tree: bool, reload_cap, only: [...]}"""
    import logging

    logging.disable(logging.CRITICAL)
    cmds = L.walk_commands()
    path, cmd = cmds[job["index"]]
    sb = L.Sandbox()
    out: dict[str, Any] = {"index": job["index"], "path": list(path), "cases": [], "reloads": [], "skipped": {},
                           "options": []}
    try:
        ctx = CommandCtx(path, cmd, sb)
        out["options"] = [{"name": o.name, "tclass": o.tclass, "kind": o.kind, "key": o.key,
                           "meta": o.decl.gallia_field, "annot": o.decl.annot_toplevel,
                           "positional": bool(o.decl.positional)} for o in ctx.opts]
        if ctx.base is None:
            out["skipped"]["no-valid-command-line-base"] = len(ctx.opts)
            return out
        cfg0, err0 = sb.parse(cmd, ctx.argv_of(ctx.base), {}, "")
        if cfg0 is None:
            out["skipped"]["base-invocation-rejected"] = len(ctx.opts)
            out["base_error"] = L.error_message(err0 or "")[:300]
            return out
        tree = L.load_commands() if job.get("tree") else None
        origin0 = {"argv": ctx.argv_of(ctx.base), "env": {}, "toml": ""}
        seen_cfg: dict[str, Any] = {L.ckey(dict(cfg0)): (cfg0, origin0)}
        names = [o.name for o in ctx.opts]
        for o in ctx.opts:
            if job.get("only") and o.name not in job["only"]:
                continue
            p = ctx.plan(o.name)
            fk = flag_key({"kind": o.kind, "annot": o.decl.annot_toplevel, "meta": o.decl.gallia_field,
                           "fileKey": o.key is not None, "positional": bool(o.decl.positional),
                           "hasDefault": p.default_state != "missing"})
            pats = job["patterns"].get(fk)
            if pats is None:
                raise Machinery(f"option class {fk} of {path} {o.name} is not enumerated by MC_ConfigPrecedence")
            if job.get("full") is not None and o.name not in job["full"]:
                pats = [q for q in pats if all(v != 0 for v in q.values())]
            for pat in pats:
                for variant in job["variants"]:
                    if variant > 0 and all(v != 1 for v in pat.values()) and not any(v == 0 for v in pat.values()):
                        continue
                    c = ctx.build_case(o.name, pat, variant, tree=tree,
                                       use_short=bool(job.get("short")) and variant % 2 == 1)
                    if c is None:
                        out["skipped"]["pattern-not-instantiable"] = out["skipped"].get("pattern-not-instantiable", 0) + 1
                        continue
                    cfg = c.pop("cfg")
                    if cfg is not None and tree is None and len(seen_cfg) < job.get("reload_cap", 100000):
                        d = c["detail"]
                        seen_cfg.setdefault(L.ckey(dict(cfg)),
                                            (cfg, {"argv": d["argv"], "env": d["env"], "toml": d["toml"]}))
                    out["cases"].append(c)
        # Q3
        if job.get("reload_cap", 1) == 0:
            return out

        def add(cfg: Any, origin: dict[str, Any], how: str) -> None:
            r = reload_record(ctx.cfg_type, cfg, names, how, LOADERS[how](cmd, sb))
            r["detail"]["command"] = list(path)
            r["detail"]["origin"] = origin
            out["reloads"].append(r)

        for cfg, origin in seen_cfg.values():
            add(cfg, origin, "model_dump_json")
        n_meta = job.get("n_meta", 3)
        step = max(1, len(seen_cfg) // max(1, n_meta))
        for cfg, origin in list(seen_cfg.values())[::step][:n_meta]:
            add(cfg, origin, "META.json+Rerunner")
            add(cfg, origin, "run_meta row+Rerunner")
        for cfg, origin in list(seen_cfg.values())[:1]:
            add(cfg, origin, "META.json+Rerunner(new process)")
        return out
    finally:
        sb.close()


def flag_key(f: dict[str, Any]) -> str:
    return "|".join(f"{k}={f[k]}" for k in ("kind", "annot", "meta", "fileKey", "positional", "hasDefault"))
