"""X16 runner: ONE case = one private temporary directory with a fake `dumpcap` (harness/x16_fake.py) put first
on PATH of THIS process, the REAL gallia code driven on the normal asyncio loop in real time, and a plain
measurement of what happened (journal of the fake, files, /proc, return values).  Nothing in here judges the
property: spec/Trace_Dumpcap.tla does.

kinds
  cls   Dumpcap.start(TargetURI, artifacts_dir) -> sync() -> (wait as scripted) -> stop()
  scan  asyncio.run(X16Scanner(config).entry_point()) against a real TCP listener on the loopback interface

Real time under load: every bound is a generous upper limit after which the harness gives up waiting and records
"hang"; no verdict depends on something being fast.  The only lower bound measured is the distance between the
call of stop() and the arrival of the signal at the fake (machine load can only lengthen it).
"""

from __future__ import annotations

import asyncio
import json
import logging
import os
import shutil
import signal
import socket
import tempfile
import threading
import time
import zlib
from pathlib import Path
from typing import Any

from harness import x16_fake as fk
from harness.x16_filter import Invalid as InvalidFilter
from harness.x16_filter import parse as parse_filter

BOUND = 45.0  # seconds after which a single call of the code under test is recorded as "hang"
SLOW_NS = 700_000_000  # a capture process that needs longer than this for its header is "slow" (nothing promises a speed)
PATIENCE_IGNORE = 3.0  # a fake that ignores the signal is killed by the harness this long after the signal is due
ORIG_PATH = os.environ.get("PATH", "/usr/bin:/bin")


class Capture(logging.Handler):
    def __init__(self) -> None:
        super().__init__(level=1)
        self.records: list[tuple[int, str, str]] = []

    def emit(self, record: logging.LogRecord) -> None:
        try:
            msg = record.getMessage()
        except Exception:  # noqa: BLE001
            msg = str(record.msg)
        self.records.append((record.levelno, record.name, msg))


_cap: Capture | None = None


def setup_logging() -> Capture:
    global _cap
    if _cap is None:
        lg = logging.getLogger("gallia")
        lg.setLevel(1)
        lg.propagate = False
        _cap = Capture()
        lg.addHandler(_cap)
        for name in ("asyncio", "aiosqlite"):
            logging.getLogger(name).addHandler(logging.NullHandler())
            logging.getLogger(name).propagate = False
    return _cap


def is_ignoring(sc: dict[str, Any]) -> bool:
    """The scripted process neither ends when signalled nor by itself (the harness will have to kill it)."""
    ends = sc["ready"] == "die" or (sc["ready"] == "header" and sc["then"] == "exit")
    return sc["on_term"] == "ignore" and not ends


# --------------------------------------------------------------------------- measurements
def pstate(pid: int | None) -> str:
    if pid is None:
        return "na"
    try:
        txt = Path(f"/proc/{pid}/stat").read_text()
    except OSError:
        return "gone"
    st = txt.rsplit(")", 1)[-1].split()
    return "zombie" if st and st[0] == "Z" else "alive"


def gunzip_all(raw: bytes) -> tuple[str, bytes]:
    """("complete" | "broken", decompressed bytes): complete = a sequence of gzip members, each with its
    end-of-stream marker and check sum, and nothing behind the last one."""
    if not raw:
        return "broken", b""
    out = bytearray()
    rest = raw
    try:
        while rest:
            o = zlib.decompressobj(wbits=31)
            out += o.decompress(rest)
            if not o.eof:
                return "broken", bytes(out)
            rest = o.unused_data
    except zlib.error:
        return "broken", bytes(out)
    return "complete", bytes(out)


def common_prefix(a: bytes, b: bytes) -> int:
    n = min(len(a), len(b))
    if a[:n] == b[:n]:
        return n
    lo, hi = 0, n
    while lo < hi:
        mid = (lo + hi + 1) // 2
        if a[:mid] == b[:mid]:
            lo = mid
        else:
            hi = mid - 1
    return lo


def files_of(art: Path, stream: bytes) -> dict[str, Any]:
    """Every regular file below `art` that starts with the gzip magic (the pcap file of the run)."""
    gz = []
    if art.exists():
        for p in sorted(art.rglob("*")):
            if p.is_file():
                try:
                    with open(p, "rb") as f:
                        if f.read(2) == b"\x1f\x8b":
                            gz.append(p)
                except OSError:
                    pass
    o: dict[str, Any] = {"files": len(gz), "gz": "none", "got": 0, "prefix": 0, "names": [p.name for p in gz]}
    if gz:
        state, data = gunzip_all(gz[-1].read_bytes())
        o.update(gz=state, got=len(data), prefix=common_prefix(data, stream))
    return o


def fake_facts(bindir: Path) -> dict[str, Any]:
    j = fk.journal(bindir)
    o: dict[str, Any] = {"pid": None, "spawned": 0, "argv": None, "wrote": 0, "exit": -1, "sig": 0, "ev": [], "nspawn": 0}
    for ts, e in j:
        if e[0] == "pid":
            o["pid"] = int(e[1])
            o["nspawn"] += 1
        elif e[0] == "argv":
            o["spawned"] = 1
            o["argv"] = json.loads(e[1])
            o["ev"].append((ts, "spawn"))
        elif e[0] == "ready":
            o["ev"].append((ts, "ready"))
        elif e[0] == "wrote":
            o["wrote"] = int(e[1])
        elif e[0] == "sig":
            if not o["sig"]:
                o["ev"].append((ts, "sig"))
                o["sig_ts"] = ts
            o["sig"] += 1
        elif e[0] == "exit":
            o["exit"] = int(e[1].split()[0])
            o["ev"].append((ts, "exit"))
    return o


def argv_facts(argv: list[str] | None) -> dict[str, Any]:
    """Reads the command line the way dumpcap(1) does; `filt` is the syntax tree of the -f expression."""
    o: dict[str, Any] = {"iface": "", "wdash": 0, "nf": 0, "filt": {"op": "true"}, "raw": ""}
    if argv is None:
        return o
    k = 0
    while k < len(argv):
        a = argv[k]
        if a in ("-i", "-w", "-f", "-s", "-B", "-c", "-a", "-b", "-y") and k + 1 < len(argv):
            v = argv[k + 1]
            if a == "-i":
                o["iface"] = v
            elif a == "-w":
                o["wdash"] = 1 if v == "-" else 0
            elif a == "-f":
                o["nf"] += 1
                o["raw"] = v
                try:
                    o["filt"] = parse_filter(v)
                except InvalidFilter:
                    o["filt"] = {"op": "invalid"}  # accepts nothing: dumpcap would not even start with it
            k += 2
        else:
            k += 1
    return o


def kill_fake(pid: int | None) -> int:
    if pid is None or pstate(pid) != "alive":
        return 0
    try:
        os.kill(pid, signal.SIGKILL)
    except OSError:
        return 0
    return 1


# --------------------------------------------------------------------------- target facts
def target_facts(uri: str) -> dict[str, Any]:
    """What the URI names, measured rather than copied: for the TCP based schemes the (host, port) the REAL transport
    class hands to asyncio.open_connection() (patched to record and refuse), resolved with the system resolver."""
    import ipaddress

    import gallia.command  # noqa: F401  (resolves the import cycle command <-> plugins)
    from gallia.plugins.plugin import load_transport
    from gallia.transports import TargetURI

    t = TargetURI(uri)
    scheme = str(t.url.scheme)
    o: dict[str, Any] = {"scheme": scheme, "kind": "eth", "addrs": [], "port": -1, "iface": "", "ids": [], "named": 0}
    if scheme in ("unix", "unix-lines"):
        o["kind"] = "unix"
        return o
    if scheme in ("isotp", "can-raw"):
        o["kind"] = "can"
        o["iface"] = t.url.netloc
        try:
            ids = [int(t.qs[k][0], 0) for k in ("src_addr", "dst_addr") if k in t.qs]
        except ValueError:
            ids = []
        o["ids"] = ids if len(ids) == 2 else []
        return o
    seen: list[tuple[Any, Any]] = []

    async def recorder(host: Any = None, port: Any = None, **kw: Any) -> Any:
        seen.append((host, port))
        raise ConnectionRefusedError("X16 probe")

    async def go() -> None:
        orig = asyncio.open_connection
        asyncio.open_connection = recorder  # type: ignore[assignment]
        try:
            await asyncio.wait_for(load_transport(t).connect(t), 5)
        except BaseException:  # noqa: BLE001
            pass
        finally:
            asyncio.open_connection = orig  # type: ignore[assignment]

    asyncio.run(go())
    if seen and isinstance(seen[0][1], int) and seen[0][0]:
        host, port = str(seen[0][0]), int(seen[0][1])
        o["port"] = port
        try:
            o["addrs"] = [ipaddress.ip_address(host).compressed]
        except ValueError:
            o["named"] = 1
            try:
                infos = socket.getaddrinfo(host, port, type=socket.SOCK_STREAM)
                o["addrs"] = sorted({ipaddress.ip_address(i[4][0].split("%")[0]).compressed for i in infos})
            except OSError:
                o["addrs"] = []
    o["addrs"] = [{"a": a, "fam": "ip6" if ":" in a else "ip"} for a in o["addrs"]]
    return o


# --------------------------------------------------------------------------- a TCP peer on the loopback interface
class Listener:
    def __init__(self, host: str) -> None:
        fam = socket.AF_INET6 if ":" in host else socket.AF_INET
        self.sock = socket.socket(fam, socket.SOCK_STREAM)
        self.sock.setsockopt(socket.SOL_SOCKET, socket.SO_REUSEADDR, 1)
        self.sock.bind((host, 0))
        self.port = self.sock.getsockname()[1]
        self.accepted: list[int] = []
        self.conns: list[socket.socket] = []
        self.th: threading.Thread | None = None

    def serve(self) -> None:
        self.sock.listen(8)
        self.sock.settimeout(0.2)
        self._stop = False

        def loop() -> None:
            while not self._stop:
                try:
                    c, _ = self.sock.accept()
                except TimeoutError:
                    continue
                except OSError:
                    return
                self.accepted.append(time.monotonic_ns())
                self.conns.append(c)

        self.th = threading.Thread(target=loop, daemon=True)
        self.th.start()

    def close(self) -> None:
        self._stop = True
        if self.th is not None:
            self.th.join(2)
        for c in self.conns:
            try:
                c.close()
            except OSError:
                pass
        try:
            self.sock.close()
        except OSError:
            pass


# --------------------------------------------------------------------------- the cases
async def _bounded(coro: Any, bound: float) -> tuple[str, Any]:
    """("ok", value) | ("exc", exception) | ("hang", task): never cancels a call that is merely slow."""
    t = asyncio.ensure_future(coro)
    done, _ = await asyncio.wait({t}, timeout=bound)
    if not done:
        return "hang", t
    e = t.exception() if not t.cancelled() else asyncio.CancelledError()
    if e is not None:
        return "exc", e
    return "ok", t.result()


async def _wait_journal(bindir: Path, cond: dict[str, Any]) -> bool:
    end = time.monotonic() + BOUND
    while time.monotonic() < end:
        f = fake_facts(bindir)
        if "wrote" in cond and f["wrote"] >= int(cond["wrote"]):
            return True
        if cond.get("exit") and f["exit"] >= 0:
            return True
        if cond.get("sig") and f["sig"]:
            return True
        await asyncio.sleep(0.01)
    return False


async def _drive_cls(case: dict[str, Any], d: Path, cap: Capture, mutant: str | None) -> dict[str, Any]:
    from gallia.dumpcap import Dumpcap
    from gallia.transports import TargetURI

    bindir = d / "bin"
    art = d / "art"
    art.mkdir()
    marks: list[tuple[int, str]] = []

    def mark(n: str) -> None:
        marks.append((time.monotonic_ns(), n))

    o: dict[str, Any] = {"start": "obj", "sync": "skipped", "stop": "skipped", "excs": [], "killed": 0, "cleanup_ms": -1,
                         "alive_at_ret": "na", "pending": 0, "progress": 1}
    cap.records.clear()
    mark("start_call")
    st, val = await _bounded(Dumpcap.start(TargetURI(case["uri"]), art), BOUND)
    mark("start_ret")
    o["reported"] = int(any(lv >= logging.WARNING for lv, _, _ in cap.records))
    if st == "hang":
        o["start"] = "hang"
        val.cancel()
        return o | {"marks": marks}
    if st == "exc":
        o["start"] = "exc"
        o["excs"].append(repr(val))
        return o | {"marks": marks}
    dc = val
    if dc is None:
        o["start"] = "none"
        return o | {"marks": marks}
    # ---- sync
    mark("sync_call")
    if case.get("sync", "long") == "long":
        try:
            co = dc.sync(timeout=BOUND)
        except TypeError:
            co = dc.sync()
    else:
        co = dc.sync()
    st, val = await _bounded(co, BOUND + 5)
    mark("sync_ret")
    if st == "hang":
        o["sync"] = "hang"
        val.cancel()
    elif st == "exc":
        o["sync"] = "timeout" if isinstance(val, TimeoutError) else "exc"
        o["excs"].append(repr(val))
    else:
        o["sync"] = "ok"
    # ---- the scripted moment of stop()
    when = case.get("stop_when", {})
    if when.get("go"):
        (bindir / "go").write_text("go\n")  # opens the gate of the fake (see x16_fake: gate_after)
    if when.get("after_ms"):
        await asyncio.sleep(when["after_ms"] / 1000)
    if any(k in when for k in ("wrote", "exit")) and o["sync"] == "ok":
        o["progress"] = int(await _wait_journal(bindir, when))
    if case.get("cleanup_ms") is not None and hasattr(dc, "cleanup"):
        dc.cleanup = case["cleanup_ms"] / 1000
    cl = getattr(dc, "cleanup", None)
    o["cleanup_ms"] = int(cl * 1000) if isinstance(cl, (int, float)) else -1
    ignoring = is_ignoring(case["script"])
    patience = (cl if isinstance(cl, (int, float)) else 2) + (PATIENCE_IGNORE if ignoring else BOUND)
    if when.get("go_at_stop"):
        (bindir / "go").write_text("go\n")
    mark("stop_call")
    if mutant == "harness-skips-stop":
        st, val = "ok", None
    else:
        st, val = await _bounded(dc.stop(), patience)
    if st == "hang":
        o["stop"] = "hang"
        o["killed"] = kill_fake(fake_facts(bindir)["pid"])
        mark("kill")
        done, _ = await asyncio.wait({val}, timeout=BOUND)
        if not done:
            o["stop"] = "stuck"
            val.cancel()
        elif val.cancelled() or val.exception() is not None:
            o["stop"] = "hang-exc"
            o["excs"].append(repr(val.exception()) if not val.cancelled() else "CancelledError()")
        mark("stop_ret")
    else:
        mark("stop_ret")
        if st == "exc":
            o["stop"] = "exc"
            o["excs"].append(repr(val))
        else:
            o["stop"] = "ok"
    o["alive_at_ret"] = pstate(fake_facts(bindir)["pid"])
    for _ in range(3):
        await asyncio.sleep(0)
    cur = asyncio.current_task()
    o["pending"] = sum(1 for t in asyncio.all_tasks() if t is not cur and not t.done())
    return o | {"marks": marks}


def _order(marks: list[tuple[int, str]], fev: list[tuple[int, str]]) -> list[str]:
    return [n for _, n in sorted(marks + fev, key=lambda x: x[0])]


def _finish_fake(bindir: Path, o: dict[str, Any]) -> dict[str, Any]:
    """Nothing of the case survives it: a fake still running is killed (and reported as left running)."""
    f = fake_facts(bindir)
    o["left_running"] = 0
    if f["pid"] is not None and pstate(f["pid"]) == "alive":
        o["left_running"] = 1
        kill_fake(f["pid"])
        for _ in range(200):
            if pstate(f["pid"]) != "alive":
                break
            time.sleep(0.01)
    return f


def _install(case: dict[str, Any], d: Path) -> tuple[Path, bytes]:
    bindir = d / "bin"
    stream = fk.make_stream(int(case.get("stream_seed", 1)), fk.planned_total(case["script"]) + 64)
    path = case.get("path", "fake")
    sc = case["script"]
    if sc.get("gate_after") is not None and sc["then"] == "exit":
        # a process scripted to leave by itself must get the chance to: somebody has to open its gate
        opens = case.get("stop_when", {}).get("go") or case.get("stop_when", {}).get("go_at_stop") or case.get("main", {}).get("go")
        if not opens:
            raise ValueError(f"inconsistent case (gate never opened): {case.get('origin')}")
    if path == "fake":
        fk.install(bindir, case["script"], stream)
    elif path == "noexec":
        fk.install(bindir, case["script"], stream, executable=False)
    else:
        bindir.mkdir(parents=True)
    # only directories without a real dumpcap stay on PATH (the sandbox has none; a developer machine may)
    rest = [p for p in ORIG_PATH.split(":") if p and not (Path(p) / "dumpcap").exists()]
    os.environ["PATH"] = ":".join([str(bindir)] + rest)
    os.environ.pop("all_proxy", None)
    return bindir, stream


def _run_cls(case: dict[str, Any], mutant: str | None) -> dict[str, Any]:
    cap = setup_logging()
    d = Path(tempfile.mkdtemp(prefix="x16-"))
    try:
        bindir, stream = _install(case, d)
        if mutant == "fake-writes-other-bytes":
            # binding self-test: the fake delivers bytes that differ from the stream the harness compares with
            bad = bytearray(stream)
            bad[len(bad) // 2] ^= 0x55
            (bindir / "stream.bin").write_bytes(bytes(bad))
        tgt = target_facts(case["uri"])
        o = asyncio.run(_drive_cls(case, d, cap, mutant))
        f = _finish_fake(bindir, o)
        marks = o.pop("marks")
        o.update(files_of(d / "art", stream))
        o["want"] = f["wrote"]
        o["spawned"], o["nspawn"], o["fexit"], o["nsig"] = f["spawned"], f["nspawn"], f["exit"], f["sig"]
        o["argv"] = argv_facts(f["argv"])
        o["argv_raw"] = f["argv"]
        o["order"] = _order(marks, f["ev"])
        sc = next((ts for ts, n in marks if n == "stop_call"), None)
        o["term_after_stop_ms"] = int((f["sig_ts"] - sc) // 1_000_000) if sc is not None and "sig_ts" in f else -1
        o["sync_long"] = int(case.get("sync", "long") == "long")
        t_call = next((ts for ts, n in marks if n == "start_call"), None)
        t_ready = next((ts for ts, n in f["ev"] if n == "ready"), None)
        o["slow"] = int(t_call is None or t_ready is None or t_ready - t_call > SLOW_NS)
        o.update(kind="cls", tgt=tgt, path=case.get("path", "fake"), origin=case.get("origin", ""),
                 script={k: case["script"][k] for k in ("ready", "on_term", "then")})
        return o
    finally:
        os.environ["PATH"] = ORIG_PATH
        shutil.rmtree(d, ignore_errors=True)


def _run_scan(case: dict[str, Any], mutant: str | None) -> dict[str, Any]:
    """How fast a capture process becomes ready is promised nowhere, and setup() waits for it only so long: a run in
    which the (healthy) fake needed longer than SLOW_NS from the begin of setup() to its header -- a loaded machine --
    and that therefore never connected is repeated; if it stays like that it is recorded with slow = 1 (not judged)."""
    o: dict[str, Any] = {}
    for _attempt in range(4):
        o = _run_scan_once(case, mutant)
        sc = case["script"]
        healthy = sc["ready"] == "header" and sc["then"] == "idle" and int(sc.get("start_ms", 0)) == 0
        if not (healthy and o["spawned"] and not o["connected"] and o["cfg"]["connect"] == "ok" and o["tgt"]["kind"] == "eth"):
            break
        if o["ready_after_setup_ns"] is not None and o["ready_after_setup_ns"] <= SLOW_NS:
            break
        o["slow"] = 1
    return o


def _run_scan_once(case: dict[str, Any], mutant: str | None) -> dict[str, Any]:
    from harness import x16_cmds

    cap = setup_logging()
    d = Path(tempfile.mkdtemp(prefix="x16-"))
    lst: Listener | None = None
    killer: threading.Timer | None = None
    try:
        bindir, stream = _install(case, d)
        host = case.get("host", "127.0.0.1")
        if case.get("scheme", "tcp-lines") == "unix-lines":
            # a unix socket peer: the capture is not started at all for this scheme
            sockp = d / "peer.sock"
            us = socket.socket(socket.AF_UNIX, socket.SOCK_STREAM)
            us.bind(str(sockp))
            us.listen(4)
            uri = f"unix-lines://{sockp}"
        else:
            us = None
            lst = Listener("::1" if host == "::1" else "127.0.0.1")
            if case.get("connect", "ok") == "ok":
                lst.serve()
            else:
                lst.sock.close()  # nobody listens on the port any more: connection refused
            uri = f"tcp-lines://{'[::1]' if host == '::1' else host}:{lst.port}"
        tgt = target_facts(uri) if us is None else {"scheme": "unix-lines", "kind": "unix", "addrs": [], "port": -1,
                                                    "iface": "", "ids": [], "named": 0}
        inj = dict(case.get("main", {}), journal=str(bindir / "events.log"))
        kw: dict[str, Any] = dict(artifacts_base=(d / "art") if case.get("art", True) else None, hooks=False,
                                  target=uri, inject=json.dumps(inj, sort_keys=True))
        if case.get("dumpcap") is not None:
            kw["dumpcap"] = bool(case["dumpcap"])
        cmd = x16_cmds.X16Scanner(x16_cmds.X16Cfg(**kw))
        x16_cmds.MARKS.clear()
        cap.records.clear()
        ignoring = is_ignoring(case["script"])
        o: dict[str, Any] = {"killed": 0, "hang": 0, "escaped": ""}

        def kill_when_signalled() -> None:
            # a fake that ignores the signal: the harness kills it PATIENCE_IGNORE seconds after the signal arrived
            end = time.monotonic() + BOUND
            while time.monotonic() < end:
                f = fake_facts(bindir)
                if f["sig"]:
                    time.sleep(PATIENCE_IGNORE)
                    o["killed"] = kill_fake(f["pid"])
                    return
                time.sleep(0.05)

        if ignoring:
            killer = threading.Timer(0, kill_when_signalled)
            killer.daemon = True
            killer.start()

        async def bounded() -> Any:
            t = asyncio.ensure_future(cmd.entry_point())
            done, _ = await asyncio.wait({t}, timeout=2 * BOUND)
            if not done:
                o["hang"] = 1
                kill_fake(fake_facts(bindir)["pid"])
                done, _ = await asyncio.wait({t}, timeout=BOUND)
                if not done:
                    t.cancel()
                    return -2
            return t.result()

        try:
            rc = asyncio.run(bounded())
            o["exit"] = rc if isinstance(rc, int) and 0 <= rc <= 255 else -1
        except SystemExit as e:
            o["exit"] = e.code if isinstance(e.code, int) else 1
            o["escaped"] = "SystemExit"
        except BaseException as e:  # noqa: BLE001
            o["exit"] = 1
            o["escaped"] = type(e).__name__
        t_done = time.monotonic_ns()
        f0 = fake_facts(bindir)
        o["alive_at_ret"] = pstate(f0["pid"])
        f = _finish_fake(bindir, o)
        while cmd.log_file_handlers:  # what a run that escaped entry_point() left behind in this process
            from gallia.log import remove_zst_log_handler

            try:
                remove_zst_log_handler("gallia", cmd.log_file_handlers.pop())
            except Exception:  # noqa: BLE001
                pass
        marks = list(x16_cmds.MARKS) + [(t_done, "done")]
        if lst is not None:
            lst.close()  # (joins the accepting thread: `accepted` is final)
            marks += [(ts, "connect") for ts in lst.accepted[:1]]
        t_setup = next((ts for ts, n in marks if n == "setup"), None)
        t_ready = next((ts for ts, n in f["ev"] if n == "ready"), None)
        o["ready_after_setup_ns"] = (t_ready - t_setup) if t_setup is not None and t_ready is not None else None
        o["slow"] = 0
        o.update(files_of(d / "art", stream))
        o["want"] = f["wrote"]
        o["spawned"], o["nspawn"], o["fexit"], o["nsig"] = f["spawned"], f["nspawn"], f["exit"], f["sig"]
        o["argv"] = argv_facts(f["argv"])
        o["argv_raw"] = f["argv"]
        o["order"] = _order(marks, f["ev"])
        o["connected"] = int(bool(lst is not None and lst.accepted))
        o["errlog"] = int(any(lv >= logging.ERROR for lv, _, _ in cap.records))
        o["errmsgs"] = [m[:100] for lv, _, m in cap.records if lv >= logging.ERROR][:4]
        o.update(kind="scan", tgt=tgt, path=case.get("path", "fake"), origin=case.get("origin", ""),
                 script={k: case["script"][k] for k in ("ready", "on_term", "then")},
                 cfg={"dumpcap": -1 if case.get("dumpcap") is None else int(bool(case["dumpcap"])),
                      "art": int(case.get("art", True)), "main": case.get("main", {}).get("how", "ok"),
                      "connect": case.get("connect", "ok")})
        if us is not None:
            us.close()
        return o
    finally:
        if lst is not None:
            lst.close()
        os.environ["PATH"] = ORIG_PATH
        shutil.rmtree(d, ignore_errors=True)


def run_case(case: dict[str, Any], mutant: str | None = None) -> dict[str, Any]:
    import sys

    # a subprocess transport collected after its loop was closed complains through the unraisable hook
    # ("Event loop is closed"): that is noise of runs that ended in setup(), not an observation
    old = sys.unraisablehook
    sys.unraisablehook = lambda *a: None
    try:
        if case["kind"] == "cls":
            return _run_cls(case, mutant)
        return _run_scan(case, mutant)
    finally:
        import gc

        gc.collect()
        sys.unraisablehook = old
