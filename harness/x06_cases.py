"""X06 — families of cases (ECU model x configuration) for the real ResetScanner.

Every option gallia parses from a range expression is generated as a DENOTATION first and then rendered into
the documented grammar (harness.c10_cases.render_*); the scanner gets the strings, the contract the denotation.
All generators are deterministic functions of (tier, seed).
"""

from __future__ import annotations

import itertools
import random
from typing import Any

from harness.c10_cases import den_skip, render_list, render_skip
from harness.x06_run import NEG_NRCS, NS_NRCS

SHORT, LONG = 3000, 20000  # the design layer's abstract silences (spec/ResetScan.tla)


def ecu(cls: dict[str, dict[str, list[Any]]], *, sessions: list[int] | None = None, sess_read: bool = True,
        fallback: bool = True, down: int = 0, drop: str = "no", refuse: int = 0) -> dict[str, Any]:
    return {"sessions": sessions or [1, 2, 3], "sess_read": sess_read, "fallback": fallback, "down": down,
            "drop": drop, "refuse": refuse if drop != "no" else 0, "cls": cls}


def case(e: dict[str, Any], sessions: list[int] | None, skip_all: list[int], skip: dict[int, list[int]],
         skip_check: bool, style: int, origin: str, tp: bool = False, ping: bool = True,
         extra: dict[str, Any] | None = None) -> dict[str, Any]:
    d = den_skip(skip_all, skip)
    cfg: dict[str, Any] = {"sessions": None if sessions is None else render_list(sessions, style),
                           "skip": render_skip(skip_all, skip, style), "skip_check": skip_check, "tp": tp, "ping": ping}
    if extra:
        cfg.update(extra)
    if sessions is None:
        d = {"skip_all": [], "skip": []}  # "Only takes affect if --sessions is given": the contract ignores it then
    return {"ecu": e, "cfg": cfg, "den": {"sessions": None if sessions is None else sorted(set(sessions)), **d},
            "origin": origin}


# ------------------------------------------------------------------ abstract models (mirror of MC_ResetScan)
ABS_CLASSES: list[list[Any]] = [["NS", 0x12], ["NEG", 0x22], ["POS"], ["SIL"]]
ABS_CFGS: list[tuple[list[int] | None, list[int], dict[int, list[int]], bool]] = [
    (None, [], {}, False),
    ([1, 2], [], {2: [1], 1: [2]}, False),
    ([2], [], {}, True),
    ([2, 3], [2], {1: [1]}, False),
]


def abstract(tier: str) -> list[dict[str, Any]]:
    """Every table over sessions {1,2} x sub-functions {0x01, X} x the four classes (256 tables), crossed with
    silence / drop / refusal / fallback; X walks through 0x02..0x7F so that every sub-function is the odd one once."""
    out: list[dict[str, Any]] = []
    envs = [(0, "no", 0), (SHORT, "no", 0), (LONG, "no", 0), (0, "fin", 0), (SHORT, "fin", SHORT), (0, "rst", SHORT),
            (0, "fin", LONG)]
    n = 0
    for tab in itertools.product(range(4), repeat=4):
        for ei, (down, drop, refuse) in enumerate(envs):
            n += 1
            if tier == "quick" and n % 11 != 3:
                continue
            x = 2 + (n * 7) % 126
            cls = {"1": {"1": ABS_CLASSES[tab[0]], str(x): ABS_CLASSES[tab[1]]},
                   "2": {"1": ABS_CLASSES[tab[2]], str(x): ABS_CLASSES[tab[3]]}}
            e = ecu(cls, sessions=[1, 2], fallback=(n % 3 != 0), sess_read=(n % 5 != 0), down=down, drop=drop,
                    refuse=refuse)
            ss, sa, sk, nocheck = ABS_CFGS[n % len(ABS_CFGS)]
            sk2 = {s: [x if i == 2 else i for i in ids] for s, ids in sk.items()}
            out.append(case(e, ss, sa, sk2, nocheck, n, "abstract", tp=(n % 4 == 0)))
    return out


# ------------------------------------------------------------------ packed tables
def packed_cls(offset: int, pos_every: int = 9) -> dict[str, dict[str, list[Any]]]:
    """Sessions 1..3, every sub-function 1..0x7F gets a class; positive answers are sparse (each costs two resets)."""
    cls: dict[str, dict[str, list[Any]]] = {"1": {}, "2": {}, "3": {}}
    for s in (1, 2, 3):
        for sf in range(1, 0x80):
            k = (sf * 5 + s * 3 + offset) % pos_every
            j = (sf + s + offset)
            if k == 0:
                c: list[Any] = ["POS"]
            elif k in (1, 2):
                c = ["NEG", NEG_NRCS[j % len(NEG_NRCS)]]
            else:
                c = ["NS", NS_NRCS[j % len(NS_NRCS)]]
            cls[str(s)][str(sf)] = c
    return cls


SKIPS: list[tuple[list[int], dict[int, list[int]]]] = [
    ([], {}),
    ([], {1: [0x01, 0x02, 0x10, 0x3F, 0x40, 0x7F], 2: list(range(0x20, 0x41))}),
    ([2], {1: list(range(0x02, 0x30)), 3: [0x7E, 0x7F, 0x01]}),
    ([3], {2: [0x01], 3: [0x10]}),
    ([], {2: list(range(0x01, 0x7F)), 1: [0x7F]}),
]
SESSION_LISTS: list[list[int] | None] = [[1, 2], None, [2], [1, 2, 3], [1, 2, 5], [2, 3], [3, 1], [6, 2], [1]]
ENVS = [(0, "no", 0), (300, "no", 0), (1200, "no", 0), (7000, "no", 0), (0, "fin", 0), (0, "rst", 0), (1200, "fin", 0),
        (0, "fin", 300), (0, "fin", 700), (2500, "fin", 2000), (0, "rst", 4000), (500, "rst", 6500),
        (12000, "no", 0), (30000, "no", 0), (0, "fin", 15000), (60000, "fin", 0)]


def packed(tier: str) -> list[dict[str, Any]]:
    out: list[dict[str, Any]] = []
    n = 0
    for si, ss in enumerate(SESSION_LISTS):
        for ki, (sa, sk) in enumerate(SKIPS):
            for nocheck in (False, True):
                n += 1
                if tier == "quick" and n % 3 != 1:
                    continue
                down, drop, refuse = ENVS[n % len(ENVS)]
                e = ecu(packed_cls(n, 9 if tier == "quick" else 7), fallback=(n % 4 != 2), sess_read=(n % 5 != 4),
                        down=down, drop=drop, refuse=refuse)
                out.append(case(e, ss, sa, sk, nocheck, n, "packed", tp=(n % 2 == 0), ping=(n % 7 != 0)))
    return out


def environments(tier: str) -> list[dict[str, Any]]:
    """One small table, every environment x session mode x check x tester-present."""
    out: list[dict[str, Any]] = []
    cls = {"1": {"1": ["POS"], "3": ["NEG", 0x22], "5": ["POS"], "127": ["POS"]},
           "2": {"1": ["POS"], "2": ["POS"], "4": ["NEG", 0x33], "126": ["NEG", 0x31]},
           "3": {"1": ["NEG", 0x22], "64": ["POS"]}}
    n = 0
    for down, drop, refuse in ENVS:
        for ss in ([2], None, [1, 3], [3, 2]):
            for nocheck in (False, True):
                for fb in (True, False):
                    n += 1
                    if tier == "quick" and n % 2:
                        continue
                    e = ecu(cls, fallback=fb, sess_read=(n % 3 != 0), down=down, drop=drop, refuse=refuse)
                    out.append(case(e, ss, [], {2: [2]} if n % 4 == 1 else {}, nocheck, n, "environments",
                                    tp=(n % 3 == 1)))
    return out


def mixed(tier: str) -> list[dict[str, Any]]:
    """Positive resets with their own silence / drop / refusal, silent sub-functions that also drop the line,
    the boundaries 0x01 / 0x7F, client settings (timeout, retries)."""
    out: list[dict[str, Any]] = []
    cls = {"1": {"1": ["POS", 0, "no", 0], "2": ["POS", 1500, "fin", 0], "64": ["POS", 0, "rst", 600],
                 "126": ["POS", 6000, "no", 0], "127": ["POS", 200, "fin", 1900], "3": ["NEG", 0x13]},
           "2": {"1": ["NEG", 0x22], "5": ["POS", 4000, "fin", 4000], "127": ["NEG", 0x24]},
           "3": {"1": ["POS", 900, "no", 0], "127": ["POS"]}}
    n = 0
    for ss in (None, [1, 2], [2, 3], [3]):
        for nocheck in (False, True):
            for extra in ({}, {"timeout": 0.7, "max_retries": 0}, {"timeout": 1.0, "max_retries": 1}):
                n += 1
                out.append(case(ecu(cls, fallback=(n % 2 == 0)), ss, [], {}, nocheck, n, "mixed", tp=(n % 2 == 1),
                                extra=extra))
    sil = {"1": {"1": ["POS"], "9": ["SIL"]}, "2": {"2": ["SIL", "fin", 0], "1": ["POS"]}, "3": {"1": ["SIL"], "7": ["POS"]}}
    for ss in (None, [2], [3], [1, 2]):
        for skp in ({}, {3: [1]}, {2: [2], 1: [9]}):
            n += 1
            out.append(case(ecu(sil), ss, [], skp, n % 2 == 0, n, "mixed-silent"))
    return out


def seeded(tier: str, seed: int) -> list[dict[str, Any]]:
    rnd = random.Random(seed * 7919 + 17)
    out: list[dict[str, Any]] = []
    for n in range(60 if tier == "quick" else 600):
        sessions = sorted(rnd.sample([1, 2, 3, 4], rnd.choice([2, 3])) + ([1] if rnd.random() < 0.5 else []))
        sessions = sorted(set(sessions) | {1})
        cls: dict[str, dict[str, list[Any]]] = {}
        for s in sessions:
            d: dict[str, list[Any]] = {}
            for sf in rnd.sample(range(1, 0x80), rnd.choice([3, 8, 20])) + [1]:
                r = rnd.random()
                if r < 0.3:
                    d[str(sf)] = ["POS"] if rnd.random() < 0.7 else \
                        ["POS", rnd.choice([0, 400, 2600, 7500]), rnd.choice(["no", "fin", "rst"]), rnd.choice([0, 450, 3000])]
                elif r < 0.6:
                    d[str(sf)] = ["NEG", rnd.choice(NEG_NRCS)]
                elif r < 0.65 and rnd.random() < 0.3:
                    d[str(sf)] = ["SIL"]
                else:
                    d[str(sf)] = ["NS", rnd.choice(NS_NRCS)]
            cls[str(s)] = d
        down, drop, refuse = rnd.choice(ENVS)
        e = ecu(cls, sessions=sessions, fallback=rnd.random() < 0.7, sess_read=rnd.random() < 0.8, down=down,
                drop=drop, refuse=refuse)
        ss = rnd.choice([None, None] + [sorted(rnd.sample([1, 2, 3, 4, 5], k)) for k in (1, 2, 3)])
        sa = [rnd.choice([1, 2, 3])] if rnd.random() < 0.2 else []
        sk = {s: sorted(rnd.sample(range(1, 0x80), rnd.choice([1, 5, 40]))) for s in rnd.sample([1, 2, 3, 4], rnd.choice([0, 1, 2]))}
        out.append(case(e, ss, sa, sk, rnd.random() < 0.4, rnd.randrange(12), "seeded", tp=rnd.random() < 0.4,
                        ping=rnd.random() < 0.8))
    return out
