"""X10 — families of cases (options x ECU model) for the real primitive UDS commands.

Every case is generated as a DENOTATION first (`opt`: what the options mean, in the vocabulary of
spec/PrimitivesContract.tla) and rendered into option values the way a user would type them (hex / decimal /
upper-case spellings, --data vs --data-file, option omitted when it has the documented default); the command gets
the rendered values, the contract gets the denotation.  All generators are deterministic functions of (tier, seed).
"""

from __future__ import annotations

import itertools
import random
from typing import Any

KINDS = ["wdbi", "rtcl", "iocbi", "rmba", "wmba", "dtcread", "dtcclear", "dtcctl", "reset", "ping", "vin",
         "dddiid", "dddimem", "dddiclear"]
CHECK_KINDS = {"rtcl", "iocbi", "rmba", "wmba", "dddiid", "dddimem", "dddiclear"}
DEFAULT_SESSION = {k: 1 for k in KINDS}
DEFAULT_SESSION.update({"ping": 0, "vin": 0})
IOCP_NAMES = ["return-control-to-ecu", "reset-to-default", "freeze-current-state", "short-term-adjustment",
              "without-control-parameter"]
POS, NEG31, NEG22, NEG33, SIL = ["pos"], ["neg", 0x31], ["neg", 0x22], ["neg", 0x33], ["sil"]
ANSWERS = [POS, NEG31, NEG22, SIL]
NRCS = [0x10, 0x11, 0x12, 0x13, 0x22, 0x24, 0x31, 0x33, 0x35, 0x72, 0x7E, 0x7F]


def canon(n: int) -> list[int]:
    return list(n.to_bytes((n.bit_length() + 7) // 8, "big")) if n > 0 else []


def uncanon(b: list[int]) -> int:
    return int.from_bytes(bytes(b), "big")


def spell(n: int, style: int) -> Any:
    return [hex(n), str(n), f"0x{n:X}", n][style % 4]


def hx(b: list[int], style: int) -> str:
    s = bytes(b).hex()
    return s.upper() if style % 2 else s


# ------------------------------------------------------------------ denotations
def o_wdbi(did: int, data: list[int], inv: str = "") -> dict[str, Any]:
    return {"valid": inv == "", "did": did, "data": data, "inv": inv}


def o_rtcl(rid: int, start: bool, stop: bool, results: bool, sp: list[int] = [], tp: list[int] = [], rp: list[int] = [],
           sdelay: int = 0, rdelay: int = 0) -> dict[str, Any]:
    return {"valid": start or stop or results, "rid": rid, "start": start, "stop": stop, "results": results,
            "sp": sp, "tp": tp, "rp": rp, "sdelay": sdelay, "rdelay": rdelay}


def o_iocbi(did: int, cp: int, state: list[int] = [], mask: list[int] = []) -> dict[str, Any]:
    return {"valid": True, "did": did, "cp": cp, "state": state, "mask": mask}


def o_rmba(addr: int, size: int) -> dict[str, Any]:
    return {"valid": True, "addr": canon(addr), "size": canon(size)}


def o_wmba(addr: int, data: list[int], inv: str = "") -> dict[str, Any]:
    return {"valid": inv == "", "addr": canon(addr), "data": data, "inv": inv}


def o_dtcread(mask: int, flags: int = 0) -> dict[str, Any]:
    return {"valid": True, "mask": mask, "flags": flags}


def o_dtcclear(group: int) -> dict[str, Any]:
    return {"valid": 0 <= group <= 0xFFFFFF, "group": group}


def o_dtcctl(stop: bool, resume: bool) -> dict[str, Any]:
    return {"valid": True, "stop": stop, "resume": resume}


def o_reset(sf: int) -> dict[str, Any]:
    return {"valid": True, "sf": sf}


def o_ping(count: int, interval: int, bg: bool = False, setup_ping: bool = False) -> dict[str, Any]:
    return {"valid": True, "count": count, "interval": interval, "bg": bg, "setup_ping": setup_ping}


def o_vin() -> dict[str, Any]:
    return {"valid": True}


def o_dddiid(did: int, src: list[list[int]]) -> dict[str, Any]:
    return {"valid": True, "did": did, "src": src}


def o_dddimem(did: int, src: list[tuple[int, int]], fmt: int = 0) -> dict[str, Any]:
    return {"valid": True, "did": did, "src": [[canon(a), canon(n)] for a, n in src], "fmt": fmt}


def o_dddiclear(did: int) -> dict[str, Any]:
    return {"valid": True, "did": did}


# ------------------------------------------------------------------ rendering
def render(kind: str, opt: dict[str, Any], session: int, style: int, omit_default: bool) -> dict[str, Any]:
    cfg: dict[str, Any] = {}

    def data_source(data: list[int], inv: str) -> None:
        if inv == "both":
            cfg["data"] = hx(data, style)
            cfg["data_file_hex"] = bytes(data).hex()
        elif inv == "neither":
            pass
        elif style % 4 == 3:
            cfg["data_file_hex"] = bytes(data).hex()
        else:
            cfg["data"] = hx(data, style)

    if kind == "wdbi":
        cfg["data_identifier"] = spell(opt["did"], style)
        data_source(opt["data"], opt.get("inv", ""))
    elif kind == "rtcl":
        cfg["routine_identifier"] = spell(opt["rid"], style)
        for k in ("start", "stop", "results"):
            if opt[k] or style % 2:
                cfg[k] = bool(opt[k])
        for k, o in (("start_parameters", "sp"), ("stop_parameters", "tp"), ("results_parameters", "rp")):
            if opt[o] or style % 3 == 0:
                cfg[k] = hx(opt[o], style)
        if opt["sdelay"]:
            cfg["stop_delay"] = opt["sdelay"] / 1000.0
        if opt["rdelay"]:
            cfg["results_delay"] = opt["rdelay"] / 1000.0
    elif kind == "iocbi":
        cfg["data_identifier"] = spell(opt["did"], style)
        cfg["control_parameter"] = IOCP_NAMES[opt["cp"]]
        if opt["state"] or style % 2:
            cfg["new_state"] = hx(opt["state"], style)
        if opt["mask"] or style % 3 == 0:
            cfg["control_enable_mask"] = hx(opt["mask"], style)
    elif kind == "rmba":
        cfg["address"] = spell(uncanon(opt["addr"]), style)
        cfg["length"] = spell(uncanon(opt["size"]), style + 1)
    elif kind == "wmba":
        cfg["address"] = spell(uncanon(opt["addr"]), style)
        data_source(opt["data"], opt.get("inv", ""))
    elif kind == "dtcread":
        if not (opt["mask"] == 0xFF and omit_default):
            cfg["mask"] = [f"{opt['mask']:x}", f"0x{opt['mask']:02X}", opt["mask"]][style % 3]
        fl = opt.get("flags", 0)
        cfg.update({k: True for i, k in enumerate(("show_legend", "show_failed", "show_uncompleted")) if fl >> i & 1})
    elif kind == "dtcclear":
        if not (opt["group"] == 0xFFFFFF and omit_default):
            cfg["group_of_dtc"] = [opt["group"], str(opt["group"])][style % 2]
    elif kind == "dtcctl":
        for k in ("stop", "resume"):
            if opt[k] or style % 2:
                cfg[k] = bool(opt[k])
    elif kind == "reset":
        if not (opt["sf"] == 1 and omit_default):
            cfg["subfunc"] = spell(opt["sf"], style)
    elif kind == "ping":
        if opt["count"]:
            cfg["count"] = spell(opt["count"], style)
        if not (opt["interval"] == 500 and omit_default):
            cfg["interval"] = opt["interval"] / 1000.0
        cfg["tester_present"] = bool(opt["bg"])
        cfg["ping"] = bool(opt.get("setup_ping", False))
    elif kind == "dddiid":
        cfg["data_identifier"] = spell(opt["did"], style)
        cfg["sources"] = [":".join(str(spell(v, style + i)) for i, v in enumerate(s)) for s in opt["src"]]
    elif kind == "dddimem":
        cfg["data_identifier"] = spell(opt["did"], style)
        cfg["sources"] = [f"{spell(uncanon(a), style)}:{spell(uncanon(n), style + 1)}" for a, n in opt["src"]]
        if opt["fmt"]:
            cfg["address_format"] = spell(opt["fmt"], style)
    elif kind == "dddiclear":
        if opt["did"] >= 0:
            cfg["data_identifier"] = spell(opt["did"], style)
    if session != 0 and not (session == DEFAULT_SESSION[kind] and omit_default):
        cfg["session"] = spell(session, style + 2)
    return cfg


def make_case(kind: str, opt: dict[str, Any], session: int, ecu: dict[str, Any], style: int, origin: str,
              omit_default: bool = True, extra: dict[str, Any] | None = None) -> dict[str, Any]:
    """session: the denotation (the option is omitted when it is the documented default and omit_default)."""
    e = dict(ecu)
    e.setdefault("sessions", [1, 2, 3])
    if kind == "ping":
        e["tp_subject"] = True
    if kind == "iocbi":
        e["iocp"] = opt["cp"] != 4
    if kind == "rmba" and uncanon(opt["size"]) > 0x1000:
        # the fake does not produce data records of megabytes: such reads are only answered negatively / not at all
        neg = lambda c: ["neg", 0x31] if c[0] == "pos" else c  # noqa: E731
        e["answers"] = [neg(c) for c in e.get("answers", [])]
        e["default"] = neg(e.get("default", ["pos"]))
    cfg = render(kind, opt, session, style, omit_default)
    if kind != "ping" and style % 5 == 0:
        cfg["tester_present"] = False
    cfg.update(extra or {})
    case = {"kind": kind, "ecu": e, "cfg": cfg, "den": {"opt": opt, "session": session}, "origin": origin}
    if kind == "ping" and opt["count"] == 0:
        case["horizon"] = 20.0
    return case


def env(session: int, dsc: str = "ok", sread: str = "ok", answers: list[Any] | None = None,
        default: list[Any] | None = None) -> dict[str, Any]:
    e: dict[str, Any] = {"sread": sread, "answers": answers or [], "default": default or ["pos"]}
    if session not in (0, 1):
        e["dsc"] = {str(session): dsc}
    return e


ENVS_FULL = [(d, r) for d in ("ok", "neg", "nostick") for r in ("ok", "unsup", "sil")]


def envs_for(kind: str, session: int, full: bool) -> list[tuple[str, str]]:
    """(dsc mode, session read mode) pairs that make a difference for this kind / session."""
    reads = ("ok", "unsup", "sil") if kind in CHECK_KINDS else ("ok",)
    if session in (0, 1):
        return [("ok", r) for r in reads] if full else [("ok", "ok")]
    if not full:
        return [("ok", "ok")]
    return [(d, r) for d in ("ok", "neg", "nostick") for r in reads]


def scripts(n: int, alphabet: list[list[Any]] = ANSWERS) -> list[list[list[Any]]]:
    return [list(c) for c in itertools.product(alphabet, repeat=n)]


DTC_DATA = ["", "12345608abcdef40", "00000150" "ffffff00" "0a0b0c2f" "7fffff10" "80000080"]


def _nreq(kind: str, opt: dict[str, Any]) -> int:
    if kind == "rtcl":
        return int(opt["start"]) + int(opt["stop"]) + int(opt["results"])
    if kind == "ping":
        return opt["count"]
    return 1


def grid(tier: str) -> list[dict[str, Any]]:
    """The option grid of every command x sessions x ECU treatments of the session x every answer script."""
    out: list[dict[str, Any]] = []
    n = 0

    def add(kind: str, opt: dict[str, Any], sessions: list[int], full_env: bool, full_ans: bool,
            alphabet: list[list[Any]] = ANSWERS, extra: dict[str, Any] | None = None) -> None:
        nonlocal n
        k = max(1, _nreq(kind, opt)) if opt["valid"] else 1
        for s in sessions:
            for (d, r) in envs_for(kind, s, full_env):
                benign = (d, r) == ("ok", "ok")
                scr = scripts(k, alphabet) if (full_ans and benign) else [[POS] * k, [NEG31] + [POS] * (k - 1)]
                if not opt["valid"]:
                    scr = [[POS]]
                for a in scr:
                    ans = [list(x) for x in a]
                    if kind in ("rtcl", "iocbi", "rmba", "vin"):
                        ans = [["pos", ["cafe", "", "00", "a1b2c3d4e5"][(n + i) % 4]] if x[0] == "pos" else x
                               for i, x in enumerate(ans)]
                    if kind == "dtcread":
                        ans = [["pos", DTC_DATA[(n + i) % 3]] if x[0] == "pos" else x for i, x in enumerate(ans)]
                    out.append(make_case(kind, opt, s, env(s, d, r, ans), n, f"grid-{kind}", omit_default=bool(n % 2),
                                         extra=extra))
                    n += 1

    thorough = tier == "thorough"
    S_ALL = [1, 2, 3]
    # wdbi
    for i, (did, data) in enumerate([(0x0000, [0xAA]), (0x0102, [0] * 8), (0xF190, list(b"WVWZZZ1JZXW000001")), (0xFFFF, [1, 2, 3])]):
        add("wdbi", o_wdbi(did, data), S_ALL, i < 2 or thorough, True)
    add("wdbi", o_wdbi(0x1234, [1], "both"), [1, 2], False, False)
    add("wdbi", o_wdbi(0x1234, [], "neither"), [1, 2], False, False)
    # rtcl: every combination of the three tasks
    for i, (st, sp, rs) in enumerate(itertools.product((False, True), repeat=3)):
        opt = o_rtcl([0x0203, 0xFF00, 0x1234][i % 3], st, sp, rs, sp=[0xAA] if i % 2 else [], tp=[1, 2] if i % 3 == 0 else [],
                     rp=[0xFF] if i % 4 == 1 else [], sdelay=[0, 1500, 250][i % 3], rdelay=[0, 0, 3000][i % 3])
        add("rtcl", opt, [1, 2] + ([3] if thorough else []), i in (3, 7) or thorough, True)
    add("rtcl", o_rtcl(0x0203, True, True, True, sdelay=12000), [2], False, False, extra={"tester_present": False})
    # iocbi
    for cp in range(5):
        for v in range(2):
            state = ([0x10 + cp, v] if v else [0xAA]) if cp >= 3 else []
            mask = [0xFF, 0x0F] if (v and cp != 4) else []
            add("iocbi", o_iocbi([0x0102, 0xF1A0][v], cp, state, mask), [1, 2] + ([3] if thorough else []),
                (cp, v) in ((3, 1), (4, 0)) or thorough, True)
    add("iocbi", o_iocbi(0x0102, 4, [0xAA], [0xFF]), [1], False, False)     # mask without control parameter: unspecified
    add("iocbi", o_iocbi(0x0102, 3, [], []), [2], False, False)             # adjustment without a state: unspecified
    add("iocbi", o_iocbi(0x0102, 1, [0x55], []), [1], False, False)         # state for a parameter that takes none
    # rmba / wmba
    for i, (addr, size) in enumerate([(0x1000, 4), (0, 1), (0xFFFFFFFF, 0x100), (0x123456789A, 0x10000), (0x20000000, 0x40),
                                      (0xFF, 0xFF)]):
        add("rmba", o_rmba(addr, size), [1, 2] + ([3] if thorough else []), i < 2 or thorough, True)
    for i, (addr, data) in enumerate([(0x1000, [0xAA, 0xBB, 0xCC]), (0, [0]), (0xFFFFFFFF, [0x5A] * 0x100),
                                      (0x0123456789, list(range(16))), (0x8000, [0xFF])]):
        add("wmba", o_wmba(addr, data), [1, 2] + ([3] if thorough else []), i < 2 or thorough, True)
    add("wmba", o_wmba(0x1000, [1], "both"), [1, 2], False, False)
    add("wmba", o_wmba(0x1000, [], "neither"), [1], False, False)
    # dtc read: answers incl. responseTooLong (per-bit requests follow)
    dtc_alpha = [POS, NEG31, ["neg", 0x14], SIL]
    for i, (mask, flags) in enumerate([(0xFF, 0), (0x0F, 7), (0x01, 2), (0x00, 0), (0x0B, 4), (0x80, 1)]):
        for s in S_ALL:
            for d in (("ok", "neg", "nostick") if s != 1 else ("ok",)):
                k = 1 + bin(mask).count("1")
                scr: list[list[list[Any]]] = [[a] for a in dtc_alpha]
                if bin(mask).count("1") <= 3:
                    scr += [[["neg", 0x14]] + list(c) for c in itertools.product(dtc_alpha, repeat=k - 1)]
                else:
                    scr += [[["neg", 0x14]] + [POS] * 3 + [NEG31], [["neg", 0x14]] + [POS, ["neg", 0x14]] + [POS] * 6]
                if d != "ok":
                    scr = scr[:2]
                for a in scr:
                    ans = [["pos", DTC_DATA[(n + j) % 3]] if x[0] == "pos" else list(x) for j, x in enumerate(a)]
                    out.append(make_case("dtcread", o_dtcread(mask, flags), s, env(s, d, "ok", ans), n, "grid-dtcread",
                                         omit_default=bool(n % 2)))
                    n += 1
    # dtc clear / control
    for g in (0xFFFFFF, 0x000000, 0x123456, 0xFFFF33, 0x1000000, -1):
        add("dtcclear", o_dtcclear(g), S_ALL, True, True)
    for st, rs in itertools.product((False, True), repeat=2):
        add("dtcctl", o_dtcctl(st, rs), S_ALL, True, True)
    # ecu reset
    for sf in (1, 2, 3, 4, 0x60):
        add("reset", o_reset(sf), S_ALL, True, True)
    # ping: every answer script; with / without the background worker and the setup ping
    ping_alpha = [POS, NEG31, SIL]
    for i, (count, interval) in enumerate([(1, 500), (2, 100), (3, 1000), (3, 2500), (5, 500)]):
        add("ping", o_ping(count, interval), [0, 2, 3] if i < 3 else [0], i < 2, count <= 3, alphabet=ping_alpha)
    add("ping", o_ping(3, 1000, bg=True), [0, 2], False, False)
    add("ping", o_ping(2, 500, bg=False, setup_ping=True), [0, 3], False, False)
    add("ping", o_ping(0, 1000), [0], False, False)   # no --count: pings until interrupted
    # vin
    add("vin", o_vin(), [0], False, True, alphabet=[POS, NEG31, NEG33, SIL, ["neg", 0x11]])
    # dddi
    for i, src in enumerate([[[0x1234, 1, 2]], [[0x1234, 1, 2], [0x5678, 3, 4]], [[0xF190, 1, 17], [0, 255, 1], [0xFFFF, 2, 255]]]):
        add("dddiid", o_dddiid([0xF300, 0xF2FF, 0xF3FF][i], src), [1, 2] + ([3] if thorough else []), i == 1 or thorough, True)
    for i, (src, fmt) in enumerate([([(0x1234, 1)], 0), ([(0x1234, 1), (0x567890, 300)], 0), ([(0x1000, 4)], 0x24),
                                    ([(0x12, 0x34), (0x56, 0x78)], 0x11), ([(0xFFFFFFFF, 0xFFFF)], 0x44)]):
        add("dddimem", o_dddimem(0xF301, src, fmt), [1, 2] + ([3] if thorough else []), i == 1 or thorough, True)
    add("dddiclear", o_dddiclear(0xF300), S_ALL, True, True)
    add("dddiclear", o_dddiclear(-1), [1, 2], False, True)      # "Omit if all dynamically defined identifiers should be cleared"
    return out


def seeded(tier: str, seed: int) -> list[dict[str, Any]]:
    """Random options x random ECU treatment x random answers."""
    rng = random.Random(4100 + seed)
    out = []

    def rb(k: int) -> list[int]:
        return [rng.randrange(256) for _ in range(k)]

    def did() -> int:
        return rng.choice([0, 1, 0xFF, 0x100, 0x0102, 0x1234, 0xF186, 0xF190, 0xF300, 0xFFFE, 0xFFFF, rng.randrange(0x10000)])

    def addr() -> int:
        return rng.choice([0, 1, 0xFF, 0x100, 0xFFFF, 0x10000, 0x20000000, 0xFFFFFFFF, 0x100000000, rng.randrange(1 << rng.choice([8, 16, 24, 32, 40]))])

    for n in range(200 if tier == "quick" else 12000):
        kind = rng.choice(KINDS)
        if kind == "wdbi":
            opt = o_wdbi(did(), rb(rng.choice([1, 1, 2, 8, 40])))
        elif kind == "rtcl":
            fl = rng.randrange(1, 8)
            opt = o_rtcl(did(), bool(fl & 1), bool(fl & 2), bool(fl & 4), rb(rng.choice([0, 0, 1, 5])), rb(rng.choice([0, 0, 2])),
                         rb(rng.choice([0, 0, 3])), rng.choice([0, 0, 100, 1000, 2500]), rng.choice([0, 0, 500, 4000]))
        elif kind == "iocbi":
            cp = rng.randrange(5)
            opt = o_iocbi(did(), cp, rb(rng.choice([1, 2, 4])) if cp >= 3 else [], rb(rng.choice([0, 1, 2])) if cp != 4 else [])
        elif kind == "rmba":
            opt = o_rmba(addr(), rng.choice([1, 2, 4, 0x10, 0xFF, 0x100, 0xFFFF, 0x10000, 0xFFFFFF]))
        elif kind == "wmba":
            opt = o_wmba(addr(), rb(rng.choice([1, 2, 4, 16, 255, 256, 300])))
        elif kind == "dtcread":
            opt = o_dtcread(rng.choice([0xFF, 0xFF, 0x0F, 0xF0, 0x55, 0x08, rng.randrange(256)]), rng.randrange(8))
        elif kind == "dtcclear":
            opt = o_dtcclear(rng.choice([0xFFFFFF, 0, 0xFFFF33, rng.randrange(1 << 24), 1 << 24, (1 << 24) + 5]))
        elif kind == "dtcctl":
            opt = o_dtcctl(rng.random() < 0.5, rng.random() < 0.5)
        elif kind == "reset":
            opt = o_reset(rng.choice([1, 1, 2, 3, 4, 5, 0x40, 0x7F]))
        elif kind == "ping":
            bg = rng.random() < 0.3
            opt = o_ping(rng.choice([1, 2, 3, 4, 7]), rng.choice([100, 500, 500, 1000, 3000, 11000]), bg, rng.random() < 0.3)
        elif kind == "vin":
            opt = o_vin()
        elif kind == "dddiid":
            opt = o_dddiid(did(), [[did(), rng.randrange(1, 256), rng.randrange(1, 256)] for _ in range(rng.choice([1, 1, 2, 4]))])
        elif kind == "dddimem":
            opt = o_dddimem(did(), [(addr(), rng.choice([1, 4, 0x100, 0xFFFF])) for _ in range(rng.choice([1, 2, 3]))], 0)
        else:
            opt = o_dddiclear(did())
        s = rng.choice([DEFAULT_SESSION[kind]] * 2 + [1, 2, 2, 3, 3]) if kind != "vin" else 0
        d = rng.choice(["ok", "ok", "ok", "neg", "nostick"])
        r = rng.choice(["ok", "ok", "ok", "unsup", "sil"])

        def cls() -> list[Any]:
            x = rng.random()
            if x < 0.5:
                if kind in ("rtcl", "iocbi", "rmba", "vin"):
                    return ["pos", bytes(rb(rng.choice([0, 1, 2, 4, 17, 64]))).hex()]
                if kind == "dtcread":
                    k = rng.choice([0, 1, 2, 6])
                    recs = {rng.randrange(1 << 24): rng.choice([0, 1, 8, 0x2F, 0x40, 0x50, 0xFF]) for _ in range(k)}
                    return ["pos", "".join(f"{dtc:06x}{st:02x}" for dtc, st in recs.items())]
                return ["pos"]
            if x < 0.85:
                return ["neg", rng.choice(NRCS + ([0x14] * 6 if kind == "dtcread" else []))]
            return ["sil"]

        ans = [cls() for _ in range(rng.choice([1, 2, 4, 10]))]
        default = cls()
        if default[0] == "sil" and rng.random() < 0.7:
            default = ["pos"]
        extra: dict[str, Any] = {}
        if rng.random() < 0.15 and kind != "ping":
            extra["max_retries"] = rng.choice([0, 1])
        out.append(make_case(kind, opt, s, env(s, d, r, ans, default), rng.randrange(1000), "seeded",
                             omit_default=rng.random() < 0.5, extra=extra))
    return out
