"""C13 [E4-only-that-rule]: "disabling one behaviour ONLY removes that rule" -- the twin family.

Two default rules read their premise off the model of the virtual ECU: the service rule (sns: "the active session does
not offer this service") and the sub-function rule (sfns: "... not this sub-function").  With such a rule switched off
a request it would have rejected runs on through the remaining rules and ends in the service-specific stage, whose
replies the statement leaves open -- so the contract could not tell a handler that answered from a handler that was
never reached (generalReject is just another negative reply of that service).

Metamorphic ground truth, taken from the same code: every history of this family is sent, in lock-step, to

  * the ECU under test                    RandomUDSServer(seed, parameters), behaviour switches B, and
  * its TWIN                              a second RandomUDSServer(seed, parameters) with the same switches B whose
                                          model offers every service and every sub-function in every session the
                                          history visits (`twin_model`); DiagnosticSessionControl is left alone so that
                                          both walk through the same sessions.

For the twin the premise of sns / sfns is false, so its answer is what the REMAINING stages say to that request in that
state.  If the rule under test is really gone, the ECU under test gives the same kind of answer (nothing / positive /
negative with the same response code) and ends in the same session and security state.  Nothing about the handlers is
written down here: whatever they answer is fine, as long as it does not depend on the premise of a disabled rule.

Nothing here judges.  Each step of the ECU under test carries the twin's exchange (`t`), the trace names the twin's
model (`m2`); TLC decides (VEcuContract!StepVerdictE4T via Trace_VEcu) and also reports how many steps it really
compared (`W` lines, guard against a vacuous family).  The twin's own history is validated as an ordinary trace too.

Covered: every service gallia has a request class for (the ones with a handler in RandomUDSServer and the ones
without: "nobody answers" must then be the twin's outcome as well) x several well-formed requests each, plus short /
malformed ones for the switch sets without the format rule x switch subsets (service rule off; sub-function rule off;
both off; both + one more off; everything off) x sessions (default, other sessions of the model, a session outside the
model where a session change to it is accepted) x state histories (seed -> key -> unlocked, ECUReset from a non-default
session / unlocked state, with and without the suppress bit).
"""

from __future__ import annotations

import copy
import random
from collections.abc import Callable
from typing import Any

import gallia.services.uds.server as srv
from gallia.services.uds.core.constants import UDSIsoServices

from harness import c13_conn as K
from harness import c13_corpus as C
from harness import c13_ecu as E
from harness.common import Machinery

ORIGIN = "only-that-rule"
_TWIN_KEYS = ("q", "n", "p", "pk", "pn", "pb", "vk", "vn", "vb", "x", "s", "l")


# ----------------------------------------------------------------------------
# corpus: hands `m2` / `t` to Trace_VEcu, reads the `W` lines back


class TwinCorpus(K.ConnCorpus):
    def _batch(self, traces: list[dict[str, Any]]) -> dict[str, Any]:
        b = super()._batch(traces)
        for tj, t in zip(b["traces"], traces):
            if "m2" not in t:
                continue
            tj["m2"] = t["m2"]
            for sj, s in zip(tj["steps"], t["steps"]):
                if "t" in s:
                    sj["t"] = {k: s["t"][k] for k in _TWIN_KEYS + ("bs", "bl")}
        return b

    def add_twinned(self, *, m: int, m2: int, B: frozenset[str] | set[str], steps: list[dict[str, Any]],
                    meta: dict[str, Any]) -> None:
        n0 = len(self.traces)
        self.add(m=m, B=B, mode="E", steps=steps, meta=meta)
        for t in self.traces[n0:]:
            t["m2"] = m2

    def twin_counts(self) -> dict[int, int]:
        """trace id -> number of steps TLC compared with their twin (latest validation wins)."""
        out: dict[int, int] = {}
        for res in self.tlc_results:
            for p in res.prints:
                if isinstance(p, list) and len(p) == 3 and p[0] == "W":
                    out[int(p[1])] = int(p[2])
        return out


# ----------------------------------------------------------------------------
# the twin


def _shape(m: C.Model, sid: int) -> bool | None:
    """Has the service a sub-function byte?  From the model where it knows the service, else from the lists the other
    families use (ISO 14229-1); None: unknown shape, the twin leaves that service alone."""
    for svcs in m.values():
        if sid in svcs:
            return svcs[sid] is not None
    if sid in C.SF_SIDS:
        return True
    if sid in C.PLAIN_SIDS:
        return False
    return None


def twin_model(m: C.Model, extra_sessions: list[int]) -> C.Model:
    """The model that differs from `m` only in the premises of the two model-reading rules: every session (and every
    session in `extra_sessions`) offers every service with every sub-function.  DiagnosticSessionControl keeps its
    entry (its sub-functions are the session graph)."""
    sids = sorted({sid for svcs in m.values() for sid in svcs} | set(C.SF_SIDS) | set(C.PLAIN_SIDS))
    out: C.Model = {}
    for sess in sorted(set(m) | set(extra_sessions)):
        row: dict[int, list[int] | None] = {}
        here = m.get(sess, {})
        for sid in sids:
            if sid == E.SID_DSC:
                if sid in here:
                    row[sid] = list(here[sid] or [])
                continue
            sf = _shape(m, sid)
            if sf is None:
                if sid in here:
                    row[sid] = copy.deepcopy(here[sid])
                continue
            row[sid] = list(range(0x80)) if sf else None
        out[sess] = row
    return out


async def make_twin(seed: int, params: str, m2: C.Model, cls: Any = None, original: Any = None) -> Any:
    """A second ECU with the same seed and parameters whose model is `m2` (assigned the way spec -> code assigns the MC
    model).  Read back through the public `supported_services`; the ECU under test must not notice."""
    t = await E.make_server(seed, params)
    if cls is not None:
        t = cls(t.seed, t.randomness_parameters)
    t.services = {sess: {UDSIsoServices(sid): (None if subs is None else list(subs)) for sid, subs in svcs.items()}
                  for sess, svcs in m2.items()}
    if E.model_of(t) != m2:
        raise Machinery("twin: the assigned model is not what supported_services reports")
    if original is not None and E.model_of(original[0]) != original[1]:
        raise Machinery("twin: giving the twin its model changed the model of the ECU under test")
    return t


# ----------------------------------------------------------------------------
# requests

_POOL: dict[int, list[bytes]] | None = None


def request_pool() -> dict[int, list[bytes]]:
    """Well-formed requests per service id, from gallia's own request classes (boundary values + a fixed random
    sample): every service that has a request class, whether the virtual ECU has a handler for it or not."""
    global _POOL
    if _POOL is None:
        pool: dict[int, list[bytes]] = {}
        seen: set[bytes] = set()
        for pdu in C.structured_boundary() + C.structured_valid(random.Random(20241), 1500):
            if pdu in seen or len(pdu) > 40:
                continue
            seen.add(pdu)
            pool.setdefault(pdu[0], []).append(pdu)
        _POOL = pool
    return _POOL


def pick_requests(sid: int, rnd: random.Random, k: int) -> list[bytes]:
    """k requests of one service, spread over its sub-functions / identifiers (suppress bit set and unset)."""
    cand = request_pool().get(sid, [])
    by2: dict[int, list[bytes]] = {}
    for pdu in cand:
        by2.setdefault(pdu[1] if len(pdu) > 1 else -1, []).append(pdu)
    keys = sorted(by2)
    rnd.shuffle(keys)
    out: list[bytes] = []
    i = 0
    while len(out) < k and keys:
        grp = by2[keys[i % len(keys)]]
        out.append(grp.pop(rnd.randrange(len(grp))))
        if not grp:
            keys.remove(keys[i % len(keys)])
        else:
            i += 1
    return out


def twin_items(m: C.Model, session: int, B: frozenset[str], rnd: random.Random, quick: bool) -> list[C.Item]:
    """The history for one (model, home session, switch set)."""
    here = m.get(session, {})
    k = 3 if quick else 5
    out: list[C.Item] = []
    sids = sorted(request_pool())
    for sid in sids:
        if sid == E.SID_DSC:
            continue
        subs = here.get(sid)
        reqs = pick_requests(sid, rnd, 3 * k)
        if sid in here and subs is None:
            reqs = reqs[:1]            # offered plain service: no rule premise holds, one control request
        elif sid in here:
            # offered sub-function service: the requests whose sub-function is NOT offered first (sfns premise)
            reqs = sorted(reqs, key=lambda r: (len(r) > 1 and (r[1] & 0x7F) in (subs or [])))[:k]
        else:
            reqs = reqs[:k]
        out += reqs
        if "fmt" not in B or "msf" not in B:
            out += [bytes([sid]), bytes([sid, 0x01, 0x02]), bytes([sid, 0x81])]
    # the session identifier and the keep-alive, which have default rules of their own behind the model-reading ones
    out += [bytes([E.SID_RDBI, 0xF1, 0x86]), bytes([E.SID_TP, 0x00]), bytes([E.SID_TP, 0x80])]
    # state histories: unlock (seed -> key), then ECUReset; wrong key / key without seed; suppress-bit variants.
    # Levels the session offers (if any) and levels it does not.
    sa = [x for x in (here.get(E.SID_SA) or []) if x % 2 == 1]
    levels = sa[:1] + [x for x in (0x01, 0x11, 0x7D) if x not in sa][: (1 if quick else 3)]
    resets = [0x01, 0x03] if quick else [0x01, 0x02, 0x03, 0x04, 0x05, 0x20]
    for j, sub in enumerate(levels):
        out += [bytes([E.SID_SA, sub + 1, 0xAA]), bytes([E.SID_SA, sub]), C.wrong_key(sub + 1),
                bytes([E.SID_SA, sub]), C.right_key(sub + 1), bytes([E.SID_RDBI, 0xF1, 0x86]),
                bytes([E.SID_ER, resets[j % len(resets)]]),
                bytes([E.SID_SA, sub | 0x80]), C.right_key(sub + 1, suppress=True),
                bytes([E.SID_ER, resets[(j + 1) % len(resets)] | 0x80]), bytes([E.SID_RDBI, 0xF1, 0x86])]
    for r in resets:
        out += [bytes([E.SID_ER, r]), bytes([E.SID_RDBI, 0xF1, 0x86])]
    return out


def switch_sets(quick: bool, rnd: random.Random) -> list[frozenset[str]]:
    """Switch subsets with at least one model-reading rule off."""
    A = E.ALL
    sets = [A - {"sns"}, A - {"sfns"}, A - {"sns", "sfns"},
            A - {"sns", "sfns", "fmt"}, A - {"sns", "sfns", "none"}, A - {"sns", "sfns", "sc", "sr", "tp"},
            frozenset()]
    if not quick:
        sets += [A - {"sns", "msf"}, A - {"sns", "fmt"}, A - {"sfns", "fmt"}, A - {"sns", "sfns", "msf"},
                 A - {"sns", "sfns", "supp"}, A - {"sns", "sfns", "msf", "fmt"}, frozenset({"sc"}),
                 frozenset({"sc", "none"}), frozenset({"sc", "supp"})]
        others = [r for r in E.RULES if r not in ("sns", "sfns")]
        for _ in range(6):
            keep = frozenset(r for r in others if rnd.random() < 0.6)
            sets.append(keep | (frozenset({"sfns"}) if rnd.random() < 0.25 else frozenset()))
    seen: set[frozenset[str]] = set()
    return [b for b in sets if not (b in seen or seen.add(b))]  # type: ignore[func-returns-value]


def home_sessions(m: C.Model, B: frozenset[str], quick: bool) -> list[int]:
    """Default session, other sessions of the model (fewest services first: most premises hold there), and one session
    outside the model when the switch set lets a session change to it through."""
    out = [1]
    if "sc" in B:
        others = sorted((s for s in m if s != 1), key=lambda s: (len(m[s]), s))
        if "sfns" in B:
            others = [s for s in others if E.nav_path(m, 1, s) is not None]
        out += others[: (1 if quick else 2)]
        if "sfns" not in B and "sns" not in B:
            out.append(C.unoffered_session(m))
    return out


# ----------------------------------------------------------------------------
# driving both in lock-step


def _path(m: C.Model, B: frozenset[str], cur: int, home: int) -> list[int]:
    if "sfns" not in B:
        return [home]                      # any session change is let through
    path = E.nav_path(m, cur, home)
    if path is None:
        path = [1] + (E.nav_path(m, 1, home) or [])
    return path[:4]


async def run_pair(po: E.Probe, pt: E.Probe, m: C.Model, B: frozenset[str], items: list[C.Item], home: int
                   ) -> tuple[list[dict[str, Any]], list[dict[str, Any]]]:
    """Send the same history to the ECU under test and to its twin.  Returns (steps of the ECU under test, each with the
    twin's exchange under `t`; steps of the twin)."""
    so: list[dict[str, Any]] = []
    st: list[dict[str, Any]] = []

    async def both(a: bytes, b: bytes) -> None:
        before = pt.state()
        x = await po.exchange(a)
        y = await pt.exchange(b)
        x["t"] = dict({k: y[k] for k in _TWIN_KEYS}, bs=before[0], bl=before[1], hex=y["hex"], rhex=y["rhex"])
        so.append(x)
        st.append(y)

    can_move = "sc" in B
    for it in items:
        if can_move and po.state()[0] != home:
            for t in _path(m, B, po.state()[0], home):
                await both(bytes([E.SID_DSC, t]), bytes([E.SID_DSC, t]))
        if callable(it):
            a, b = it(po), it(pt)
            if a is None or b is None:
                continue
        else:
            a = b = it
        await both(a, b)
    return so, st


async def drive_twins(tier: str, seed: int, corpus: TwinCorpus, models: list[tuple[int, str, Any, C.Model]],
                      info: dict[str, Any]) -> None:
    quick = tier == "quick"
    rnd = random.Random(seed * 7919 + 13)
    sets = switch_sets(quick, rnd)
    stats: dict[str, Any] = {"pairs": 0, "steps": 0, "switch_sets": [sorted(E.ALL - b) for b in sets], "homes": {}}
    per_params: dict[str, int] = {}
    for sd, pa, s, m in models:
        per_params[pa] = per_params.get(pa, 0) + 1
        if per_params[pa] > 4:             # thorough: 4 seeds per parameter set, but many more switch sets / requests
            continue
        extra = [C.unoffered_session(m)]
        m2 = twin_model(m, extra)
        twin = await make_twin(sd, pa, m2, original=(s, m))
        po, pt = E.Probe(s), E.Probe(twin)
        mi, mi2 = corpus.model_index(m), corpus.model_index(m2)
        for B in sets:
            for home in home_sessions(m, B, quick):
                rseed = rnd.randrange(1 << 30)
                items = twin_items(m, home, B, random.Random(rseed), quick)
                po.fresh(B)
                pt.fresh(B)
                so, st = await run_pair(po, pt, m, B, items, home)
                meta = {"seed": sd, "params": pa, "origin": ORIGIN, "home": home, "rseed": rseed, "quick": quick}
                corpus.add_twinned(m=mi, m2=mi2, B=B, steps=so, meta=meta)
                corpus.add(m=mi2, B=B, mode="E", steps=st, meta=dict(meta, origin=ORIGIN + "/twin"))
                stats["pairs"] += 1
                stats["steps"] += len(so)
                kind = "default" if home == 1 else ("model" if home in m else "outside-model")
                stats["homes"][kind] = stats["homes"].get(kind, 0) + 1
    info["only_that_rule"] = stats


# ----------------------------------------------------------------------------
# self-test of the family: variants of the server


def variant_servers() -> dict[str, tuple[Any, str | None]]:
    """name -> (class, label prefix TLC must give / None: a legitimate alternative that must be accepted)."""
    R = srv.RandomUDSServer
    from gallia.services.uds.core import service
    from gallia.services.uds.core.constants import UDSErrorCodes

    class StageChecksService(R):       # the service-specific stage re-checks the premise of the service rule
        async def respond_after_default(self, request: Any) -> Any:
            if request.service_id not in self.supported_services.get(self.state.session, {}):
                return service.NegativeResponse(request.service_id, UDSErrorCodes.conditionsNotCorrect)
            return await super().respond_after_default(request)

    class StageChecksSubFunction(R):   # ... the premise of the sub-function rule (sub-function services only)
        async def respond_after_default(self, request: Any) -> Any:
            subs = self.supported_services.get(self.state.session, {}).get(request.service_id)
            if subs is not None and len(request.pdu) >= 2 and request.pdu[1] % 0x80 not in subs \
                    and request.service_id != UDSIsoServices.RoutineControl:
                return None
            return await super().respond_after_default(request)

    class ResetOnlyWhereOffered(R):    # the reply is the handler's, the state change asks the model again
        async def update_state(self, request: Any, response: Any) -> None:
            if isinstance(response, service.ECUResetResponse) \
                    and request.service_id not in self.supported_services.get(self.state.session, {}):
                return
            await super().update_state(request, response)

    class TableDispatch(R):            # legitimate: other structure of the dispatcher, other seed length
        async def respond_after_default(self, request: Any) -> Any:
            table: dict[int, Callable[[Any], Any]] = {
                0x11: self.ecu_reset, 0x27: self.security_access, 0x31: self.routine_control,
                0x22: self.read_data_by_identifier, 0x2E: self.write_data_by_identifier,
                0x2F: self.input_output_control_by_identifier, 0x14: self.clear_diagnostic_information}
            if isinstance(request, service.RawRequest) and request.service_id != 0x19:
                return None
            if request.service_id == 0x19:
                return self.read_dtc_information(request)
            h = table.get(request.service_id)
            return None if h is None else h(request)

        def security_access(self, request: Any) -> Any:
            if isinstance(request, service.RequestSeedRequest):
                return service.SecurityAccessResponse(request.security_access_type, bytes([7, 7, 7, 7]))
            return super().security_access(request)

    return {"stage-checks-service": (StageChecksService, "E4/only-that-rule/"),
            "stage-checks-sub-function": (StageChecksSubFunction, "E4/only-that-rule/"),
            "reset-only-where-offered": (ResetOnlyWhereOffered, "E4/only-that-rule/disabled-rule-still-decides-the-state"),
            "table-dispatch": (TableDispatch, None)}


async def drive_variants(seed: int, corpus: TwinCorpus) -> dict[str, list[dict[str, Any]]]:
    """The twin family over server variants (added to `corpus`; the caller validates and removes them)."""
    out: dict[str, list[dict[str, Any]]] = {}
    pa = "default"
    rnd_fixed, rnd_own = random.Random(5), random.Random(seed + 5)
    # the run's own model plus two fixed ones: whether a variant CAN show (e.g. a session that does not offer ECUReset)
    # depends on the model, the self-test must not depend on the run's seed (found with VERIF_SEED=1)
    for sd in dict.fromkeys((1, 35, 1 + 17 * seed)):
        rnd = rnd_fixed if sd in (1, 35) else rnd_own
        base = await E.make_server(sd, pa)
        m = E.model_of(base)
        m2 = twin_model(m, [C.unoffered_session(m)])
        mi, mi2 = corpus.model_index(m), corpus.model_index(m2)
        for name, (cls, _prefix) in variant_servers().items():
            o = cls(base.seed, base.randomness_parameters)
            o.services = base.services
            t = await make_twin(sd, pa, m2, cls=cls)
            po, pt = E.Probe(o), E.Probe(t)
            n0 = len(corpus.traces)
            for B in (E.ALL - {"sns"}, E.ALL - {"sfns"}, E.ALL - {"sns", "sfns"}, frozenset()):
                for home in home_sessions(m, B, True):
                    po.fresh(B)
                    pt.fresh(B)
                    so, _st = await run_pair(po, pt, m, B, twin_items(m, home, B, rnd, True), home)
                    corpus.add_twinned(m=mi, m2=mi2, B=B, steps=so, meta={"origin": "twin-variant", "variant": name})
            out.setdefault(name, []).extend(corpus.traces[n0:])
    return out


async def replay_case(meta: dict[str, Any], B: set[str]) -> tuple[str, list[tuple[int, str]], list[dict[str, Any]]]:
    """Re-run the whole pair of histories of a recorded violation (deterministic in meta)."""
    s = await E.make_server(meta["seed"], meta["params"])
    m = E.model_of(s)
    m2 = twin_model(m, [C.unoffered_session(m)])
    twin = await make_twin(meta["seed"], meta["params"], m2, original=(s, m))
    po, pt = E.Probe(s), E.Probe(twin)
    fb = frozenset(B)
    po.fresh(fb)
    pt.fresh(fb)
    items = twin_items(m, meta["home"], fb, random.Random(meta["rseed"]), bool(meta.get("quick", True)))
    so, _st = await run_pair(po, pt, m, fb, items, meta["home"])
    c = TwinCorpus()
    c.add_twinned(m=c.model_index(m), m2=c.model_index(m2), B=fb, steps=so, meta={})
    res = c.validate(parallel=1)
    bad = sorted((t["meta"]["offset"] + i, lab) for t in c.traces for i, lab in res[t["id"]][1])
    verdict = "ok" if not bad else bad[0][1]
    return verdict, bad, so
