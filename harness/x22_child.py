"""X22 child process: ONE gallia run, started like the CLI starts it

    python -m harness.x22_child <spec.json>      ==      sys.exit(asyncio.run(cmd.entry_point()))

The command is a small AsyncScript whose setup / main / teardown (and, through harness/x22_hook.py, its pre- and
post-hook) are CHECKPOINTS: at every checkpoint the run appends `B <phase>` and `at <phase>` to the shared event
file (O_APPEND, one JSON line per record, CLOCK_MONOTONIC microseconds), waits for one token byte on its control
FIFO, and appends `E <phase>` when it leaves the phase.  All records are written INSIDE the phases, i.e. inside
what entry_point() guards with the lock file.  Nothing in here judges anything.

spec (JSON): p, events, ctl, base_ns, lock (path | null), hooks, how, n, mainat, prefail, hook_py, python, cwd
  how     how main ends after its token: ret | exc | sysexit | kbd | setup-exc | teardown-exc
  mainat  (informative) where the driver lets the run rest inside setup/main/teardown
"""

from __future__ import annotations

import asyncio
import json
import logging
import os
import signal
import sys
import time
from pathlib import Path
from typing import Any

SPEC: dict[str, Any] = {}
EV_FD = -1
CTL_FD = -1


def emit(k: str, ph: str = "", n: int = 0, msg: str | None = None) -> None:
    rec: dict[str, Any] = {"p": SPEC["p"], "k": k, "ph": ph, "n": n,
                           "t": (time.monotonic_ns() - SPEC["base_ns"]) // 1000}
    if msg is not None:
        rec["msg"] = msg[:160]
    os.write(EV_FD, (json.dumps(rec) + "\n").encode())


async def token() -> None:
    """One byte from the control FIFO; cancellable (no worker thread)."""
    loop = asyncio.get_running_loop()
    fut: asyncio.Future[None] = loop.create_future()

    def ready() -> None:
        try:
            b = os.read(CTL_FD, 1)
        except BlockingIOError:
            return
        if b and not fut.done():
            fut.set_result(None)

    loop.add_reader(CTL_FD, ready)
    try:
        await fut
    finally:
        loop.remove_reader(CTL_FD)


async def checkpoint(ph: str) -> None:
    emit("B", ph)
    try:
        emit("at", ph)
        await token()
    finally:
        emit("E", ph)


class Forward(logging.Handler):
    """Every log record of gallia goes to the event file (level and text; the driver only encodes them)."""

    def __init__(self) -> None:
        super().__init__(level=1)

    def emit(self, record: logging.LogRecord) -> None:
        try:
            m = record.getMessage()
        except Exception:  # noqa: BLE001
            m = str(record.msg)
        try:
            emit("log", "", int(record.levelno), m)
        except OSError:
            pass


def build() -> Any:
    from gallia.command.base import AsyncScript, AsyncScriptConfig

    class X22Script(AsyncScript):
        CONFIG_TYPE = AsyncScriptConfig

        async def setup(self) -> None:
            await checkpoint("setup")
            if SPEC["how"] == "setup-exc":
                raise RuntimeError("injected by X22 (setup)")

        async def main(self) -> None:
            await checkpoint("main")
            how = SPEC["how"]
            if how == "exc":
                raise RuntimeError("injected by X22 (main)")
            if how == "sysexit":
                sys.exit(int(SPEC.get("n", 3)))
            if how == "kbd":
                raise KeyboardInterrupt

        async def teardown(self) -> None:
            await checkpoint("teardown")
            if SPEC["how"] == "teardown-exc":
                raise RuntimeError("injected by X22 (teardown)")

    hook = f"{SPEC['python']} -I -S {SPEC['hook_py']} {SPEC['events']} {SPEC['p']} {{v}} {SPEC['ctl']} {SPEC['base_ns']} {{rc}}"
    cfg = AsyncScriptConfig(
        lock_file=Path(SPEC["lock"]) if SPEC.get("lock") is not None else None,
        hooks=bool(SPEC.get("hooks", True)),
        pre_hook=hook.format(v="pre", rc=1 if SPEC.get("prefail") else 0),
        post_hook=hook.format(v="post", rc=0),
    )
    return X22Script(cfg)


def main() -> None:
    global SPEC, EV_FD, CTL_FD
    SPEC = json.loads(Path(sys.argv[1]).read_text())
    EV_FD = os.open(SPEC["events"], os.O_WRONLY | os.O_APPEND)
    CTL_FD = os.open(SPEC["ctl"], os.O_RDONLY | os.O_NONBLOCK)
    if SPEC.get("cwd"):
        os.chdir(SPEC["cwd"])
    # the state an interactive shell starts gallia in (a non-interactive parent may have SIGINT ignored)
    signal.signal(signal.SIGINT, signal.default_int_handler)
    lg = logging.getLogger("gallia")
    lg.setLevel(1)
    lg.addHandler(Forward())
    lg.propagate = False
    logging.getLogger("asyncio").addHandler(logging.NullHandler())
    logging.getLogger("asyncio").propagate = False
    cmd = build()
    sys.stderr = open(os.devnull, "w")  # tracebacks of what escapes are not needed on the console
    emit("try")
    try:
        rc = asyncio.run(cmd.entry_point())
    except BaseException as e:  # noqa: BLE001
        emit("ret", "raised", 0, type(e).__name__)
        raise  # the interpreter ends the process the way it does for the CLI
    emit("ret", "ret", int(rc) if isinstance(rc, int) else -1)
    # the process lives on for a moment after entry_point() has returned (a script that embeds a command,
    # `gallia script rerun`): one more checkpoint, OUTSIDE the guarded section
    emit("at", "after")
    while True:
        try:
            if os.read(CTL_FD, 1):
                break
        except BlockingIOError:
            time.sleep(0.005)
    sys.exit(rc)


if __name__ == "__main__":
    main()
