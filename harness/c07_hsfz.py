"""HSFZ gateway fake + helpers for C07 (and C08). Frames are encoded/decoded here
independently of gallia: 6-byte header (u32 length, u16 control word), then for
length >= 2 a 2-byte address header (src, dst) and the payload."""

from __future__ import annotations

import asyncio
import struct
from typing import Any

from harness.c06_doip import Recorder, classify_exc
from harness.streams import Listener, Wire, patched_connections, settle
from harness.vloop import now_ms

TESTER = 0xF4
ECU = 0x10
OTHER = 0x22
CW = {"Data": 0x01, "Ack": 0x02, "Klemme15": 0x10, "Vin": 0x11, "Alive": 0x12, "StatusInquiry": 0x13}
ERR_WORDS = [0x40, 0x41, 0x42, 0x43, 0x44, 0x45, 0xFF]


def enc(frame: dict[str, Any]) -> bytes:
    k = frame["k"]
    if k in ("Data", "Ack"):
        p = bytes([frame["src"], frame["dst"]]) + bytes(frame["d"])
        return struct.pack("!IH", len(p), CW[k]) + p
    if k == "Alive":
        p = bytes(frame.get("d", []))
        return struct.pack("!IH", len(p), CW["Alive"]) + p
    if k == "Short":  # an Ack/Data control word without address header: 0 or 1 payload bytes
        p = bytes(frame["d"])
        assert len(p) < 2
        return struct.pack("!IH", len(p), frame["cw"]) + p
    if k in ("Status", "Err"):
        p = bytes(frame.get("d", []))
        return struct.pack("!IH", len(p), frame["cw"]) + p
    raise ValueError(k)


def dec_out(buf: bytes) -> tuple[list[dict[str, Any]], bytes]:
    out = []
    while len(buf) >= 6:
        ln, cw = struct.unpack("!IH", buf[:6])
        if len(buf) < 6 + ln:
            break
        p = buf[6:6 + ln]
        buf = buf[6 + ln:]
        f: dict[str, Any] = {"k": "Other", "src": -1, "dst": -1, "d": [], "cw": cw}
        if cw == CW["Data"] and ln >= 2:
            f.update(k="Data", src=p[0], dst=p[1], d=list(p[2:]))
        elif cw == CW["Alive"] and ln == 2:
            f.update(k="AliveResp", src=struct.unpack("!H", p)[0])
        out.append(f)
    return out, buf


def gw_frame(name: str, req: bytes, n: int) -> dict[str, Any]:
    base: dict[str, Any] = {"src": -1, "dst": -1, "d": [], "cw": 0}
    if name == "Ack":
        return {**base, "k": "Ack", "src": TESTER, "dst": ECU, "d": list(req[:5]), "cw": 2}
    if name == "AckFull":  # echoes more than five bytes: not the acknowledgement the statement describes
        return {**base, "k": "Ack", "src": TESTER, "dst": ECU, "d": list(req) + [0xAA] * max(0, 6 - len(req)), "cw": 2}
    if name == "AckPrefix":  # echoes fewer bytes than the first five (a proper prefix of them): not the acknowledgement
        return {**base, "k": "Ack", "src": TESTER, "dst": ECU, "d": list(req[:max(1, min(len(req), 5) - 1)]), "cw": 2}
    if name == "AckEmpty":   # tester's address pair, nothing echoed
        return {**base, "k": "Ack", "src": TESTER, "dst": ECU, "d": [], "cw": 2}
    if name == "AckWrongPair":
        return {**base, "k": "Ack", "src": ECU, "dst": TESTER, "d": list(req[:5]), "cw": 2}
    if name == "AckOtherPair":
        return {**base, "k": "Ack", "src": OTHER, "dst": ECU, "d": list(req[:5]), "cw": 2}
    if name == "AckWrongData":
        return {**base, "k": "Ack", "src": TESTER, "dst": ECU, "d": [x ^ 0xFF for x in req[:5]] or [0x55], "cw": 2}
    if name == "DataUs":
        return {**base, "k": "Data", "src": ECU, "dst": TESTER, "d": [0x62, 0xF1, n & 0xFF], "cw": 1}
    if name == "DataOther":
        return {**base, "k": "Data", "src": OTHER, "dst": TESTER, "d": [0x7F, 0x00, n & 0xFF], "cw": 1}
    if name == "DataOtherDst":
        return {**base, "k": "Data", "src": ECU, "dst": OTHER, "d": [0x7F, 0x01, n & 0xFF], "cw": 1}
    if name == "DataUsLong":      # a long message for us (splits beyond the first few bytes of the payload)
        return {**base, "k": "Data", "src": ECU, "dst": TESTER, "d": [0x62, 0xF1, n & 0xFF] + [(7 * i + n) & 0xFF for i in range(61)], "cw": 1}
    if name == "DataOtherLong":   # a long frame the client must skip; its payload reads like a complete frame for us
        inner = enc({"k": "Data", "src": ECU, "dst": TESTER, "d": [0x62, 0xF1, 0xEE], "cw": 1})
        return {**base, "k": "Data", "src": OTHER, "dst": TESTER, "d": list(inner) * 3, "cw": 1}
    if name == "AliveLong":       # alive check with a long payload
        return {**base, "k": "Alive", "cw": 0x12, "d": list(enc({"k": "Data", "src": ECU, "dst": TESTER, "d": [0x62, 0xF1, 0xEF], "cw": 1}))}
    if name == "Alive":
        return {**base, "k": "Alive", "cw": 0x12}
    if name == "AliveWithPayload":
        return {**base, "k": "Alive", "cw": 0x12, "d": [0x00, TESTER]}
    if name == "ShortAck":
        return {**base, "k": "Short", "cw": 2, "d": [TESTER]}
    if name == "ShortData":
        return {**base, "k": "Short", "cw": 1, "d": []}
    if name == "Klemme15":
        return {**base, "k": "Status", "cw": 0x10}
    if name.startswith("Err"):
        cw = int(name[3:], 16) if len(name) > 3 else 0x40
        return {**base, "k": "Err", "cw": cw}
    raise ValueError(name)


class Gateway:
    """The HSFZ gateway.  It stays reachable for the whole scenario (`reachable()`): every TCP connection the
    client opens is accepted, gets its own Wire and is served like the first one; every connection (`Conn(t, n)`),
    everything written on it (`Out(..., c=n)`), everything fed to it (`Feed(..., c=n)`), its end (`Closed(t, c=n)`)
    and a cut by the gateway (`Cut(t, c, how)`) is recorded with the connection number.  Frames are fed to the
    newest connection."""

    def __init__(self, rec: Recorder) -> None:
        self.rec = rec
        self.listener = Listener()
        self.listener.on_accept = self._accepted
        self.wire: Wire | None = None
        self.conn_no: dict[int, int] = {}   # id(wire) -> connection number (1 = the one of connect())
        self.outbufs: dict[int, bytes] = {}
        self.on_data_out: Any = None
        self.last_req = b""
        self.nfeeds = 0
        self._q: list[list[Any]] = []
        self._waiting = False

    def reachable(self) -> Any:
        """Context manager: while active, the transport's connection attempts reach this gateway."""
        return patched_connections(self.listener)

    def _accepted(self, w: Wire) -> None:
        n = len(self.listener.wires)
        self.wire = w
        self.conn_no[id(w)] = n
        self.outbufs[n] = b""
        self.rec.add("Conn", n=n)
        w.on_out = lambda data, n=n: self._on_out(n, data)
        w.on_client_close = lambda n=n: self.rec.add("Closed", c=n)

    def _on_out(self, n: int, data: bytes) -> None:
        frames, self.outbufs[n] = dec_out(self.outbufs[n] + data)
        for f in frames:
            self.rec.add("Out", f=f, c=n)
            if f["k"] == "Data":
                self.last_req = bytes(f["d"])
                if self.on_data_out is not None:
                    self.on_data_out(f)

    def cut(self, how: str = "eof") -> None:
        """The gateway ends the newest connection (FIN behind what was sent so far)."""
        w = self.wire
        if w is None or w.eof_sent or w.broken or w.writer.is_closing():
            return
        self.rec.add("Cut", c=self.conn_no[id(w)], how=how)
        w.eof()

    def feed_named(self, name: str, cut: int | None = None, gap_ms: int = 0) -> None:
        self.nfeeds += 1
        if name == "EOF":
            self.cut("eof")
            return
        self.feed(gw_frame(name, self.last_req, self.nfeeds), cut=cut, gap_ms=gap_ms)

    def feed(self, frame: dict[str, Any], cut: int | None = None, gap_ms: int = 0) -> None:
        raw = enc(frame)
        f = {"k": frame["k"], "src": frame.get("src", -1), "dst": frame.get("dst", -1),
             "d": list(frame.get("d", [])), "cw": frame.get("cw", 0)}
        w = self.wire  # a frame (all its pieces) travels on the connection that is the newest one now
        assert w is not None
        if cut is None or cut <= 0 or cut >= len(raw):
            self._q.append([raw, f, None, w])
        else:
            self._q.append([raw[:cut], None, None, w])
            self._q.append([raw[cut:], f, gap_ms, w])
        self._pump()

    def _pump(self) -> None:
        if self._waiting:
            return
        while self._q:
            chunk, f, gap, w = self._q[0]
            if gap is not None:
                self._q[0][2] = None
                self._waiting = True
                loop = asyncio.get_running_loop()

                def resume() -> None:
                    self._waiting = False
                    self._pump()

                if gap <= 0:
                    loop.call_soon(resume)
                else:
                    loop.call_later(gap / 1000.0, resume)
                return
            self._q.pop(0)
            if w.feed(chunk) and f is not None:
                self.rec.add("Feed", f=f, c=self.conn_no[id(w)])


def uri(ack_ms: int | None = None, tester: int = TESTER, ecu: int = ECU) -> str:
    q = f"src_addr={tester:#x}&dst_addr={ecu:#x}"
    if ack_ms is not None:
        q += f"&ack_timeout={ack_ms}"
    return f"hsfz://127.0.0.1:6801?{q}"


async def connect(rec: Recorder, gw: Gateway, target: str) -> Any:
    from gallia.transports.hsfz import HSFZTransport

    with patched_connections(gw.listener):
        return await HSFZTransport.connect(target)


async def do_op(rec: Recorder, tr: Any, op: str, tmo: float | None, data: bytes) -> str:
    rec.add("Begin", op=op, tmo=-1 if tmo is None else int(round(tmo * 1000)), d=list(data))
    res, d = "ok", []
    try:
        if op == "write":
            await tr.write(data, timeout=tmo)
        else:
            d = list(await tr.read(timeout=tmo))
    except asyncio.CancelledError:
        rec.add("End", op=op, res="Other", d=[])
        raise
    except BaseException as e:  # noqa: BLE001
        # a closed HSFZ connection reports OSError(EBADFD): an I/O error, counted as connection error
        # (kept apart from ConnectionError: the operation that SURFACES a failure must raise a ConnectionError)
        if isinstance(e, ConnectionError):
            res = "ConnErr"
        elif isinstance(e, OSError) and not isinstance(e, TimeoutError):
            res = "OsErr"
        else:
            res = classify_exc(e)
    rec.add("End", op=op, res=res, d=d)
    return res


async def drain_and_finish(rec: Recorder, tr: Any, *, drain: bool = True) -> None:
    await asyncio.sleep(0.25)  # past the grace period of every alive check
    drained = False
    if drain and tr is not None:
        for _ in range(64):
            r = await do_op(rec, tr, "read", 0.3, b"")
            if r != "ok":
                drained = True
                break
    rec.add("Final", drained=drained)
    if tr is not None:
        try:
            await tr.close()
        except Exception:  # noqa: BLE001
            pass
    await settle()


def cfg(ack_ms: int = 1000, tester: int = TESTER, ecu: int = ECU) -> dict[str, int]:
    return {"tester": tester, "ecu": ecu, "ackTime": ack_ms}
