"""X15: runs ONE case against the real gallia power-supply code and returns the recorded trace.

kinds
  driver  callers share one HMC804 object (constructed directly or through HMC804.connect) and call its methods
  ps      PowerSupply.connect(PowerSupplyURI) from a URI string, callers run power_cycle(sleep, callback) /
          driver methods on the shared object
  cli     gallia.cli.netzteil.main() in-process with an argument vector (asyncio.run -> virtual-time loop)
  setup   Scanner.run() of a do-nothing scanner configured from an argument vector (--power-supply, --power-cycle,
          --power-cycle-sleep): setup() power-cycles, then connects the target
  ecu     ECU.power_cycle(sleep) of a real ECU object over a scripted transport with a real PowerSupply
  rnd     the RND320 driver writing to a FIFO standing in for the serial device node (real threads)
Only asyncio.open_connection is replaced (dispatching on the port: instrument / scan target).
"""

from __future__ import annotations

import asyncio
import contextlib
import io
import math
import os
import shutil
import sys
import tempfile
from typing import Any

from harness import vloop
from harness.streams import Wire
from harness.x15_scpi import CALL, Instrument, Rec

INSTR_HOST, INSTR_PORT = "192.0.2.5", 5025
TARGET = "tcp-lines://127.0.0.1:20162"
HORIZON = 600.0


class Net:
    """asyncio.open_connection replacement: port 5025 -> instrument, anything else -> the scan target."""

    def __init__(self, rec: Rec, inst: Instrument) -> None:
        self.rec, self.inst = rec, inst
        self.target_wires: list[Wire] = []

    async def open(self, host: Any = None, port: Any = None, *a: Any, **kw: Any) -> Any:
        if port == INSTR_PORT:
            return await self.inst.open(host, port)
        await asyncio.sleep(0)
        w = Wire()
        self.target_wires.append(w)
        self.rec.add("Target", id=CALL.get())
        return w.reader, w.writer


@contextlib.contextmanager
def patched(net: Net) -> Any:
    orig = asyncio.open_connection
    asyncio.open_connection = net.open  # type: ignore[assignment]
    try:
        yield
    finally:
        asyncio.open_connection = orig  # type: ignore[assignment]


def _micro(x: Any) -> int:
    if isinstance(x, bool):
        return int(x)
    if isinstance(x, (int, float)):
        if isinstance(x, float) and not math.isfinite(x):
            return -1
        v = round(x * 1_000_000)
        return int(max(-2, min(v, 2_000_000_000)))
    return -2


def _lag(env: dict[str, Any]) -> int:
    return int(env.get("lat", 0)) + 8 * int(env.get("proc", 0)) + 1


class Calls:
    def __init__(self, rec: Rec) -> None:
        self.rec = rec
        self.n = 0

    def begin(self, op: str, attr: str = "", ch: int = 0, v: int = 0, x: list[int] | None = None) -> int:
        self.n += 1
        CALL.set(self.n)
        self.rec.add("Call", id=self.n, a=op, k=attr, ch=ch, v=v, x=list(x or []))
        return self.n

    def end(self, cid: int, ok: bool, v: int = 0, exc: BaseException | None = None) -> None:
        self.rec.add("Ret", id=cid, ok=ok, v=v, k="" if exc is None else type(exc).__name__)


async def _driver_op(calls: Calls, drv: Any, op: dict[str, Any]) -> None:
    kind, attr, ch, v = op["op"], op.get("attr", ""), int(op.get("ch", 0)), int(op.get("v", 0))
    decl = op.get("decl", {})
    cid = calls.begin(kind, decl.get("attr", attr), int(decl.get("ch", ch)), v)
    try:
        if kind == "ident":
            res: Any = await drv.get_ident()
            out = 0
        elif kind == "probe":
            res = await drv.probe()
            out = 0
        elif kind == "set":
            if attr == "master":
                await drv.set_master(bool(v))
            elif attr == "out":
                await drv.set_output(ch, bool(v))
            elif attr == "volt":
                await drv.set_voltage(ch, v / 1_000_000)
            elif attr == "curr":
                await drv.set_current(ch, v / 1_000_000)
            else:
                raise AssertionError(attr)
            out = 0
        elif kind == "get":
            if attr == "master":
                res = await drv.get_master()
            elif attr == "out":
                res = await drv.get_output(ch)
            elif attr == "volt":
                res = await drv.get_voltage(ch)
            elif attr == "curr":
                res = await drv.get_current(ch)
            else:
                raise AssertionError(attr)
            out = _micro(res) if attr in ("volt", "curr") else (int(res) if isinstance(res, bool) else -2)
        else:
            raise AssertionError(kind)
    except asyncio.CancelledError:
        raise
    except AssertionError:
        raise
    except Exception as ex:  # noqa: BLE001
        calls.end(cid, False, exc=ex)
        return
    calls.end(cid, True, out)


async def _cycle_op(calls: Calls, rec: Rec, ps: Any, chs: list[int], op: dict[str, Any]) -> None:
    sleep_ms = int(op.get("sleep", 2000))
    cb_ms = op.get("cb")
    cid = calls.begin("cycle", "", 1 if cb_ms is not None else 0, sleep_ms, chs)

    async def callback() -> None:
        rec.add("Cb", id=cid)
        try:
            await asyncio.sleep(int(cb_ms) / 1000.0)
            if op.get("cb_raises"):
                rec.add("Fault", id=cid, k="callback")  # the caller's own callback fails: not the power supply's doing
                raise RuntimeError("callback fails")
        finally:
            rec.add("CbEnd", id=cid)

    try:
        if op.get("default_sleep"):
            await ps.power_cycle(callback=callback if cb_ms is not None else None)
        elif cb_ms is not None:
            await ps.power_cycle(sleep_ms / 1000.0, callback)
        else:
            await ps.power_cycle(sleep_ms / 1000.0)
    except asyncio.CancelledError:
        raise
    except Exception as ex:  # noqa: BLE001
        calls.end(cid, False, exc=ex)
        return
    calls.end(cid, True)


async def _caller(calls: Calls, rec: Rec, spec: dict[str, Any], drv: Any, ps: Any, chs: list[int]) -> None:
    if spec.get("start"):
        await asyncio.sleep(int(spec["start"]) / 1000.0)
    for op in spec["ops"]:
        if op.get("gap"):
            await asyncio.sleep(int(op["gap"]) / 1000.0)
        if op["op"] == "cycle":
            await _cycle_op(calls, rec, ps, chs, op)
        else:
            await _driver_op(calls, drv, op)


async def _finish(rec: Rec, tasks: list[asyncio.Task[Any]], env: dict[str, Any], horizon: float | None = HORIZON) -> None:
    if tasks:
        _done, pending = await asyncio.wait(tasks, timeout=horizon)
        for t in pending:
            t.cancel()
        for t in tasks:
            if t.done() and not t.cancelled() and isinstance(t.exception(), AssertionError):
                raise t.exception()  # type: ignore[misc]
    await asyncio.sleep(5.0 + 2 * _lag(env) / 1000.0)
    rec.add("End")


def _header(case: dict[str, Any], inst0: dict[str, Any], tmo_ms: int) -> dict[str, Any]:
    env = case["env"]
    return {"n": int(env.get("n", 3)), "tmo": tmo_ms, "lag": _lag(env),
            "init": {"master": inst0["master"], "out": inst0["out"], "volt": inst0["volt"], "curr": inst0["curr"]}}


def _mk_inst(rec: Rec, case: dict[str, Any], tmo_ms: int, mutant: str | None) -> Instrument:
    env = case["env"]
    return Instrument(rec, n=int(env.get("n", 3)), init=env.get("init"), lat=int(env.get("lat", 0)),
                      proc=int(env.get("proc", 0)), fmt=env.get("fmt", "f3"), eol=env.get("eol", "\n"),
                      faults=env.get("faults"), tmo_ms=tmo_ms, mutant=mutant,
                      yield_drain=bool(env.get("yield_drain")))


# ------------------------------------------------------------------------------------------------ driver / ps
def _run_async(case: dict[str, Any], mutant: str | None) -> dict[str, Any]:
    from gallia.power_supply import PowerSupply
    from gallia.power_supply.devices.rs.hmc804 import HMC804
    from gallia.power_supply.uri import PowerSupplyURI
    from gallia.transports import TargetURI

    rec = Rec()
    calls = Calls(rec)
    kind = case["kind"]
    tmo_ms = int(round(float(case.get("tmo", 1.0)) * 1000))
    inst = _mk_inst(rec, case, tmo_ms, mutant)
    hdr = _header(case, inst.snapshot(), tmo_ms)
    net = Net(rec, inst)

    async def go() -> None:
        drv: Any = None
        ps: Any = None
        chs: list[int] = list(case.get("chs", []))
        if kind == "driver":
            uri = TargetURI(f"tcp://{INSTR_HOST}:{INSTR_PORT}?product_id=hmc804")
            if case.get("connect"):
                cid = calls.begin("connect")
                try:
                    drv = await HMC804.connect(uri, timeout=tmo_ms / 1000.0)
                    calls.end(cid, True)
                except Exception as ex:  # noqa: BLE001
                    calls.end(cid, False, exc=ex)
                    drv = HMC804(uri, tmo_ms / 1000.0)
            else:
                drv = HMC804(uri, tmo_ms / 1000.0)
        else:
            cid = calls.begin("connect")
            try:
                ps = await PowerSupply.connect(PowerSupplyURI(case["uri"]))
                calls.end(cid, True)
                drv = ps.driver
            except Exception as ex:  # noqa: BLE001
                calls.end(cid, False, exc=ex)
                await _finish(rec, [], case["env"])
                return
        tasks = [asyncio.ensure_future(_caller(calls, rec, spec, drv, ps, chs)) for spec in case["callers"]]
        await _finish(rec, tasks, case["env"])

    with patched(net):
        try:
            vloop.run(go())
        except vloop.BlockedForever:
            rec.add("End", t=rec.t_fallback)
    inst.flush()
    hdr["lag"] = max(inst.max_lag, 2 * inst.lat) + 1  # measured for this execution: a fact of the environment
    hdr["ev"] = rec.ev
    hdr["final"] = inst.snapshot()
    hdr["leaked"] = sum(1 for w in inst.wires if not w.writer.is_closing())
    return hdr


# ------------------------------------------------------------------------------------------------ cli
def _parse_stdout(attr: str, text: str) -> int:
    s = text.strip().split("\n")[-1].strip() if text.strip() else ""
    if attr in ("master", "out"):
        return {"True": 1, "False": 0}.get(s, -2)
    try:
        return _micro(float(s))
    except ValueError:
        return -2


def _run_cli(case: dict[str, Any], mutant: str | None) -> dict[str, Any]:
    import gallia.cli.gallia as gcli
    import gallia.cli.netzteil as nz

    rec = Rec()
    calls = Calls(rec)
    tmo_ms = 60_000
    inst = _mk_inst(rec, case, 1000, mutant)
    hdr = _header(case, inst.snapshot(), tmo_ms)
    net = Net(rec, inst)
    op = case["callers"][0]["ops"][0]
    out, err = io.StringIO(), io.StringIO()
    saved_argv, saved_run, saved_setup = sys.argv, asyncio.run, gcli.setup_logging
    saved_env = dict(os.environ)
    tmp = tempfile.mkdtemp(prefix="x15-")
    code: Any = None
    cid = calls.begin(op["op"], op.get("attr", ""), int(op.get("ch", 0)), int(op.get("v", 0)))

    def vrun(coro: Any, **_kw: Any) -> Any:
        async def wrapped() -> Any:
            try:
                return await coro
            finally:
                rec.now()
        return vloop.run(wrapped(), horizon=HORIZON)

    try:
        for k in list(os.environ):
            if k.startswith("GALLIA_"):
                del os.environ[k]
        os.environ["GALLIA_CONFIG"] = os.path.join(tmp, "none.toml")
        open(os.environ["GALLIA_CONFIG"], "w").close()
        sys.argv = ["netzteil", *case["argv"]]
        asyncio.run = vrun  # type: ignore[assignment]
        gcli.setup_logging = lambda *a, **k: None  # type: ignore[assignment]
        with patched(net), contextlib.redirect_stdout(out), contextlib.redirect_stderr(err):
            cwd = os.getcwd()
            os.chdir(tmp)
            try:
                nz.main()
            except SystemExit as e:
                code = e.code
            except vloop.BlockedForever:
                code = "blocked"
            except TimeoutError:
                code = "horizon"
            finally:
                os.chdir(cwd)
    finally:
        sys.argv, asyncio.run, gcli.setup_logging = saved_argv, saved_run, saved_setup  # type: ignore[assignment]
        os.environ.clear()
        os.environ.update(saved_env)
        shutil.rmtree(tmp, ignore_errors=True)
    inst.flush()
    if code in ("blocked", "horizon"):
        pass  # the call never returned
    else:
        ok = code in (0, None)
        v = _parse_stdout(op.get("attr", ""), out.getvalue()) if ok and op["op"] == "get" else 0
        rec.add("Ret", id=cid, ok=ok, v=v, k="" if ok else f"exit{code}")
    rec.add("End", t=rec.t_fallback + 5000)
    hdr["ev"] = rec.ev
    hdr["final"] = inst.snapshot()
    hdr["stdout"] = out.getvalue()[-200:]
    hdr["stderr"] = err.getvalue()[-300:]
    hdr["leaked"] = 0
    return hdr


def run_case(case: dict[str, Any], mutant: str | None = None) -> dict[str, Any]:
    kind = case["kind"]
    if kind in ("driver", "ps"):
        t = _run_async(case, mutant)
    elif kind == "cli":
        t = _run_cli(case, mutant)
    else:
        from harness import x15_more

        t = x15_more.run_case(case, mutant)
    t["origin"] = case.get("origin", "")
    return t
