"""C17 helpers: drive the REAL gallia log writer / PenlogReader / hr and record
sessions for TLC (spec/Trace_Penlog.tla).  Nothing in here judges the property:
it writes logs through gallia's handler, reads them back through gallia's
reader, names records (injective id mapping) and ships the sequences to TLC.
"""

from __future__ import annotations

import datetime as dt
import gzip
import io
import logging
import os
import random
import re
import shutil
import sys
import tempfile
import threading
import traceback
from concurrent.futures import ThreadPoolExecutor
from contextlib import contextmanager
from itertools import islice
from pathlib import Path
from typing import Any, Iterator

import zstandard
from gallia import log as glog
from gallia.cli import hr as ghr
from gallia.log import Loglevel, PenlogPriority, PenlogReader

from harness import tlc
from harness.common import Machinery

# ----------------------------------------------------------------------------
# levels: name -> (python level, syslog severity).  The severity numbers are
# RFC 3164's (the statement's "syslog-style priority"), not read from gallia.
LEVELS: dict[str, tuple[int, int]] = {
    "CRITICAL": (50, 2), "ERROR": (40, 3), "WARNING": (30, 4), "NOTICE": (25, 5),
    "INFO": (20, 6), "DEBUG": (10, 7), "TRACE": (5, 8),
}
PRIO_TO_LEVEL = {v[1]: k for k, v in LEVELS.items()}
PRIO_NAMES = {0: "emergency", 1: "alert", 2: "critical", 3: "error", 4: "warning", 5: "notice", 6: "info",
              7: "debug", 8: "trace"}
LOGGER = "c17writer"
MARK_L, MARK_R = "⟦", "⟧"   # every message carries ⟦k⟧ so that hr's text output can be named
MARK_RE = re.compile(MARK_L + r"(\d+)" + MARK_R)
EPOCH = dt.datetime(1970, 1, 1, tzinfo=dt.timezone.utc)

NASTY = ["\n", "\r", "\r\n", "\n\n", "\x00", "\x01", "\x07", "\x08", "\x0b", "\x0c", "\x1b[31m", "\x1b[0m", "\x1f",
         "\x7f", "\x80", "\x85", "\x9f", " ", " ", "﻿", "​", "‮", "�", "￿",
         "\U0001f600", "\U0010ffff", "\U00010000", "é", "é", "ß", "中文",
         "עברית", "<3>", "<", ">", "<8>{\"x\":1}", "\"", "\\", "\\n", "\\u0000", "{", "}",
         "%", "%s", "%d", "%%", "%(x)s", "\t", " ", "'", "퟿", "", "\n<6>{\"version\": 2}", "\\\n",
         "plain words", "0x7f 22 31", "[result]", ": "]


def rand_text(rnd: random.Random, maxlen: int = 40) -> str:
    out = []
    n = rnd.randint(0, maxlen)
    while len(out) < n:
        k = rnd.random()
        if k < 0.35:
            out.append(rnd.choice(NASTY))
        elif k < 0.6:
            out.append(chr(rnd.randint(0x20, 0x7E)))
        elif k < 0.75:
            out.append(chr(rnd.randint(0, 0x1F)))
        else:
            while True:
                cp = rnd.randint(0x80, 0x10FFFF)
                if not (0xD800 <= cp <= 0xDFFF) and chr(cp) not in (MARK_L, MARK_R):
                    break
            out.append(chr(cp))
    return "".join(out)


# ----------------------------------------------------------------------------
# log specifications (pure data, JSON-able => replayable)

def spec_enum(levels: tuple[str, ...] | list[str]) -> dict[str, Any]:
    """Small deterministic log: one record per given level name."""
    return {"kind": "enum", "levels": list(levels)}


def spec_random(seed: int, index: int, n: int, shape: str = "mixed") -> dict[str, Any]:
    return {"kind": "random", "seed": seed, "index": index, "n": n, "shape": shape}


def spec_joined(parts: list[dict[str, Any]]) -> dict[str, Any]:
    """The logs of several runs (each written by the real writer into its own file) joined into one file the way
    compressed logs are joined: `cat run1/log.json.zst run2/log.json.zst > both.json.zst`."""
    return {"kind": "joined", "parts": [dict(p) for p in parts]}


class ExcForLog(Exception):
    pass


def _raise_nested(msg: str, depth: int = 2) -> None:
    if depth == 0:
        raise ExcForLog(msg)
    _raise_nested(msg, depth - 1)


# ---- callers that log MUTABLE objects and go on changing them ------------------------------------
# "Whatever messages ... a run logs": what a call logs is the text its message/arguments render to AT THE
# TIME OF THE CALL (logger.info("found so far: %s", found); found.append(x)).  A run keeps such objects
# alive and changes them right after the call: a growing list of findings, a re-used receive buffer, a
# state dict, a status object with __str__, a ring buffer of the last frames.  The family below logs them
# as %-style arguments (%s, %r, among immutable arguments, as the mapping of %(name)s directives, nested in
# an immutable tuple) and as the message object itself, one object per call or ONE object for the whole run.

MUT_KINDS = ("list", "dict", "bytearray", "obj", "deque", "nested")
MUT_VIAS = {"list": ("arg-s", "arg-r", "mixed-last", "mixed-first", "msg"),
            "dict": ("mapping", "arg-s", "mixed-last", "msg"),
            "bytearray": ("arg-s", "arg-r", "mixed-first", "msg"),
            "obj": ("arg-s", "arg-r", "mixed-last", "msg"),
            "deque": ("arg-s", "mixed-first", "msg"),
            "nested": ("arg-s", "arg-r", "mixed-last")}
MUT_HOWS = {"list": ("append", "clear", "set0", "pop", "extend"),
            "dict": ("setitem", "newkey", "bump", "clear"),
            "bytearray": ("zero", "append", "set0", "clear"),
            "obj": ("state", "count"),
            "deque": ("append", "appendleft"),
            "nested": ("append", "clear")}


class Status:
    """What a scanner keeps about its target; rendered by __str__/__repr__ when it is logged."""

    def __init__(self, name: str, state: str, count: int) -> None:
        self.mark = ""
        self.name, self.state, self.count = name, state, count

    def __str__(self) -> str:
        return f"{self.mark}{self.name}: {self.state} after {self.count} requests"

    def __repr__(self) -> str:
        return f"Status({self.mark!r}, {self.name!r}, {self.state!r}, {self.count})"


def _mut_spec(rnd: random.Random) -> dict[str, Any]:
    kind = rnd.choice(MUT_KINDS)
    init: Any
    if kind in ("list", "nested"):
        init = [rnd.choice([rand_text(rnd, 6), f"0x{rnd.randint(0, 0xFFFF):04x}"]) for _ in range(rnd.randint(0, 4))]
    elif kind == "dict":
        init = {"session": rnd.randint(1, 0x7F), "retries": rnd.randint(0, 3), "name": rand_text(rnd, 6)}
    elif kind == "bytearray":
        init = rnd.randbytes(rnd.randint(0, 8)).hex()
    elif kind == "obj":
        init = [rand_text(rnd, 6), rnd.choice(["idle", "scanning", "locked\n"]), rnd.randint(0, 99)]
    else:
        init = [rnd.randint(0, 255) for _ in range(rnd.randint(0, 4))]
    return {"kind": kind, "via": rnd.choice(MUT_VIAS[kind]), "how": rnd.choice(MUT_HOWS[kind]),
            # slot k: the caller's ONE long-lived object of that kind (init counts at its first use only)
            "slot": MUT_KINDS.index(kind) if rnd.random() < 0.6 else None,
            "init": init, "val": rnd.choice([rand_text(rnd, 5) or "v", f"0x{rnd.randint(0, 0xFFFF):04x}"]),
            "num": rnd.randint(1, 250)}


def _mut_make(m: dict[str, Any]) -> Any:
    from collections import deque

    k, init = m["kind"], m["init"]
    if k == "list":
        return list(init)
    if k == "nested":
        return ("ecu", list(init))
    if k == "dict":
        return dict(init)
    if k == "bytearray":
        return bytearray.fromhex(init)
    if k == "obj":
        return Status(*init)
    return deque(init, maxlen=4)


def _mut_call(m: dict[str, Any], obj: Any, mark: str, text: str) -> tuple[Any, tuple[Any, ...]]:
    """(msg, args) of the log call."""
    via = m["via"]
    if isinstance(obj, Status):
        obj.mark = mark if via == "msg" else ""       # set BEFORE the call: part of what is logged
    if via == "msg":
        return obj, ()
    if via == "mapping":
        return f"{mark}{text} session %(session)d, retries %(retries)d of %(name)s", (obj,)
    if via == "arg-s":
        return f"{mark}{text} %s.", (obj,)
    if via == "arg-r":
        return f"{mark}{text} %r.", (obj,)
    if via == "mixed-last":
        return f"{mark}{text} %s|%d|%s", (m["val"], m["num"], obj)
    return f"{mark}{text} %r|%d|%s", (obj, m["num"], m["val"])


def _mut_after(m: dict[str, Any], obj: Any) -> None:
    """What the caller does with its object right after the log call returned."""
    k, how, val, num = m["kind"], m["how"], m["val"], m["num"]
    if k == "nested":
        obj = obj[1]
    if k in ("list", "nested"):
        if how == "clear" and obj:
            obj.clear()
        elif how == "set0" and obj:
            obj[0] = val + "'"
        elif how == "pop" and obj:
            obj.pop()
        elif how == "extend":
            obj.extend([val, val])
        else:
            obj.append(val)
    elif k == "dict":
        if how == "newkey":
            obj[val] = num
        elif how == "bump":
            obj["retries"] = obj.get("retries", 0) + 1
            obj["session"] = obj.get("session", 0) + 1
        elif how == "clear" and m["slot"] is None:
            obj.clear()
        else:
            obj["session"] = obj.get("session", 0) + num
            obj["name"] = val
    elif k == "bytearray":
        if how == "zero" and any(obj):
            obj[:] = bytes(len(obj))
        elif how == "set0" and obj:
            obj[0] ^= 0xFF
        elif how == "clear" and obj:
            obj.clear()
        else:
            obj.append(num)
    elif k == "obj":
        if how == "state":
            obj.state = f"{obj.state}>{val}"[-24:]
        obj.count += 1
    elif how == "appendleft":
        obj.appendleft(num)
    else:
        obj.append(num)


def _render_now(msg: Any, args: tuple[Any, ...]) -> str | None:
    try:
        rec = logging.LogRecord("x", 20, "x", 0, msg, args, None)
        return rec.getMessage()
    except Exception:  # noqa: BLE001
        return None


def records_of(spec: dict[str, Any]) -> list[dict[str, Any]]:
    """Expand a log spec into record specs:
    {level, msg, args, tags (None = absent), exc (None | message), dt_us (increment of the clock)}"""
    recs: list[dict[str, Any]] = []
    if spec["kind"] == "enum":
        fill = ["", "\n", " é\U0001f600", "\x00<3>", "\r\n\\n\""]
        for i, lv in enumerate(spec["levels"]):
            recs.append({"level": lv, "msg": f"r{fill[i % len(fill)]}", "args": None,
                         "tags": None if i % 2 == 0 else ["t\n", "ü"], "exc": None, "dt_us": 1 + 999 * (i % 3)})
        return recs
    rnd = random.Random(f"c17-{spec['seed']}-{spec['index']}")
    shape = spec.get("shape", "mixed")
    names = list(LEVELS)
    for i in range(spec["n"]):
        r: dict[str, Any] = {"level": rnd.choice(names), "args": None, "tags": None, "exc": None,
                             "dt_us": rnd.choice([0, 1, 1, 7, 999, 1000, 123456, 10**6, 86400 * 10**6 + 3])}
        if shape == "mutable":
            r["msg"] = rand_text(rnd, 10).replace("%", "")
            if rnd.random() < 0.75:
                r["mut"] = _mut_spec(rnd)
            elif rnd.random() < 0.5:       # control records: immutable arguments, nothing changes afterwards
                r["msg"] += " %s|%d|%r"
                r["args"] = [rand_text(rnd, 12), rnd.randint(-10**6, 10**6), rand_text(rnd, 4)]
            if rnd.random() < 0.25:
                r["tags"] = [rand_text(rnd, 6) for _ in range(rnd.randint(0, 2))]
            if rnd.random() < 0.08:
                r["exc"] = rand_text(rnd, 10)
        elif shape == "plain":
            r["msg"] = f"message {i}"
        elif shape == "long" and i % 3 == 0:
            unit = rand_text(rnd, 30) or "x"
            r["msg"] = (unit * (spec.get("longlen", 200000) // max(len(unit), 1) + 1))[: spec.get("longlen", 200000)]
        else:
            r["msg"] = rand_text(rnd)
            k = rnd.random()
            if k < 0.15:
                r["msg"] = rand_text(rnd, 10).replace("%", "") + " %s|%d|%r " + rand_text(rnd, 5).replace("%", "")
                r["args"] = [rand_text(rnd, 12), rnd.randint(-10**12, 10**12), rand_text(rnd, 4)]
            k = rnd.random()
            if k < 0.2:
                r["tags"] = []
            elif k < 0.35:
                r["tags"] = ["result"]
            elif k < 0.6:
                r["tags"] = [rand_text(rnd, 8) for _ in range(rnd.randint(1, 3))]
            if rnd.random() < 0.12:
                r["exc"] = rand_text(rnd, 15)
        recs.append(r)
    return recs


# ----------------------------------------------------------------------------
# the real writer

class _Capture(logging.Filter):
    """Logger-level filter: gives every record a deterministic clock value (no
    wall-clock dependence) and remembers what the run logged."""

    def __init__(self, base: float, incs: list[int]) -> None:
        super().__init__()
        self.us = 0
        self.base = base
        self.incs = incs
        self.k = 0
        self.seen: list[dict[str, Any]] = []

    def filter(self, record: logging.LogRecord) -> bool:
        self.us += self.incs[self.k] if self.k < len(self.incs) else 1
        self.k += 1
        record.created = self.base + self.us / 1e6
        record.msecs = (record.created - int(record.created)) * 1000
        inst = dt.datetime.fromtimestamp(record.created, tz=dt.timezone.utc)
        exc_line = None
        if record.exc_info and record.exc_info[0] is not None:
            exc_line = traceback.format_exception_only(record.exc_info[0], record.exc_info[1])[-1].rstrip("\n")
        tags = record.__dict__.get("tags")
        self.seen.append({
            "text": record.getMessage(),
            "level": logging.getLevelName(record.levelno),
            "tags": list(tags) if tags is not None else None,
            "ts_us": (inst - EPOCH) // dt.timedelta(microseconds=1),
            "exc_line": exc_line,
        })
        return True


class Written:
    """A log produced by the real writer + what was logged (ids 1..N in write order)."""

    _uids = 0

    def __init__(self, spec: dict[str, Any], zst: Path, seen: list[dict[str, Any]],
                 run_lens: list[int] | None = None) -> None:
        Written._uids += 1
        self.uid = Written._uids
        self.spec = spec
        self.zst = zst
        self.seen = seen
        self.n = len(seen)
        # number of records of every run whose log went into this file (one run unless the logs were joined)
        self.run_lens = list(run_lens) if run_lens is not None else [self.n]
        self.parts: list[Written] = []     # joined log: the runs
        self.log = [{"id": i + 1, "prio": LEVELS[w["level"]][1]} for i, w in enumerate(seen)]
        self._raw: bytes | None = None
        self.mut_changed = 0
        self.by_key: dict[Any, int] = {}
        for i, w in enumerate(seen):
            if w["exc_line"] is None:
                self.by_key.setdefault(self._key(w["text"], w["level"], w["tags"], w["ts_us"]), i + 1)
        self.fresh = self.n  # ids > N name records that match nothing written

    @staticmethod
    def _key(text: str, level: str, tags: list[str] | None, ts_us: int) -> Any:
        return (text, level, None if tags is None else tuple(tags), ts_us)

    @property
    def raw(self) -> bytes:
        if self._raw is None and self.parts:
            self._raw = b"".join(w.raw for w in self.parts)      # reference decoding, run by run
        if self._raw is None:
            with self.zst.open("rb") as f:
                # every frame of the file (reference decoder; a writer is free to end frames in between)
                self._raw = zstandard.ZstdDecompressor().stream_reader(f, read_across_frames=True).read()
        return self._raw

    def id_of(self, rec: Any) -> int:
        """Injective naming of a record read back: the id of the written record
        with the same (text, level, tags, timestamp, trace class), else a fresh id."""
        try:
            when = rec.datetime if rec.datetime.tzinfo is not None else rec.datetime.astimezone()
            ts = (when - EPOCH) // dt.timedelta(microseconds=1)
            level = PenlogPriority(rec.priority).name
            k = self._key(rec.data, level, rec.tags, ts)
            hit = self.by_key.get(k) if rec.stacktrace is None else None
            if hit is not None:
                return hit
            # records logged with exc_info: the statement does not say where the
            # trace text goes (message or stacktrace field) => accept both
            for i, w in enumerate(self.seen):
                if w["exc_line"] is None or w["ts_us"] != ts or w["level"] != level or w["tags"] != rec.tags:
                    continue
                rest = None
                if rec.data == w["text"]:
                    rest = rec.stacktrace or ""
                elif isinstance(rec.data, str) and rec.data.startswith(w["text"]):
                    rest = rec.data[len(w["text"]):] + (rec.stacktrace or "")
                if rest is not None and w["exc_line"] in rest:
                    return i + 1
        except Exception:  # noqa: BLE001
            pass
        self.fresh += 1
        return self.fresh


_LEVEL_METHOD = {"CRITICAL": "critical", "ERROR": "error", "WARNING": "warning", "NOTICE": "notice", "INFO": "info",
                 "DEBUG": "debug", "TRACE": "trace"}


def write_log(spec: dict[str, Any], directory: Path, name: str) -> Written:
    """Run the REAL writer: add_zst_log_handler -> logger calls -> remove_zst_log_handler."""
    if spec.get("kind") == "joined":
        return write_joined(spec, directory, name)
    recs = records_of(spec)
    id_base = int(spec.get("id_base", 0))    # markers of this run start at id_base + 1 (runs that are joined later)
    path = directory / f"{name}.zst"
    rnd = random.Random(f"clock-{name}-{spec}")
    base = float(rnd.choice([1_600_000_000, 1_759_290_000, 1_711_846_799, 2_000_000_000, 86_400 * 365]))
    cap = _Capture(base + rnd.randint(0, 999_999) / 1e6, [r["dt_us"] for r in recs])
    lg = glog.get_logger(LOGGER)
    lg.setLevel(1)
    lg.propagate = False
    prev_disable = logging.root.manager.disable
    logging.disable(logging.NOTSET)
    lg.addFilter(cap)
    gate = None
    real_emit = glog._ZstdFileHandler.emit
    if spec.get("slow_writer"):
        # the writer thread is held up (a slow / remote file system) while the run logs: nothing may be lost
        import threading

        gate = threading.Event()
        progress = {"i": 0, "done": False}

        def held_emit(self: Any, record: Any) -> None:
            gate.wait(60)
            real_emit(self, record)

        def release_when_the_run_waits() -> None:
            # a writer that is slow, not dead: it resumes when the run has finished logging -- or as soon as the run
            # itself stops making progress (a bounded hand-over queue makes the run wait for the writer)
            import time as _time

            last, since = -1, _time.monotonic()
            while not gate.is_set() and not progress["done"]:
                _time.sleep(0.05)
                if progress["i"] != last:
                    last, since = progress["i"], _time.monotonic()
                elif _time.monotonic() - since > 0.5:
                    gate.set()

        threading.Thread(target=release_when_the_run_waits, daemon=True).start()
        glog._ZstdFileHandler.emit = held_emit  # type: ignore[method-assign]
    handler = glog.add_zst_log_handler(LOGGER, path, Loglevel.TRACE)
    close_error = None
    intended: list[list[str] | None] = []
    shared: dict[tuple[str, ...], list[str]] = {}
    slots: dict[int, Any] = {}
    mut_changed = 0
    other_lg = other_handler = None
    other_span = (len(recs) // 3, max(len(recs) // 3 + 1, 2 * len(recs) // 3)) if spec.get("other_log") else None
    try:
        for i, r in enumerate(recs):
            if gate is not None:
                progress["i"] = i
            if other_span is not None and i == other_span[0]:
                # a second compressed log of the same process is opened while this one is in use (a command that
                # drives another command, two scanners in one script: gallia keeps a list of log file handlers)
                other_lg = glog.get_logger("c17other")
                other_lg.setLevel(1)
                other_lg.propagate = False
                other_handler = glog.add_zst_log_handler("c17other", directory / f"{name}.other.zst", Loglevel.TRACE)
            if other_span is not None and i == other_span[1] and other_handler is not None:
                glog.remove_zst_log_handler("c17other", other_handler)
                other_handler = None
            if other_handler is not None and other_lg is not None:
                other_lg.info(f"record of the other log {i} " + "x" * (37 * i % 500))
            mark = f"{MARK_L}{i + 1 + id_base}{MARK_R}"
            msg = f"{r['msg'][: len(r['msg']) // 2]}{mark}{r['msg'][len(r['msg']) // 2:]}"
            if r["args"] is not None and "%" in msg:
                # keep the marker out of the %-directives
                msg = f"{mark}{r['msg']}"
            kw: dict[str, Any] = {}
            intended.append(None if r["tags"] is None else list(r["tags"]))
            if r["tags"] is not None:
                if spec.get("share_tags"):
                    # the caller keeps ONE list object per tag set (a module-level constant) and passes it to every call
                    kw["extra"] = {"tags": shared.setdefault(tuple(r["tags"]), list(r["tags"]))}
                else:
                    kw["extra"] = {"tags": list(r["tags"])}
            fn = getattr(lg, _LEVEL_METHOD[r["level"]])
            if spec.get("share_tags") and r["level"] == "NOTICE" and i % 3 == 1 and r["exc"] is None:
                fn = lg.result           # a NOTICE record tagged "result" (whatever tags the caller passed)
                intended[-1] = ["result"]
                kw.setdefault("extra", {"tags": shared.setdefault((), [])})
            args = tuple(r["args"]) if r["args"] is not None else ()
            mut = r.get("mut")
            mobj = None
            if mut is not None:
                # the caller logs one of ITS objects (a fresh one, or the one it keeps for the whole run) ...
                if mut["slot"] is None:
                    mobj = _mut_make(mut)
                else:
                    mobj = slots.setdefault(mut["slot"], _mut_make(mut))
                msg, args = _mut_call(mut, mobj, mark, r["msg"])
                before = _render_now(msg, args)
            if r["exc"] is not None:
                try:
                    _raise_nested(r["exc"])
                except ExcForLog:
                    fn(msg, *args, exc_info=True, **kw)
            else:
                fn(msg, *args, **kw)
            if mut is not None:
                # ... and goes on working with it as soon as the call has returned
                _mut_after(mut, mobj)
                mut_changed += _render_now(msg, args) != before
    finally:
        if gate is not None:
            progress["done"] = True
            gate.set()
        if other_handler is not None:
            try:
                glog.remove_zst_log_handler("c17other", other_handler)
            except Exception:  # noqa: BLE001
                pass
        try:
            glog.remove_zst_log_handler(LOGGER, handler)
        except Exception as e:  # noqa: BLE001  (judged through what can be read back)
            close_error = repr(e)
        glog._ZstdFileHandler.emit = real_emit  # type: ignore[method-assign]
        lg.removeFilter(cap)
        logging.disable(prev_disable)
    if close_error is not None:
        spec = dict(spec, close_error=close_error)
    if len(cap.seen) != len(recs):
        raise Machinery(f"writer harness: logged {len(recs)} records, the logger saw {len(cap.seen)}")
    if spec.get("share_tags"):
        # what the run logged = the tags the caller passed BY VALUE at the time of the call (a writer that edits the
        # caller's list in place changes what the logger object saw, not what was logged)
        for rec_seen, tags in zip(cap.seen, intended):
            rec_seen["tags"] = tags
    w = Written(spec, path, cap.seen)
    w.mut_changed = mut_changed     # log calls whose arguments render differently after the caller's next step
    return w


def write_joined(spec: dict[str, Any], directory: Path, name: str) -> Written:
    """Every part is one run of the REAL writer (its own file, closed by remove_zst_log_handler); the joined log is
    the byte-wise concatenation of the runs' files.  A sequence of zstd frames is a valid .zst file (`zstd -d`,
    `zstdcat` decode all of it); what it holds is what run 1 logged followed by what run 2 logged, and so on."""
    parts: list[Written] = []
    base = 0
    for k, ps in enumerate(spec["parts"]):
        if ps.get("kind") == "joined":
            raise Machinery("joined logs do not nest")
        w = write_log(dict(ps, id_base=base), directory, f"{name}.run{k + 1}")
        parts.append(w)
        base += w.n
    path = directory / f"{name}.zst"
    with path.open("wb") as out:
        for w in parts:
            out.write(w.zst.read_bytes())
    errs = [w.spec["close_error"] for w in parts if "close_error" in w.spec]
    if errs:
        spec = dict(spec, close_error=errs[0])
    joined = Written(spec, path, [rec for w in parts for rec in w.seen], run_lens=[w.n for w in parts])
    joined.parts = parts
    joined.mut_changed = sum(w.mut_changed for w in parts)
    return joined


# ----------------------------------------------------------------------------
# containers

CONTAINERS = ["zst", "gz", "plain", "stdin-pipe", "stdin-file"]
# Containers made of SEVERAL zstd frames / gzip members: "<zst|gz>+<how>@<where>".  A .zst file is a sequence of
# frames and a .gz file a sequence of members (RFC 8878 / RFC 1952); both come into being by `cat a.zst b.zst`,
# by parallel compressors (pzstd: one frame per chunk, each preceded by a skippable frame), by writers that end a
# frame now and then (flush(FLUSH_FRAME)), by appending to an existing log.
#   where: runs = at the boundaries between the runs of a joined log; rec = after every record;
#          mid  = at two byte positions in the middle of records (also inside a multi-byte character)
#   how  : nosize = streaming frames without content size and checksum; cksum = one-shot frames with content size
#          and checksum; flush = ONE compressor stream whose frames are ended with flush(FLUSH_FRAME);
#          pzstd = every frame preceded by a skippable frame holding its size; members = gzip members
MULTI_ZST = ["zst+nosize@runs", "zst+flush@mid", "zst+cksum@rec", "zst+pzstd@mid", "zst+cksum@runs", "zst+flush@rec"]
MULTI_GZ = ["gz+members@runs", "gz+members@mid", "gz+members@rec"]


def _pieces(w: Written, prefix: str, where: str) -> tuple[bytes, list[bytes]]:
    """(data, pieces): the log of `w` in prefix variant `prefix` and the byte strings that become its frames /
    members (concatenation = data, >= 1 piece).  No assumption about what the writer under test wrote."""
    if where == "runs":
        # a run that logged nothing leaves an empty frame
        out = [_strip_prefix(p.raw, prefix) for p in w.parts] if w.parts else [_strip_prefix(w.raw, prefix)]
        return b"".join(out), out
    data = _strip_prefix(w.raw, prefix)
    if where == "mid":
        cuts: list[int] = []
        for k in (1, 2):
            pos = len(data) * k // 3
            if 0 < pos < len(data) and data[pos - 1:pos] == b"\n":
                pos += 1
            if 0 < pos < len(data) and pos not in cuts:
                cuts.append(pos)
        out = [data[a:b] for a, b in zip([0, *cuts], [*cuts, len(data)])]
    elif where == "rec":
        lines = data.split(b"\n")
        out = [ln + b"\n" for ln in lines[:-1]] + ([lines[-1]] if lines[-1] else [])
        out = out or [b""]
    else:
        raise Machinery(f"unknown cut positions {where!r}")
    if b"".join(out) != data:
        raise Machinery("pieces do not add up to the log")
    return data, out


def _frames(pieces: list[bytes], base: str, how: str) -> bytes:
    if base == "gz":
        if how != "members":
            raise Machinery(f"unknown gzip framing {how!r}")
        return b"".join(gzip.compress(p, compresslevel=1 + 4 * (i % 3), mtime=i) for i, p in enumerate(pieces))
    if how == "nosize":
        out = b""
        for i, p in enumerate(pieces):
            co = zstandard.ZstdCompressor(level=1 + 9 * (i % 2), write_content_size=False,
                                          write_checksum=False).compressobj()
            out += co.compress(p) + co.flush()
        return out
    if how == "cksum":
        return b"".join(zstandard.ZstdCompressor(level=3 + 16 * (i % 2), write_content_size=True,
                                                 write_checksum=True).compress(p) for i, p in enumerate(pieces))
    if how == "flush":
        bio = io.BytesIO()
        wr = zstandard.ZstdCompressor(write_checksum=True).stream_writer(bio, closefd=False)
        for p in pieces:
            wr.write(p)
            wr.flush(zstandard.FLUSH_FRAME)
        wr.close()
        return bio.getvalue()
    if how == "pzstd":
        import struct

        out = b""
        for p in pieces:
            fr = zstandard.ZstdCompressor(write_content_size=True).compress(p)
            out += struct.pack("<III", 0x184D2A50, 4, len(fr)) + fr
        return out
    raise Machinery(f"unknown zstd framing {how!r}")


def _reference_decode(base: str, blob: bytes) -> bytes:
    """Decoding by the libraries' own multi-frame / multi-member readers (not gallia)."""
    if base == "gz":
        return gzip.decompress(blob)
    return zstandard.ZstdDecompressor().stream_reader(io.BytesIO(blob), read_across_frames=True).read()
PREFIXES = ["all", "none", "mixed"]
_PREFIX_RE = re.compile(rb"^<\d+>")


def _strip_prefix(raw: bytes, mode: str) -> bytes:
    if mode == "all":
        return raw
    lines = raw.split(b"\n")
    out = []
    for i, ln in enumerate(lines):
        if mode == "none" or i % 2 == 0:
            ln = _PREFIX_RE.sub(b"", ln, count=1)
        out.append(ln)
    return b"\n".join(out)


class Container:
    """The log of `w` in one container / prefix variant (file made on demand)."""

    def __init__(self, w: Written, kind: str, prefix: str, directory: Path) -> None:
        self.w, self.kind, self.prefix = w, kind, prefix
        self.path: Path | None = None
        self.data: bytes | None = None
        self.frames = len(w.run_lens) if kind == "zst" and prefix == "all" else 1
        stem = f"{w.zst.stem}-{prefix}"
        if kind == "zst" and prefix == "all":
            self.path = w.zst  # the writer's own file(s), untouched
            return
        if "+" in kind:
            base, _, framing = kind.partition("+")
            how, _, where = framing.partition("@")
            if base not in ("zst", "gz"):
                raise Machinery(f"unknown container {kind!r}")
            data, pieces = _pieces(w, prefix, where)
            blob = _frames(pieces, base, how)
            if _reference_decode(base, blob) != data:
                raise Machinery(f"container {kind}: the reference decoder does not read the log back")
            self.frames = len(pieces)
            self.path = directory / f"{stem}-{how}-{where}.{base}"
            self.path.write_bytes(blob)
            return
        data = _strip_prefix(w.raw, prefix)
        if kind == "zst":
            self.path = directory / f"{stem}.zst"
            self.path.write_bytes(zstandard.ZstdCompressor().compress(data))
        elif kind == "gz":
            self.path = directory / f"{stem}.gz"
            self.path.write_bytes(gzip.compress(data, mtime=0))
        elif kind == "plain":
            self.path = directory / f"{stem}.log"
            self.path.write_bytes(data)
        else:
            self.data = data

    @contextmanager
    def reader_path(self) -> Iterator[Path]:
        """Path to hand to PenlogReader / hr; for stdin kinds fd 0 is redirected meanwhile."""
        if self.path is not None:
            yield self.path
            return
        assert self.data is not None
        with stdin_as(self.data, "file" if self.kind == "stdin-file" else "pipe"):
            yield Path("-")


@contextmanager
def stdin_as(data: bytes, kind: str) -> Iterator[None]:
    try:
        saved: int | None = os.dup(0)
    except OSError:
        saved = None
    th = None
    try:
        if kind == "file":
            f = tempfile.TemporaryFile()
            f.write(data)
            f.flush()
            f.seek(0)
            os.dup2(f.fileno(), 0)
            f.close()
        else:
            r, wfd = os.pipe()
            os.dup2(r, 0)
            os.close(r)
            if len(data) <= 32768:      # fits the pipe buffer: no feeder thread needed
                if data:
                    os.write(wfd, data)
                os.close(wfd)
            else:
                def feed() -> None:
                    try:
                        with os.fdopen(wfd, "wb") as wf:
                            wf.write(data)
                    except OSError:
                        pass

                th = threading.Thread(target=feed, daemon=True)
                th.start()
        yield
    finally:
        if saved is not None:
            os.dup2(saved, 0)
            os.close(saved)
        else:
            nul = os.open(os.devnull, os.O_RDONLY)
            os.dup2(nul, 0)
            if nul != 0:
                os.close(nul)
        if th is not None:
            th.join(timeout=30)


# ----------------------------------------------------------------------------
# operations

def op(mode: str, p: int = 0, n: int = 0, off: int = 0) -> dict[str, Any]:
    return {"mode": mode, "p": p, "n": n, "off": off}


def all_ops(max_n: int, thresholds: tuple[int, ...] = (1, 2, 5, 8)) -> list[dict[str, Any]]:
    """The operation universe of spec/Penlog.tla (Ops)."""
    out = []
    for p in thresholds:
        out += [op("fwd", p, 0, k) for k in range(max_n + 1)]
        out += [op("tail", p, k) for k in range(1, max_n + 1)]
        out += [op("head", p, k) for k in range(max_n + 1)]
        out.append(op("rev", p))
    out.append(op("len"))
    return out


def _exc(e: BaseException) -> dict[str, Any]:
    return {"t": "Exc", "cls": type(e).__name__}


def run_reader_session(c: Container, ops: list[dict[str, Any]], *, content: bool = False,
                       reader_cls: Any = PenlogReader) -> dict[str, Any]:
    """One reader object on container `c`, `ops` applied in order (fresh, then used)."""
    w = c.w
    sess: dict[str, Any] = {"open": {"t": "Ok"}, "ops": [], "content": []}
    with c.reader_path() as path:
        try:
            reader = reader_cls(path)
        except Exception as e:  # noqa: BLE001
            sess["open"] = _exc(e)
            return sess
    try:
        for o in ops:
            cap = 4 * w.n + 16  # a reader that never stops is reported, not waited for
            try:
                m = o["mode"]
                if m == "len":
                    res: dict[str, Any] = {"t": "Len", "n": len(reader)}
                else:
                    p = PenlogPriority(o["p"])
                    if m == "fwd":
                        gen = reader.records(p, offset=o["off"])
                    elif m == "tail":
                        gen = reader.records(p, offset=-o["n"])
                    elif m == "head":
                        gen = islice(reader.records(p), o["n"])
                    elif m == "rev":
                        gen = reader.records(p, reverse=True)
                    else:
                        raise Machinery(f"unknown op {o}")
                    if o.get("lenat") is not None:
                        # a forward read during which the caller asks for len(reader) after `lenat` records
                        # (a progress display); the read must still yield every selected record once
                        recs = []
                        for r in islice(gen, cap + 1):
                            if len(recs) == o["lenat"]:
                                len(reader)
                            recs.append(r)
                    else:
                        recs = list(islice(gen, cap + 1))
                    if len(recs) > cap:
                        res = {"t": "Exc", "cls": "DoesNotTerminate"}
                    else:
                        res = {"t": "Seq", "ids": [w.id_of(r) for r in recs]}
                        if content and m == "fwd" and o["off"] == 0 and o["p"] == 8 and len(recs) == w.n:
                            for r, wr in zip(recs, w.seen):
                                if wr["exc_line"] is None and len(wr["text"]) <= 300 and isinstance(r.data, str):
                                    sess["content"].append({"api": "reader", "w": [ord(ch) for ch in wr["text"]],
                                                            "r": [ord(ch) for ch in r.data]})
            except Machinery:
                raise
            except Exception as e:  # noqa: BLE001
                res = _exc(e)
            sess["ops"].append({"op": {k: o[k] for k in ("mode", "p", "n", "off")}, "res": res})
    finally:
        try:
            reader.close()
        except Exception:  # noqa: BLE001
            pass
    return sess


def hr_argv(o: dict[str, Any], rnd: random.Random | None = None) -> list[str]:
    """argv of `hr` for an operation (p = -1 / n = -1: option omitted)."""
    a: list[str] = []
    if o["p"] >= 0:
        spell = str(o["p"])
        if rnd is not None and rnd.random() < 0.5:
            spell = rnd.choice([PRIO_NAMES[o["p"]], PRIO_NAMES[o["p"]].upper()])
        a += [rnd.choice(["-p", "--priority"]) if rnd else "-p", spell]
    m = o["mode"]
    if m == "head":
        a.append("--head")
    elif m == "tail":
        a.append(rnd.choice(["-t", "--tail"]) if rnd else "--tail")
    elif m == "rev":
        a.append(rnd.choice(["-r", "--reverse"]) if rnd else "--reverse")
    if o["n"] >= 0 and m in ("head", "tail"):
        a += [rnd.choice(["-n", "--lines"]) if rnd else "-n", str(o["n"])]
    if rnd is not None and rnd.random() < 0.3:
        a += ["--color", rnd.choice(["never", "auto"])]
    return a


def run_hr_session(c: Container, o: dict[str, Any], *, argv: list[str] | None = None,
                   content: bool = False) -> dict[str, Any]:
    """The hr entry point (gallia.cli.hr.main) with argv; stdout captured and named by markers."""
    w = c.w
    sess: dict[str, Any] = {"open": {"t": "Ok"}, "ops": [], "content": []}
    args = list(argv if argv is not None else hr_argv(o))
    old_argv, old_out, old_err = sys.argv, sys.stdout, sys.stderr
    buf, err = io.StringIO(), io.StringIO()
    res: dict[str, Any]
    with c.reader_path() as path:
        sys.argv = ["hr", *args, str(path)]
        sys.stdout, sys.stderr = buf, err
        try:
            ghr.main()
            res = {"t": "Exc", "cls": "NoExit"}
        except SystemExit as e:
            code = e.code if e.code is not None else 0
            res = {"t": "Seq", "ids": []} if code == 0 else {"t": "Exc", "cls": f"exit{code}"}
        except Exception as e:  # noqa: BLE001
            res = _exc(e)
        finally:
            sys.argv, sys.stdout, sys.stderr = old_argv, old_out, old_err
    text = buf.getvalue()
    if res["t"] == "Seq":
        res["ids"] = [int(m.group(1)) for m in MARK_RE.finditer(text)]
        if content and len(text) <= 1500:
            for i in list(dict.fromkeys(res["ids"]))[:3]:
                if 1 <= i <= w.n and w.seen[i - 1]["exc_line"] is None and len(w.seen[i - 1]["text"]) <= 100:
                    sess["content"].append({"api": "hr", "w": [ord(ch) for ch in w.seen[i - 1]["text"]],
                                            "r": [ord(ch) for ch in text]})
    sess["ops"].append({"op": o, "res": res})
    sess["argv"] = args
    return sess


# ----------------------------------------------------------------------------
# TLC batches

def _tlc_chunk(b: dict[str, Any]) -> Any:
    return tlc.validate_batch("Trace_Penlog", "Trace_Penlog.cfg", b, timeout=1800,
                              env={"JAVA_TOOL_OPTIONS": "-Xss256m"}, heap="3g")


class Batch:
    """Collects sessions and streams them to TLC (Trace_Penlog) in chunks, in parallel JVMs,
    while the real code is still being driven.  Accepted sessions are dropped once their
    verdict is known (only counters, the rejected ones and a few samples are kept)."""

    def __init__(self, *, chunk: int = 5000, jobs: int = 4) -> None:
        self.chunk = chunk
        self.pool = ThreadPoolExecutor(max_workers=jobs)
        self.pending: list[tuple[dict[str, Any], Any, dict[str, Any], list[str] | None]] = []
        self.futs: list[tuple[Any, list[tuple[dict[str, Any], Any, dict[str, Any], list[str] | None]]]] = []
        self.n = 0
        self.ops = 0
        self.content_pairs = 0
        self.keys: set[int] = set()
        self.nontrivial: set[int] = set()
        self.origins: dict[str, int] = {}
        # filled by finish()
        self.labels: dict[int, str] = {}          # tid -> label, only for rejected sessions
        self.bad: list[tuple[dict[str, Any], dict[str, Any], tuple[str, int, str, int]]] = []
        self.samples: list[tuple[dict[str, Any], dict[str, Any], str]] = []
        self.accepted_seq: dict[str, Any] | None = None
        self.accepted_len: dict[str, Any] | None = None
        self.accepted_content: dict[str, Any] | None = None
        self.unspecified = 0
        self.results: list[Any] = []

    def add(self, w: Written | list[dict[str, int]], sess: dict[str, Any], meta: dict[str, Any]) -> int:
        """`meta` objects may be shared between sessions (they are not copied)."""
        tid = self.n
        self.n += 1
        t = {"id": tid, "open": sess["open"], "ops": sess["ops"], "content": sess.get("content", [])}
        self.ops += len(t["ops"]) + 1
        self.content_pairs += len(t["content"])
        argv = sess.get("argv")
        if isinstance(w, Written):
            key = hash((w.uid, meta.get("container"), meta.get("prefix"), meta.get("api"),
                        tuple((o["op"]["mode"], o["op"]["p"], o["op"]["n"], o["op"]["off"]) for o in t["ops"]),
                        tuple(argv) if argv else None))
            if key not in self.keys:
                self.keys.add(key)
                o1 = t["ops"][0]["op"] if len(t["ops"]) == 1 else None
                plain_fwd = o1 is not None and o1["mode"] == "fwd" and o1["off"] == 0 and o1["p"] == 8
                if w.n > 0 and (not plain_fwd or (meta.get("container"), meta.get("prefix")) != ("zst", "all")):
                    self.nontrivial.add(key)
        og = meta.get("origin", "?")
        self.origins[og] = self.origins.get(og, 0) + 1
        self.pending.append((t, w, meta, argv))
        if len(self.pending) >= self.chunk:
            self.flush()
        return tid

    def flush(self) -> None:
        if not self.pending:
            return
        items, self.pending = self.pending, []
        logs: list[list[dict[str, int]]] = []
        ix: dict[int, int] = {}
        traces = []
        for t, w, _m, _a in items:
            k = ix.get(id(w))
            if k is None:
                logs.append(w.log if isinstance(w, Written) else w)
                k = len(logs)
                ix[id(w)] = k
            traces.append(dict(t, lg=k))
        self.futs.append((self.pool.submit(_tlc_chunk, {"logs": logs, "traces": traces}), items))

    def finish(self) -> None:
        """Wait for TLC; every session must have received a verdict."""
        self.flush()
        try:
            for fut, items in self.futs:
                res = fut.result()
                self.results.append(res)
                verdicts: dict[int, tuple[str, int, str, int]] = {}
                for p in res.prints:
                    if isinstance(p, list) and len(p) == 6 and p[0] == "V":
                        verdicts[p[1]] = (p[2], p[3], p[4], p[5])
                missing = [t["id"] for t, _w, _m, _a in items if t["id"] not in verdicts]
                if missing:
                    raise Machinery(f"TLC produced no verdict for {len(missing)} sessions (first id {missing[0]}):\n"
                                    + res.out[-2000:])
                for k, (t, w, m, argv) in enumerate(items):
                    v = verdicts[t["id"]]
                    self.unspecified += v[3]
                    info = dict(m)
                    info["n"] = w.n if isinstance(w, Written) else len(w)
                    info["spec"] = w.spec if isinstance(w, Written) else None
                    info["argv"] = argv
                    info["log"] = (w.log if isinstance(w, Written) else w)[:8]
                    if v[0] != "ok":
                        self.labels[t["id"]] = v[0]
                        self.bad.append((t, info, v))
                        continue
                    if k == 0 and len(self.samples) < 12:
                        self.samples.append((t, info, v[0]))
                    last = t["ops"][-1] if t["ops"] else None
                    if last is not None and self.accepted_seq is None and last["res"]["t"] == "Seq" \
                            and len(last["res"]["ids"]) >= 2 and last["op"]["mode"] in ("fwd", "head") \
                            and last["op"]["p"] >= 0 and isinstance(w, Written):
                        self.accepted_seq = dict(t, _log=w.log)
                    if last is not None and self.accepted_len is None and last["res"]["t"] == "Len" \
                            and isinstance(w, Written):
                        self.accepted_len = dict(t, _log=w.log)
                    if self.accepted_content is None and t["content"] and t["content"][0]["w"] \
                            and isinstance(w, Written):
                        self.accepted_content = dict(t, _log=w.log)
            self.futs = []
        finally:
            self.pool.shutdown(wait=True, cancel_futures=True)

    def label(self, tid: int) -> str:
        return self.labels.get(tid, "ok")


def workdir() -> Path:
    return Path(tempfile.mkdtemp(prefix="c17-"))


def cleanup(d: Path) -> None:
    shutil.rmtree(d, ignore_errors=True)
