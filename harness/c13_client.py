"""C14 helpers: the real client half against the real server half.

* InProcTransport: a BaseTransport whose peer is the server's
  UDSServerTransport.handle_request, so that the real UDSClient.request()
  (retry loop, parse_pdu, matcher) talks to the real server in-process.
* TcpLoop: the real TCPUDSServerTransport.handle_client connection loop and the
  real TCPLinesTransport client, joined by two in-memory streams
  (harness.streams.Wire).
Both run on the virtual-time loop, so that the client's timeout on a suppressed
reply costs nothing.
"""

from __future__ import annotations

import asyncio
from typing import Any, Self

import gallia.services.uds.server as srv
from gallia.services.uds.core import service
from gallia.services.uds.core.client import UDSClient
from gallia.services.uds.core.exception import MalformedResponse, MissingResponse, RequestResponseMismatch
from gallia.transports import TargetURI
from gallia.transports.base import BaseTransport
from gallia.transports.tcp import TCPLinesTransport

from harness.c13_ecu import Probe, step_record
from harness.streams import Wire, settle


class InProcTransport(BaseTransport, scheme="vecu-inproc"):
    def __init__(self, probe: "ReplyProbe") -> None:
        super().__init__(TargetURI("vecu-inproc://server"))
        self.probe = probe
        self.pending: bytes | None = None
        self.raised = ""
        self.last_step: dict[str, Any] | None = None

    @classmethod
    async def connect(cls, target: str | TargetURI, timeout: float | None = None) -> Self:
        raise ConnectionRefusedError("in-process transport cannot reconnect")

    async def close(self) -> None:
        self.is_closed = True

    async def write(self, data: bytes, timeout: float | None = None, tags: list[str] | None = None) -> int:
        st = await self.probe.exchange(data)
        self.last_step = st
        self.raised = st["x"]
        self.pending = self.probe.reply
        return len(data)

    async def read(self, timeout: float | None = None, tags: list[str] | None = None) -> bytes:
        if self.raised:
            raise BrokenPipeError("server raised: connection lost")
        if self.pending is None:
            if timeout is None:
                await asyncio.Event().wait()
            await asyncio.sleep(timeout or 0)
            raise TimeoutError("no reply")
        r, self.pending = self.pending, None
        return r


class ReplyProbe(Probe):
    """Probe that also keeps the complete reply bytes of the last exchange."""

    def __init__(self, server: Any, hook_pre: bool = False) -> None:
        super().__init__(server, hook_pre=hook_pre)
        self.reply: bytes | None = None

    async def exchange(self, pdu: bytes) -> dict[str, Any]:
        self.reply = None
        raised = ""
        try:
            self.reply, _ = await self.transport.handle_request(pdu)
        except Exception as e:  # noqa: BLE001
            raised = type(e).__name__
        return step_record(pdu, "unknown", b"", self.reply, raised, self.state())


def classify(exc: BaseException | None, resp: Any) -> str:
    if exc is None:
        return "ok"
    if isinstance(exc, RequestResponseMismatch):
        return "Mismatch"
    if isinstance(exc, MalformedResponse):
        return "Malformed"
    if isinstance(exc, MissingResponse):
        return "silent"
    return type(exc).__name__


def as_request(pdu: bytes, typed: bool) -> Any:
    """What a scanner hands to UDSClient.request(): a raw request or the typed one."""
    if typed:
        r = service.UDSRequest.parse_dynamic(pdu)
        return r
    return service.RawRequest(pdu)


async def client_history(probe: ReplyProbe, pdus: list[bytes], *, typed: bool, timeout: float = 0.2) -> list[dict[str, Any]]:
    """Send every pdu through the real UDSClient.request(); one step per request."""
    tr = InProcTransport(probe)
    client = UDSClient(tr, timeout=timeout, max_retry=0)
    steps: list[dict[str, Any]] = []
    for pdu in pdus:
        tr.last_step = None
        exc: BaseException | None = None
        resp = None
        try:
            resp = await client.request(as_request(pdu, typed))
        except Exception as e:  # noqa: BLE001
            exc = e
        st = tr.last_step
        if st is None:  # the client never wrote (cannot happen for a well-formed request object)
            st = step_record(pdu, "unknown", b"", None, "", probe.state())
            st["a"] = "client:" + classify(exc, resp)
        else:
            st["a"] = classify(exc, resp)
            if resp is not None and bytes(resp.pdu) != (probe.reply or b""):
                st["a"] = "client-returned-other-bytes"
        steps.append(st)
    return steps


class TcpLoop:
    """The real connection loop of the virtual ECU on an in-memory stream pair."""

    def __init__(self, server: Any) -> None:
        self.server = server
        self.st = srv.TCPUDSServerTransport(server, TargetURI("tcp-lines://127.0.0.1:20162"))
        self.task: asyncio.Task[None] | None = None
        self.s_wire: Wire | None = None
        self.c_wire: Wire | None = None
        self.client: UDSClient | None = None
        self.connections = 0

    def connect(self, timeout: float) -> None:
        s, c = Wire(), Wire()
        s.on_out = c.feed  # what the server writes reaches the client's reader
        c.on_out = s.feed  # what the client writes reaches the server's reader
        self.s_wire, self.c_wire = s, c
        self.task = asyncio.get_running_loop().create_task(self.st.handle_client(s.reader, s.writer))  # type: ignore[arg-type]
        tr = TCPLinesTransport(TargetURI("tcp-lines://127.0.0.1:20162"), c.reader, c.writer)  # type: ignore[arg-type]
        self.client = UDSClient(tr, timeout=timeout, max_retry=0)
        self.connections += 1

    def alive(self) -> bool:
        return self.task is not None and not self.task.done()

    async def close(self) -> None:
        if self.s_wire is not None:
            self.s_wire.eof()
        if self.task is not None:
            try:
                await asyncio.wait_for(self.task, 1.0)
            except Exception:  # noqa: BLE001
                pass

    def state(self) -> tuple[int, int]:
        st = self.server.state
        lvl = st.security_access_level
        return int(st.session), (-1 if lvl is None else int(lvl))

    async def history(self, pdus: list[bytes], *, timeout: float = 0.2, typed: bool = False) -> list[dict[str, Any]]:
        """One step per request: reply seen by the real client (or silence), whether the loop
        is still serving afterwards.  A dropped connection is re-established for the next request
        (the drop itself is what the step records)."""
        steps: list[dict[str, Any]] = []
        self.connect(timeout)
        for pdu in pdus:
            if not self.alive():
                self.connect(timeout)
            assert self.client is not None and self.s_wire is not None
            n_out = len(self.s_wire.out)
            exc: BaseException | None = None
            resp = None
            try:
                resp = await self.client.request(as_request(pdu, typed))
            except Exception as e:  # noqa: BLE001
                exc = e
            await settle(3)
            wrote = self.s_wire.out[n_out:]
            reply = None
            if wrote:
                line = b"".join(b for _t, b in wrote).strip()
                try:
                    reply = bytes.fromhex(line.decode())
                except ValueError:
                    reply = b""
            st = step_record(pdu, "unknown", b"", reply, "", self.state(), acc=classify(exc, resp), alive=self.alive())
            steps.append(st)
        await self.close()
        return steps


class RunLoop:
    """The virtual ECU served by the REAL `UnixUDSServerTransport.run()` (asyncio.start_unix_server, real sockets, real
    event loop) and asked by the real client over `UnixLinesTransport`: whatever run() configures on the listening
    side (stream limits, ...) is in play, unlike in TcpLoop where the harness creates the streams."""

    def __init__(self, server: Any, path: str) -> None:
        self.server = server
        self.uri = TargetURI(f"unix-lines://{path}")
        self.st = srv.UnixUDSServerTransport(server, self.uri)
        self.path = path

    def state(self) -> tuple[int, int]:
        st = self.server.state
        lvl = st.security_access_level
        return int(st.session), (-1 if lvl is None else int(lvl))

    async def history(self, pdus: list[bytes], *, timeout: float = 2.0) -> list[dict[str, Any]]:
        import os

        from gallia.transports import UnixLinesTransport

        task = asyncio.ensure_future(self.st.run())
        for _ in range(300):
            if os.path.exists(self.path):
                break
            await asyncio.sleep(0.01)
        steps: list[dict[str, Any]] = []
        client: UDSClient | None = None
        try:
            for pdu in pdus:
                if client is None:
                    client = UDSClient(await UnixLinesTransport.connect(self.uri), timeout=timeout, max_retry=0)
                exc: BaseException | None = None
                resp = None
                try:
                    resp = await client.request(service.RawRequest(pdu))
                except Exception as e:  # noqa: BLE001
                    exc = e
                lost = isinstance(exc, MissingResponse) and isinstance(exc.__cause__, ConnectionError)
                reply = None
                if resp is not None:
                    reply = bytes(resp.pdu)
                elif isinstance(exc, (RequestResponseMismatch, MalformedResponse)) and exc.response is not None:
                    reply = bytes(exc.response.pdu)
                steps.append(step_record(pdu, "unknown", b"", reply, "", self.state(), acc=classify(exc, resp),
                                         alive=not lost))
                if lost:
                    try:
                        await client.transport.close()
                    except Exception:  # noqa: BLE001
                        pass
                    client = None
        finally:
            if client is not None:
                try:
                    await client.transport.close()
                except Exception:  # noqa: BLE001
                    pass
            task.cancel()
            try:
                await asyncio.wait_for(asyncio.shield(task), 3.0)
            except BaseException:  # noqa: BLE001
                pass
        return steps


# ---------------------------------------------------------------------------------------------------------------
# Re-used request objects (C14 family "reused-objects"; added for the client half of A3).
#
# Everything above hands a FRESH request object to the client for every exchange.  A script may just as well keep one
# request object and send it again -- unchanged, or with another content assigned through the public API of the
# class (`RawRequest.pdu = ...`, `ReadDataByIdentifierRequest.data_identifier = ...`, the plain public attributes of
# the typed requests).  The functions below send such objects; what is recorded as "the request" of a step is what
# really went to the ECU (the bytes the transport wrote / `request.pdu` at the time of the exchange), and the client's
# verdict is the one it gave for THAT exchange with THAT object.
def public_field_names(obj: Any) -> list[str]:
    """The fields a holder of `obj` can assign: public instance attributes, then public properties with a setter."""
    names = [n for n in vars(obj) if not n.startswith("_")]
    for klass in type(obj).__mro__:
        for n, d in vars(klass).items():
            if isinstance(d, property) and d.fset is not None and not n.startswith("_") and n not in names:
                names.append(n)
    return names


def assign_content(target: Any, pdu: bytes) -> bool:
    """Give the request object `target` the content `pdu` through its public API.  A RawRequest gets its `pdu`
    assigned; a typed request gets every public field of a freshly parsed request of the SAME class assigned.
    False (nothing is claimed about the object, do not send it) if the class differs, if the class does not allow the
    assignment, or if the object's bytes are not `pdu` afterwards (the byte layout of assigned fields is C01's subject)."""
    import copy

    try:
        if isinstance(target, service.RawRequest):
            target.pdu = bytes(pdu)
        else:
            src = service.UDSRequest.parse_dynamic(bytes(pdu))
            if type(src) is not type(target):
                return False
            for n in public_field_names(src):
                setattr(target, n, copy.deepcopy(getattr(src, n)))
        return bytes(target.pdu) == bytes(pdu)
    except Exception:  # noqa: BLE001
        return False


def verdict_for_object(reply: bytes | None, request: Any) -> str:
    """c13_ecu.client_verdict for a request OBJECT the caller holds (not a fresh RawRequest made from its bytes)."""
    from gallia.services.uds import helpers

    if reply is None:
        return "silent"
    try:
        helpers.parse_pdu(reply, request)
        return "ok"
    except RequestResponseMismatch:
        return "Mismatch"
    except MalformedResponse:
        return "Malformed"
    except Exception as e:  # noqa: BLE001
        return type(e).__name__


class ObjectSender:
    """Sends request objects a caller keeps and re-uses, (a) through the real UDSClient.request() in-process, or
    (b) `direct`: straight to handle_request, the reply judged by helpers.parse_pdu(reply, <that object>).
    One step per exchange, in the format of client_history(); extra keys (not part of what TLC sees):
    reuse = label of the way the object is re-used, obj = ordinal of the object, typed, and stale = the reply would NOT
    be accepted as an answer to what the same object contained at its previous exchange (so a client that looks at
    anything but the current content of the object is noticed at this step)."""

    def __init__(self, probe: ReplyProbe, *, direct: bool, timeout: float = 0.2) -> None:
        self.probe = probe
        self.direct = direct
        self.tr = InProcTransport(probe)
        self.client = UDSClient(self.tr, timeout=timeout, max_retry=0)
        self.steps: list[dict[str, Any]] = []
        self._ord: dict[int, int] = {}
        self._keep: list[Any] = []  # the objects stay alive: ordinals by id() must not be recycled
        self._last: dict[int, bytes] = {}

    async def send(self, request: Any, reuse: str = "") -> dict[str, Any]:
        pdu = bytes(request.pdu)
        if id(request) not in self._ord:
            self._ord[id(request)] = len(self._ord)
            self._keep.append(request)
        if self.direct:
            st = await self.probe.exchange(pdu)
            st["a"] = verdict_for_object(self.probe.reply, request)
        else:
            self.tr.last_step = None
            exc: BaseException | None = None
            resp = None
            try:
                resp = await self.client.request(request)
            except Exception as e:  # noqa: BLE001
                exc = e
            st0 = self.tr.last_step
            if st0 is None:
                st = step_record(pdu, "unknown", b"", None, "", self.probe.state())
                st["a"] = "client:" + classify(exc, resp)
            else:
                st = st0
                st["a"] = classify(exc, resp)
                if resp is not None and bytes(resp.pdu) != (self.probe.reply or b""):
                    st["a"] = "client-returned-other-bytes"
        prev = self._last.get(id(request))
        st["reuse"] = reuse
        st["obj"] = self._ord[id(request)]
        st["typed"] = not isinstance(request, service.RawRequest)
        st["stale"] = bool(prev is not None and prev != pdu and self.probe.reply is not None
                           and verdict_for_object(self.probe.reply, service.RawRequest(prev)) != "ok")
        self._last[id(request)] = pdu
        self.steps.append(st)
        return st
