"""C12 plumbing: drive the REAL recording side (ECU + DBHandler) against an
in-process ECU model, read the produced scan database back, and ask a REAL
DBUDSServer the recorded requests through UDSServerTransport.handle_request.

Nothing in here judges the property: the functions only execute, observe and
serialise.  aiosqlite runs a worker thread, so everything runs on the normal
asyncio loop; the in-process transport raises TimeoutError for silence
immediately (no protocol timeout is ever waited for).
"""

from __future__ import annotations

import asyncio
import json
import os
import random
import shutil
import signal
import sqlite3
import subprocess
import sys
import tempfile
import time
from collections.abc import Awaitable, Callable
from dataclasses import dataclass
from datetime import UTC, datetime
from pathlib import Path
from typing import Any, Self

from gallia.command.config import GalliaBaseModel
from gallia.db.handler import DBHandler
from gallia.services.uds.core import service
from gallia.services.uds.ecu import ECU, ECUProperties
from gallia.services.uds.server import (
    RNG,
    DBUDSServer,
    RandomUDSServer,
    UDSServerTransport,
)
from gallia.transports.base import BaseTransport, TargetURI

RAISED = [-1]  # reply marker: the virtual ECU raised instead of answering


# --------------------------------------------------------------------------- transport
class Peer:
    """An ECU as seen from the wire: one request in, one reply or silence out."""

    async def handle(self, idx: int, data: bytes) -> bytes | None:  # pragma: no cover
        raise NotImplementedError


class InProcTransport(BaseTransport, scheme="c12inproc"):
    def __init__(self, peer: Peer, url: str) -> None:
        super().__init__(TargetURI(url))
        self.peer = peer
        self.pending: bytes | None = None
        self.n = 0
        self.wire: list[tuple[str, str | None]] = []

    _live: dict[str, "InProcTransport"] = {}

    @classmethod
    async def connect(cls, target: str | TargetURI, timeout: float | None = None) -> Self:
        # reconnect(): a new transport object to the SAME peer; the ECU behind it is not told (a bus transport
        # like ISO-TP has no connection the ECU could notice), so it keeps its session and security level
        old = cls._live.get(str(target))
        if old is None:
            raise ConnectionRefusedError("in-process transport: nothing to reconnect to")
        new = cls(old.peer, str(target))
        new.n, new.wire, new.yielding = old.n, old.wire, old.yielding
        cls._live[str(target)] = new
        return new  # type: ignore[return-value]

    async def close(self) -> None:
        self.is_closed = True

    async def write(self, data: bytes, timeout: float | None = None, tags: list[str] | None = None) -> int:
        self.pending = await self.peer.handle(self.n, data)
        self.n += 1
        self.wire.append((data.hex(), None if self.pending is None else self.pending.hex()))
        return len(data)

    yielding = False  # a reply takes a moment: other tasks of the client run while a request is in flight

    async def read(self, timeout: float | None = None, tags: list[str] | None = None) -> bytes:
        if self.yielding:
            await asyncio.sleep(0)
            await asyncio.sleep(0)
        p, self.pending = self.pending, None
        if p is None:
            raise TimeoutError("in-process peer stays silent")
        return p


# --------------------------------------------------------------------------- ECU models
class DetRandomUDSServer(RandomUDSServer):
    """RandomUDSServer(seed) whose security seeds come from a seeded generator
    (the stock one draws them from OS entropy: same seed => same check result
    needs a reproducible recorded ECU).  Repeated seed requests still get
    different answers."""

    def __init__(self, seed: int, *a: Any, **kw: Any) -> None:
        super().__init__(seed, *a, **kw)
        self._sa_rng = RNG(seed, "c12-security-seeds")

    def security_access(self, request: service._SecurityAccessRequest) -> service.UDSResponse:
        if isinstance(request, service.RequestSeedRequest):
            return service.SecurityAccessResponse(
                request.security_access_type, self._sa_rng.random_payload(min_len=1)
            )
        return super().security_access(request)


MODEL_PARAMS: list[dict[str, Any]] = [
    # every service everywhere, many identifiers, two extra sessions
    dict(p_session=1.0, optional_sessions=[2, 3], p_service=1.0, p_sub_function=0.5, p_identifier=0.5,
         p_correct_payload_format=0.7),
    # sparser ECU: services / sub-functions missing in some sessions
    dict(p_session=0.6, optional_sessions=[2, 3, 0x40], p_service=0.7, p_sub_function=0.3, p_identifier=0.2,
         p_correct_payload_format=0.5),
]


class ModelPeer(Peer):
    """RandomUDSServer(seed) behind a real UDSServerTransport.  `drops`: exchanges
    whose reply is lost on the wire; `idles`: exchanges preceded by > 10 s of bus
    silence (the ECU falls back to its default state, as a real one does)."""

    def __init__(self, seed: int, params: int, drops: set[int], idles: set[int]) -> None:
        self.srv = DetRandomUDSServer(seed, RandomUDSServer.RandomnessParameters(**MODEL_PARAMS[params]))
        self.st = UDSServerTransport(self.srv, TargetURI("tcp-lines://127.0.0.1:1"))
        self.drops = drops
        self.idles = idles

    async def setup(self) -> None:
        await self.srv.setup()

    async def handle(self, idx: int, data: bytes) -> bytes | None:
        # bus timing is an environment event, not wall-clock luck: idle > 10 s exactly where scripted
        self.st.last_time_active = time.time() - (11.0 if idx in self.idles else 0.0)
        rep, _ = await self.st.handle_request(data)
        return None if idx in self.drops else rep


class ScriptPeer(Peer):
    """Answers exchange i with script[i] (bytes or None) whatever the request."""

    def __init__(self, script: list[bytes | None]) -> None:
        self.script = script

    async def setup(self) -> None:
        pass

    async def handle(self, idx: int, data: bytes) -> bytes | None:
        return self.script[idx] if idx < len(self.script) else None


def make_peer(spec: dict[str, Any]) -> Any:
    if spec["kind"] == "model":
        return ModelPeer(spec["seed"], spec.get("params", 0), set(spec.get("drops", [])), set(spec.get("idles", [])))
    return ScriptPeer([None if r is None else bytes.fromhex(r) for r in spec["script"]])


# --------------------------------------------------------------------------- properties
@dataclass
class Props(ECUProperties):
    """What a vendor ECU class would report from properties(): scalars of every JSON type."""

    variant: int = 0
    sw: str = ""
    hw: str | None = None
    coded: bool = False
    voltage: float = 0.0


def props_abs(d: dict[str, Any] | None) -> list[dict[str, str]]:
    """properties (dict) -> sequence of [k, t, v] with the JSON type named explicitly."""
    out = []
    for k, v in sorted((d or {}).items()):
        if v is None:
            t, s = "null", ""
        elif isinstance(v, bool):
            t, s = "bool", "1" if v else "0"
        elif isinstance(v, int):
            t, s = "int", str(v)
        elif isinstance(v, float):
            t, s = "float", repr(v)
        else:
            t, s = "str", str(v)
        out.append({"k": k, "t": t, "v": s})
    return out


# --------------------------------------------------------------------------- recording
def build_request(step: dict[str, Any], last_seed: bytes | None) -> service.UDSRequest:
    """A step is {"pdu": hex} or {"key": type, "good": bool} (key derived from the last seed reply)."""
    if "key" in step:
        key = last_seed if (step.get("good", True) and last_seed) else b"\x13\x37"
        return service.SendKeyRequest(step["key"], key)
    return service.UDSRequest.parse_dynamic(bytes.fromhex(step["pdu"]))


Hook = Callable[[], Awaitable[None]]


async def record_run(db: Path, run: dict[str, Any], at_step: dict[int, Hook] | None = None,
                     keep: bool = False) -> dict[str, Any]:
    """One gallia run: a fresh ECU client with a DBHandler logs every exchange of
    run["steps"] against run["peer"] into `db` (appending to whatever is there).
    `at_step[i]` is awaited before step i is sent (environment events of the storage
    family: somebody else opens the database while the scan is running).  `keep`: the
    recorder does NOT disconnect (a scan that is still running / a recorder that dies
    without a clean shutdown); every exchange is committed before this returns and the
    connected handler is handed back as rec["handler"]."""
    peer = make_peer(run["peer"])
    await peer.setup()
    tr = InProcTransport(peer, run["url"])
    InProcTransport._live[str(tr.target)] = tr
    ecu = ECU(tr, timeout=0.05, max_retry=0)
    h = DBHandler(db)
    await h.connect()
    try:
        await h.insert_run_meta("c12-harness", GalliaBaseModel(), datetime.now(UTC).astimezone(), None)
        await h.insert_scan_run(run["url"])
        if run.get("props") is not None:
            await h.insert_scan_run_properties_pre(Props(**run["props"]))
        ecu.db_handler = h
        pinger: asyncio.Task[None] | None = None
        if run.get("tp"):
            # a second task of the same client (like the cyclic tester-present worker) keeps asking while the
            # history runs: its requests queue on the client mutex during the history's in-flight requests
            tr.yielding = True

            async def ping() -> None:
                for _ in range(3 * len(run["steps"]) + 3):
                    try:
                        await ecu.request(service.TesterPresentRequest(False))
                    except Exception:  # noqa: BLE001
                        pass
                    await asyncio.sleep(0)

            pinger = asyncio.create_task(ping())
        last_seed: bytes | None = None
        oob = set(run.get("oob", []))
        reconn = set(run.get("reconn", []))
        outcomes = []
        for i, step in enumerate(run["steps"]):
            if at_step and i in at_step:
                await at_step[i]()
            if i in reconn:
                await ecu.reconnect()  # e.g. what a scanner does after a transport hiccup; the ECU is untouched
            if i in oob:
                ecu.state.reset()  # what ECU.power_cycle() does to the client-side state
            try:
                resp = await ecu.request(build_request(step, last_seed))
                outcomes.append("reply")
                if isinstance(resp, service.SecurityAccessResponse) and resp.security_access_type % 2 == 1:
                    last_seed = resp.security_seed
            except Exception as e:  # noqa: BLE001  (MissingResponse, IllegalResponse, ...)
                outcomes.append(type(e).__name__)
        scan_run = h.scan_run
        if pinger is not None:
            pinger.cancel()
            try:
                await pinger
            except BaseException:  # noqa: BLE001
                pass
        if keep and not await committed(db, scan_run, len(tr.wire)):
            keep = False  # this recorder commits later than per exchange: let it finish the ordinary way
    except BaseException:
        keep = False
        raise
    finally:
        InProcTransport._live.pop(str(tr.target), None)
        if not keep:
            await h.disconnect()
    rec = {"scan_run": scan_run, "wire": tr.wire, "outcomes": outcomes, "kept": keep}
    if keep:
        rec["handler"] = h
    return rec


async def committed(db: Path, scan_run: int | None, n: int, patience: float = 5.0) -> bool:
    """Wait until the `n` exchanges of `scan_run` are committed (DBHandler writes them from a queue), as seen
    by an ordinary second connection: that is what "recorded into the database" means while the recorder is
    still connected.  Only public behaviour is used (no handler internals).  False: not within `patience`
    (a recorder which commits in batches / at disconnect is legitimate: then there is nothing recorded yet that
    could be replayed, and the case degrades to an ordinary, cleanly closed recording)."""
    deadline = time.monotonic() + patience
    while True:
        con = sqlite3.connect(db)
        try:
            have = con.execute("SELECT count(*) FROM scan_result WHERE run = ?", (scan_run,)).fetchone()[0]
        finally:
            con.close()
        if have >= n:
            return True
        if time.monotonic() > deadline:
            return False
        await asyncio.sleep(0.002)


def record_run_killed(db: Path, run: dict[str, Any], links: list[list[str]]) -> dict[str, Any]:
    """The run is recorded by ANOTHER process which is killed (SIGKILL) after its last exchange was committed:
    no disconnect, no checkpoint, the -wal / -shm files stay behind.  `links`: (url, ecu name) pairs the user
    linked by hand while that process was still alive."""
    p = subprocess.run([sys.executable, "-m", "harness.c12_lib", "record-and-die", str(db),
                        json.dumps({"run": run, "links": links})], capture_output=True, text=True, timeout=300)
    try:
        rec = json.loads(p.stdout)
    except ValueError:
        rec = None
    if not isinstance(rec, dict) or p.returncode != (-signal.SIGKILL if rec["kept"] else 0):
        raise RuntimeError(f"recorder process ended with {p.returncode}:\n{p.stdout[-500:]}\n{p.stderr[-2000:]}")
    return rec


def _record_and_die(db: Path, arg: dict[str, Any]) -> None:
    import logging

    logging.disable(logging.CRITICAL)

    async def go() -> None:
        rec = await record_run(db, arg["run"], keep=True)
        rec.pop("handler", None)  # stays connected: this process never gets to disconnect it
        for url, name in arg["links"]:
            link_ecu(db, url, name)
        sys.stdout.write(json.dumps(rec))
        sys.stdout.flush()
        if rec["kept"]:
            os.kill(os.getpid(), signal.SIGKILL)

    asyncio.run(go())


def link_ecu(db: Path, url: str, name: str) -> None:
    """The `ecu` table is never written by gallia: a user links an address to a
    named ECU by hand.  Do the same."""
    con = sqlite3.connect(db)
    try:
        row = con.execute("SELECT id FROM ecu WHERE name = ?", (name,)).fetchone()
        if row is None:
            cur = con.execute("INSERT INTO ecu(name) VALUES (?)", (name,))
            eid = cur.lastrowid
        else:
            eid = row[0]
        con.execute("UPDATE address SET ecu = ? WHERE url = ?", (eid, url))
        con.commit()
    finally:
        con.close()


def snapshot(db: Path, wal: bool = True) -> Path:
    """A copy of the database files as they are on disk right now (nobody is writing): the main file and, with
    `wal`, the write-ahead log.  Reading the copy does not disturb the original: an ordinary connection to the
    original which happens to be the last one to close would fold the log into the main file, i.e. the
    observation would change the storage state whose replay is to be observed.
    wal=False: what the main file alone holds (diagnostic / binding self-test only)."""
    d = Path(tempfile.mkdtemp(prefix="snap-", dir=db.parent))
    shutil.copy(db, d / db.name)
    w = db.with_name(db.name + "-wal")
    if wal and w.exists():
        shutil.copy(w, d / w.name)
    return d / db.name


def read_db(db: Path, undisturbed: bool = False) -> list[dict[str, Any]]:
    """Every scan_result row in id order with what the database knows about its run: what an ordinary SQLite
    reader sees (main file + committed content of the write-ahead log)."""
    if undisturbed:
        db = snapshot(db)
    con = sqlite3.connect(db)
    try:
        q = ("SELECT r.id, r.run, r.state, r.request_pdu, r.response_pdu, s.properties_pre, "
             "(SELECT e.name FROM address a JOIN ecu e ON a.ecu = e.id WHERE a.id = s.address) "
             "FROM scan_result r JOIN scan_run s ON r.run = s.id ORDER BY r.id")
        out = []
        for rid, run, state, req, rsp, props, ename in con.execute(q):
            st = json.loads(state)
            lvl = st.get("security_access_level")
            out.append({
                "id": rid, "run": run, "ecu": ename or "",
                "props": props_abs(json.loads(props) if props else None),
                "st": {"session": st.get("session"), "level": 0 if lvl is None else lvl},
                "req": list(bytes.fromhex(req if isinstance(req, str) else req.decode())),
                "rsp": [] if rsp is None else list(bytes.fromhex(rsp if isinstance(rsp, str) else rsp.decode())),
            })
        return out
    finally:
        con.close()


# --------------------------------------------------------------------------- replay
def _state(srv: DBUDSServer) -> dict[str, int]:
    lvl = srv.state.security_access_level
    return {"session": srv.state.session, "level": 0 if lvl is None else lvl}


async def replay_run(db: Path, reqs: list[bytes], ecu: str | None, props: dict[str, Any] | None,
                     passes: int = 1, mutant: str | None = None, at_req: dict[int, Hook] | None = None
                     ) -> list[list[dict[str, Any]]]:
    """A fresh DBUDSServer (default state, cursor -1) on `db`, asked `reqs` in order.
    `at_req[i]` is awaited before request i of the first pass (storage family: somebody else closes the database
    while the virtual ECU is serving).
    `mutant` (binding self-test only): "forget-cursor" resets the cursor between requests; "main-file-only" is a
    replay that serves from the main database file alone (a copy made without the write-ahead log)."""
    if mutant == "main-file-only":
        db = snapshot(db, wal=False)
    srv = DBUDSServer(db, ecu, props)
    await srv.setup()
    st = UDSServerTransport(srv, TargetURI("tcp-lines://127.0.0.1:1"))
    out = []
    try:
        for n in range(passes):
            obs = []
            for k, r in enumerate(reqs):
                if n == 0 and at_req and k in at_req:
                    await at_req[k]()
                ss = _state(srv)
                st.last_time_active = time.time()  # requests arrive without bus idle
                if mutant == "forget-cursor":
                    srv.last_response = -1
                try:
                    rep, _dt = await st.handle_request(r)
                    repl = [] if rep is None else list(rep)
                except Exception:  # noqa: BLE001
                    repl = RAISED
                obs.append({"ss": ss, "rep": repl, "cur": srv.last_response})
            out.append(obs)
    finally:
        await srv.teardown()
    return out


# --------------------------------------------------------------------------- storage family
# Where the recording physically sits when the virtual ECU is started.  gallia puts every database into WAL mode
# (DBHandler.connect), and SQLite folds the write-ahead log into the main file only when the LAST connection
# closes: a recording made while anybody else has the database open lives (partly) in `<db>-wal` -- and is part of
# the database for every reader all the same.  A storage spec is
#   {"kind": one of STORAGE_KINDS, "at": "start" | "before-target" | "mid" | "after-target" | "end",
#    "release": "end" | "mid-replay"}
#   viewer           a plain sqlite3 connection which ran one SELECT and is left open (DB browser, sqlite3 shell)
#   viewer-tx        the same with an open read transaction (a browser that keeps a snapshot)
#   handler          a second gallia DBHandler, connected and idle (another gallia process on the same file)
#   recorder-open    the recorder of the recorded run itself has not disconnected (scan still running)
#   recorder-killed  the recorder of the recorded run was killed after its last exchange was committed
#   at               when the other party opens the database, relative to the runs recorded into it
#   release          when it closes: after the replay, or while the virtual ECU is serving
HOLDERS = ("viewer", "viewer-tx", "handler")
STORAGE_KINDS = HOLDERS + ("recorder-open", "recorder-killed")


class Holder:
    """Somebody else who has the database open and does nothing with it."""

    def __init__(self, kind: str, db: Path) -> None:
        self.kind, self.db = kind, db
        self.con: sqlite3.Connection | None = None
        self.h: DBHandler | None = None

    async def open(self) -> bool:
        """False: the database could not be opened next to whoever is writing it (`database is locked`).  Whether
        a second party can connect is not this property's subject: the case then runs without it."""
        try:
            if self.kind == "handler":
                self.h = DBHandler(self.db)
                await self.h.connect()
                return True
            self.con = sqlite3.connect(self.db, isolation_level=None)
            if self.kind == "viewer-tx":
                self.con.execute("BEGIN")
            self.con.execute("SELECT count(*) FROM sqlite_master").fetchall()
            return True
        except sqlite3.Error:
            await self.close()
            return False

    async def close(self) -> None:
        if self.h is not None:
            h, self.h = self.h, None
            try:
                await h.disconnect()
            except AssertionError:  # connect() failed half way: nothing but the connection exists
                if h.connection is not None:
                    await h.connection.close()
        if self.con is not None:
            con, self.con = self.con, None
            con.close()


def _once(f: Hook) -> Hook:
    done = False

    async def g() -> None:
        nonlocal done
        if not done:
            done = True
            await f()

    return g


async def build_db(db: Path, runs: list[dict[str, Any]], ti: int, sto: dict[str, Any] | None,
                   links: list[list[str]]) -> tuple[list[dict[str, Any]], list[Hook], dict[str, Any]]:
    """Records `runs` in order into `db` (runs[ti] is the recorded run) under the storage spec `sto`.
    Returns (one rec per run, what has to be closed once the replay is over,
    {"linked": links already made, "in_effect": the other party / open recorder really was there})."""
    kind = sto["kind"] if sto else None
    at: Any = None
    if kind in HOLDERS:
        at = {"start": 0, "before-target": ti, "mid": "mid", "after-target": ti + 1, "end": len(runs)}[sto["at"]]
        if at == 0 and kind != "handler":
            at = "mid" if ti == 0 else 1  # a viewer opens a database that exists
    closers: list[Hook] = []
    holder: Holder | None = None
    how = {"linked": False, "in_effect": False}

    async def open_holder() -> None:
        nonlocal holder
        holder = Holder(str(kind), db)
        closers.append(_once(holder.close))
        how["in_effect"] = await holder.open()

    recs = []
    try:
        for i, r in enumerate(runs):
            hooks: dict[int, Hook] = {}
            if at == i:
                await open_holder()
            elif at == "mid" and i == ti:
                hooks = {len(r["steps"]) // 2: open_holder}
            if i == ti and kind == "recorder-open":
                rec = await record_run(db, r, keep=True)
                if rec["kept"]:
                    closers.append(_once(rec.pop("handler").disconnect))
                how["in_effect"] = rec["kept"]
            elif i == ti and kind == "recorder-killed":
                rec = record_run_killed(db, r, links)
                how["linked"], how["in_effect"] = True, rec["kept"]
            else:
                rec = await record_run(db, r, at_step=hooks)
            recs.append(rec)
        if at == len(runs):
            await open_holder()
    except BaseException:
        for c in closers:
            await c()
        raise
    return recs, closers, how


def storage_state(db: Path, scan_run: int | None, n_rows: int) -> dict[str, Any]:
    """Diagnostic (evidence / vacuity guard of the family, never a verdict): how much of the recorded run is NOT in
    the main database file at the moment the virtual ECU is started."""
    w = db.with_name(db.name + "-wal")
    con = sqlite3.connect(snapshot(db, wal=False))
    try:
        n = con.execute("SELECT count(*) FROM scan_result WHERE run = ?", (scan_run,)).fetchone()[0]
    except sqlite3.DatabaseError:
        n = 0  # not even the schema is in the main file
    finally:
        con.close()
    return {"wal_bytes": w.stat().st_size if w.exists() else 0, "target_rows_outside_main_file": n_rows - n}


def _release(sto: dict[str, Any] | None, closers: list[Hook], n: int) -> dict[int, Hook] | None:
    if not sto or sto.get("release") != "mid-replay" or not closers:
        return None

    async def close_all() -> None:
        for c in closers:
            await c()

    return {n // 2: close_all}


# --------------------------------------------------------------------------- one case
async def _run_case(case: dict[str, Any], tmp: Path) -> list[dict[str, Any]]:
    """case = {"id", "target": run, "oob": [...], "layout": None | {"before": [run..], "after": [run..],
    "selectors": [{"ecu": name|None, "props": {...}|None}, ...]}, "second_pass": bool,
    "storage": None | storage spec (see above; applies to the isolated and to the populated database)}
    Returns the replays (one isolated, one per selector on the populated database)."""
    target = case["target"]
    sto = case.get("storage")
    iso_db = tmp / "iso.sqlite"
    recs, closers, how = await build_db(iso_db, [target], 0, sto, [])
    try:
        rec = recs[0]
        rows = read_db(iso_db, undisturbed=sto is not None)
        info = {"n_steps": len(target["steps"]), "n_rows": len(rows), "outcomes": rec["outcomes"],
                "wire_mismatch": [i for i, (w, r) in enumerate(zip(rec["wire"], rows))
                                  if list(bytes.fromhex(w[0])) != r["req"]
                                  or ([] if w[1] is None else list(bytes.fromhex(w[1]))) != r["rsp"]]}
        if sto:
            info["storage"] = dict(sto, in_effect=how["in_effect"], **storage_state(iso_db, rec["scan_run"], len(rows)))
        if (len(rows) != len(target["steps"]) and not target.get("tp")) or not rows:
            return [{"id": case["id"], "skip": "rows-lost-or-empty", "info": info}]
        reqs = [bytes(r["req"]) for r in rows]
        obs = await replay_run(iso_db, reqs, None, None, passes=2 if case.get("second_pass") else 1,
                               mutant=case.get("mutant"), at_req=_release(sto, closers, len(reqs)))
    finally:
        for c in closers:
            await c()
    base = [o["rep"] for o in obs[0]]
    out = [{"id": case["id"], "kind": "iso", "oob": [i + 1 for i in target.get("oob", [])],
            "sel": {"ecu": "", "props": []}, "rows": rows, "tgt": [r["id"] for r in rows],
            "obs": obs[0], "obs2": obs[1] if len(obs) > 1 else [], "base": [], "info": info}]
    lay = case.get("layout")
    if lay:
        pop_db = tmp / "pop.sqlite"
        runs = lay.get("before", []) + [target] + lay.get("after", [])
        ti = len(lay.get("before", []))
        url_name: dict[str, str] = {r["url"]: r["ecu_name"] for r in runs if r.get("ecu_name")}
        recs, closers, how = await build_db(pop_db, runs, ti, sto, [[u, n] for u, n in url_name.items()])
        try:
            run_url: dict[int, str] = {rc["scan_run"]: r["url"] for rc, r in zip(recs, runs)}
            rec2 = recs[ti]
            if not how["linked"]:
                for u, n in url_name.items():
                    link_ecu(pop_db, u, n)
            prow = read_db(pop_db, undisturbed=sto is not None)
            # ground truth of "which ECU was this run recorded against" is what the harness did (the URL each run
            # used and the name the user linked to that URL), not what the database still says about it
            for row in prow:
                row["ecu"] = url_name.get(run_url.get(row["run"], ""), "")
            tgt = [r["id"] for r in prow if r["run"] == rec2["scan_run"]]
            same = [(prow[i - 1]["req"], prow[i - 1]["rsp"], prow[i - 1]["st"]) for i in tgt] == \
                   [(r["req"], r["rsp"], r["st"]) for r in rows]
            sinfo = dict(sto, in_effect=how["in_effect"], **storage_state(pop_db, rec2["scan_run"], len(tgt))) \
                if sto else None
            for k, s in enumerate(lay["selectors"]):
                last = k == len(lay["selectors"]) - 1
                o = await replay_run(pop_db, reqs, s.get("ecu"), s.get("props"), mutant=case.get("mutant"),
                                     at_req=_release(sto, closers, len(reqs)) if last else None)
                pinfo: dict[str, Any] = {"rerecorded_identically": same, "selector": s}
                if sinfo:
                    pinfo["storage"] = sinfo
                out.append({"id": f"{case['id']}/s{k}", "kind": "pop", "oob": [i + 1 for i in target.get("oob", [])],
                            "sel": {"ecu": s.get("ecu") or "", "props": props_abs(s.get("props"))},
                            "rows": prow, "tgt": tgt, "obs": o[0], "obs2": [], "base": base if same else [],
                            "info": pinfo})
        finally:
            for c in closers:
                await c()
    return out


def run_case(case: dict[str, Any]) -> list[dict[str, Any]]:
    """Synchronous entry point (also the multiprocessing worker)."""
    import logging

    logging.disable(logging.CRITICAL)
    tmp = Path(tempfile.mkdtemp(prefix="c12-"))
    try:
        return asyncio.run(_run_case(case, tmp))
    finally:
        shutil.rmtree(tmp, ignore_errors=True)


def make_pool(workers: int | None = None) -> Any:
    """Fork the worker processes (do this BEFORE starting any thread)."""
    import multiprocessing as mp

    w = workers or max(1, min(8, (os.cpu_count() or 2) // 2))
    return mp.get_context("fork").Pool(w)


def run_cases(cases: list[dict[str, Any]], pool: Any = None) -> list[dict[str, Any]]:
    """Execute the cases (process pool; the result does not depend on scheduling:
    every case has its own database files and ECU objects)."""
    if not cases:
        return []
    if pool is None or len(cases) < 8:
        res = [run_case(c) for c in cases]
    else:
        res = pool.map(run_case, cases, chunksize=max(1, min(16, len(cases) // 64)))
    return [t for r in res for t in r]


def rnd(seed: int, *tags: Any) -> random.Random:
    return random.Random("|".join(str(x) for x in (seed, *tags)))


if __name__ == "__main__":
    if len(sys.argv) == 4 and sys.argv[1] == "record-and-die":
        _record_and_die(Path(sys.argv[2]), json.loads(sys.argv[3]))
    else:
        sys.exit("usage: python -m harness.c12_lib record-and-die <db> <json>")
