"""C12 plumbing: drive the REAL recording side (ECU + DBHandler) against an
in-process ECU model, read the produced scan database back, and ask a REAL
DBUDSServer the recorded requests through UDSServerTransport.handle_request.

Nothing in here judges the property: the functions only execute, observe and
serialise.  aiosqlite runs a worker thread, so everything runs on the normal
asyncio loop; the in-process transport raises TimeoutError for silence
immediately (no protocol timeout is ever waited for).
"""

from __future__ import annotations

import asyncio
import json
import os
import random
import shutil
import sqlite3
import tempfile
import time
from dataclasses import dataclass
from datetime import UTC, datetime
from pathlib import Path
from typing import Any, Self

from gallia.command.config import GalliaBaseModel
from gallia.db.handler import DBHandler
from gallia.services.uds.core import service
from gallia.services.uds.ecu import ECU, ECUProperties
from gallia.services.uds.server import (
    RNG,
    DBUDSServer,
    RandomUDSServer,
    UDSServerTransport,
)
from gallia.transports.base import BaseTransport, TargetURI

RAISED = [-1]  # reply marker: the virtual ECU raised instead of answering


# --------------------------------------------------------------------------- transport
class Peer:
    """An ECU as seen from the wire: one request in, one reply or silence out."""

    async def handle(self, idx: int, data: bytes) -> bytes | None:  # pragma: no cover
        raise NotImplementedError


class InProcTransport(BaseTransport, scheme="c12inproc"):
    def __init__(self, peer: Peer, url: str) -> None:
        super().__init__(TargetURI(url))
        self.peer = peer
        self.pending: bytes | None = None
        self.n = 0
        self.wire: list[tuple[str, str | None]] = []

    _live: dict[str, "InProcTransport"] = {}

    @classmethod
    async def connect(cls, target: str | TargetURI, timeout: float | None = None) -> Self:
        # reconnect(): a new transport object to the SAME peer; the ECU behind it is not told (a bus transport
        # like ISO-TP has no connection the ECU could notice), so it keeps its session and security level
        old = cls._live.get(str(target))
        if old is None:
            raise ConnectionRefusedError("in-process transport: nothing to reconnect to")
        new = cls(old.peer, str(target))
        new.n, new.wire, new.yielding = old.n, old.wire, old.yielding
        cls._live[str(target)] = new
        return new  # type: ignore[return-value]

    async def close(self) -> None:
        self.is_closed = True

    async def write(self, data: bytes, timeout: float | None = None, tags: list[str] | None = None) -> int:
        self.pending = await self.peer.handle(self.n, data)
        self.n += 1
        self.wire.append((data.hex(), None if self.pending is None else self.pending.hex()))
        return len(data)

    yielding = False  # a reply takes a moment: other tasks of the client run while a request is in flight

    async def read(self, timeout: float | None = None, tags: list[str] | None = None) -> bytes:
        if self.yielding:
            await asyncio.sleep(0)
            await asyncio.sleep(0)
        p, self.pending = self.pending, None
        if p is None:
            raise TimeoutError("in-process peer stays silent")
        return p


# --------------------------------------------------------------------------- ECU models
class DetRandomUDSServer(RandomUDSServer):
    """RandomUDSServer(seed) whose security seeds come from a seeded generator
    (the stock one draws them from OS entropy: same seed => same check result
    needs a reproducible recorded ECU).  Repeated seed requests still get
    different answers."""

    def __init__(self, seed: int, *a: Any, **kw: Any) -> None:
        super().__init__(seed, *a, **kw)
        self._sa_rng = RNG(seed, "c12-security-seeds")

    def security_access(self, request: service._SecurityAccessRequest) -> service.UDSResponse:
        if isinstance(request, service.RequestSeedRequest):
            return service.SecurityAccessResponse(
                request.security_access_type, self._sa_rng.random_payload(min_len=1)
            )
        return super().security_access(request)


MODEL_PARAMS: list[dict[str, Any]] = [
    # every service everywhere, many identifiers, two extra sessions
    dict(p_session=1.0, optional_sessions=[2, 3], p_service=1.0, p_sub_function=0.5, p_identifier=0.5,
         p_correct_payload_format=0.7),
    # sparser ECU: services / sub-functions missing in some sessions
    dict(p_session=0.6, optional_sessions=[2, 3, 0x40], p_service=0.7, p_sub_function=0.3, p_identifier=0.2,
         p_correct_payload_format=0.5),
]


class ModelPeer(Peer):
    """RandomUDSServer(seed) behind a real UDSServerTransport.  `drops`: exchanges
    whose reply is lost on the wire; `idles`: exchanges preceded by > 10 s of bus
    silence (the ECU falls back to its default state, as a real one does)."""

    def __init__(self, seed: int, params: int, drops: set[int], idles: set[int]) -> None:
        self.srv = DetRandomUDSServer(seed, RandomUDSServer.RandomnessParameters(**MODEL_PARAMS[params]))
        self.st = UDSServerTransport(self.srv, TargetURI("tcp-lines://127.0.0.1:1"))
        self.drops = drops
        self.idles = idles

    async def setup(self) -> None:
        await self.srv.setup()

    async def handle(self, idx: int, data: bytes) -> bytes | None:
        # bus timing is an environment event, not wall-clock luck: idle > 10 s exactly where scripted
        self.st.last_time_active = time.time() - (11.0 if idx in self.idles else 0.0)
        rep, _ = await self.st.handle_request(data)
        return None if idx in self.drops else rep


class ScriptPeer(Peer):
    """Answers exchange i with script[i] (bytes or None) whatever the request."""

    def __init__(self, script: list[bytes | None]) -> None:
        self.script = script

    async def setup(self) -> None:
        pass

    async def handle(self, idx: int, data: bytes) -> bytes | None:
        return self.script[idx] if idx < len(self.script) else None


def make_peer(spec: dict[str, Any]) -> Any:
    if spec["kind"] == "model":
        return ModelPeer(spec["seed"], spec.get("params", 0), set(spec.get("drops", [])), set(spec.get("idles", [])))
    return ScriptPeer([None if r is None else bytes.fromhex(r) for r in spec["script"]])


# --------------------------------------------------------------------------- properties
@dataclass
class Props(ECUProperties):
    """What a vendor ECU class would report from properties(): scalars of every JSON type."""

    variant: int = 0
    sw: str = ""
    hw: str | None = None
    coded: bool = False
    voltage: float = 0.0


def props_abs(d: dict[str, Any] | None) -> list[dict[str, str]]:
    """properties (dict) -> sequence of [k, t, v] with the JSON type named explicitly."""
    out = []
    for k, v in sorted((d or {}).items()):
        if v is None:
            t, s = "null", ""
        elif isinstance(v, bool):
            t, s = "bool", "1" if v else "0"
        elif isinstance(v, int):
            t, s = "int", str(v)
        elif isinstance(v, float):
            t, s = "float", repr(v)
        else:
            t, s = "str", str(v)
        out.append({"k": k, "t": t, "v": s})
    return out


# --------------------------------------------------------------------------- recording
def build_request(step: dict[str, Any], last_seed: bytes | None) -> service.UDSRequest:
    """A step is {"pdu": hex} or {"key": type, "good": bool} (key derived from the last seed reply)."""
    if "key" in step:
        key = last_seed if (step.get("good", True) and last_seed) else b"\x13\x37"
        return service.SendKeyRequest(step["key"], key)
    return service.UDSRequest.parse_dynamic(bytes.fromhex(step["pdu"]))


async def record_run(db: Path, run: dict[str, Any]) -> dict[str, Any]:
    """One gallia run: a fresh ECU client with a DBHandler logs every exchange of
    run["steps"] against run["peer"] into `db` (appending to whatever is there)."""
    peer = make_peer(run["peer"])
    await peer.setup()
    tr = InProcTransport(peer, run["url"])
    InProcTransport._live[str(tr.target)] = tr
    ecu = ECU(tr, timeout=0.05, max_retry=0)
    h = DBHandler(db)
    await h.connect()
    try:
        await h.insert_run_meta("c12-harness", GalliaBaseModel(), datetime.now(UTC).astimezone(), None)
        await h.insert_scan_run(run["url"])
        if run.get("props") is not None:
            await h.insert_scan_run_properties_pre(Props(**run["props"]))
        ecu.db_handler = h
        pinger: asyncio.Task[None] | None = None
        if run.get("tp"):
            # a second task of the same client (like the cyclic tester-present worker) keeps asking while the
            # history runs: its requests queue on the client mutex during the history's in-flight requests
            tr.yielding = True

            async def ping() -> None:
                for _ in range(3 * len(run["steps"]) + 3):
                    try:
                        await ecu.request(service.TesterPresentRequest(False))
                    except Exception:  # noqa: BLE001
                        pass
                    await asyncio.sleep(0)

            pinger = asyncio.create_task(ping())
        last_seed: bytes | None = None
        oob = set(run.get("oob", []))
        reconn = set(run.get("reconn", []))
        outcomes = []
        for i, step in enumerate(run["steps"]):
            if i in reconn:
                await ecu.reconnect()  # e.g. what a scanner does after a transport hiccup; the ECU is untouched
            if i in oob:
                ecu.state.reset()  # what ECU.power_cycle() does to the client-side state
            try:
                resp = await ecu.request(build_request(step, last_seed))
                outcomes.append("reply")
                if isinstance(resp, service.SecurityAccessResponse) and resp.security_access_type % 2 == 1:
                    last_seed = resp.security_seed
            except Exception as e:  # noqa: BLE001  (MissingResponse, IllegalResponse, ...)
                outcomes.append(type(e).__name__)
        scan_run = h.scan_run
        if pinger is not None:
            pinger.cancel()
            try:
                await pinger
            except BaseException:  # noqa: BLE001
                pass
    finally:
        InProcTransport._live.pop(str(tr.target), None)
        await h.disconnect()
    return {"scan_run": scan_run, "wire": tr.wire, "outcomes": outcomes}


def link_ecu(db: Path, url: str, name: str) -> None:
    """The `ecu` table is never written by gallia: a user links an address to a
    named ECU by hand.  Do the same."""
    con = sqlite3.connect(db)
    try:
        row = con.execute("SELECT id FROM ecu WHERE name = ?", (name,)).fetchone()
        if row is None:
            cur = con.execute("INSERT INTO ecu(name) VALUES (?)", (name,))
            eid = cur.lastrowid
        else:
            eid = row[0]
        con.execute("UPDATE address SET ecu = ? WHERE url = ?", (eid, url))
        con.commit()
    finally:
        con.close()


def read_db(db: Path) -> list[dict[str, Any]]:
    """Every scan_result row in id order with what the database knows about its run."""
    con = sqlite3.connect(db)
    try:
        q = ("SELECT r.id, r.run, r.state, r.request_pdu, r.response_pdu, s.properties_pre, "
             "(SELECT e.name FROM address a JOIN ecu e ON a.ecu = e.id WHERE a.id = s.address) "
             "FROM scan_result r JOIN scan_run s ON r.run = s.id ORDER BY r.id")
        out = []
        for rid, run, state, req, rsp, props, ename in con.execute(q):
            st = json.loads(state)
            lvl = st.get("security_access_level")
            out.append({
                "id": rid, "run": run, "ecu": ename or "",
                "props": props_abs(json.loads(props) if props else None),
                "st": {"session": st.get("session"), "level": 0 if lvl is None else lvl},
                "req": list(bytes.fromhex(req if isinstance(req, str) else req.decode())),
                "rsp": [] if rsp is None else list(bytes.fromhex(rsp if isinstance(rsp, str) else rsp.decode())),
            })
        return out
    finally:
        con.close()


# --------------------------------------------------------------------------- replay
def _state(srv: DBUDSServer) -> dict[str, int]:
    lvl = srv.state.security_access_level
    return {"session": srv.state.session, "level": 0 if lvl is None else lvl}


async def replay_run(db: Path, reqs: list[bytes], ecu: str | None, props: dict[str, Any] | None,
                     passes: int = 1, mutant: str | None = None) -> list[list[dict[str, Any]]]:
    """A fresh DBUDSServer (default state, cursor -1) on `db`, asked `reqs` in order.
    `mutant` (binding self-test only): "forget-cursor" resets the cursor between requests."""
    srv = DBUDSServer(db, ecu, props)
    await srv.setup()
    st = UDSServerTransport(srv, TargetURI("tcp-lines://127.0.0.1:1"))
    out = []
    try:
        for _ in range(passes):
            obs = []
            for r in reqs:
                ss = _state(srv)
                st.last_time_active = time.time()  # requests arrive without bus idle
                if mutant == "forget-cursor":
                    srv.last_response = -1
                try:
                    rep, _dt = await st.handle_request(r)
                    repl = [] if rep is None else list(rep)
                except Exception:  # noqa: BLE001
                    repl = RAISED
                obs.append({"ss": ss, "rep": repl, "cur": srv.last_response})
            out.append(obs)
    finally:
        await srv.teardown()
    return out


# --------------------------------------------------------------------------- one case
async def _run_case(case: dict[str, Any], tmp: Path) -> list[dict[str, Any]]:
    """case = {"id", "target": run, "oob": [...], "layout": None | {"before": [run..], "after": [run..],
    "selectors": [{"ecu": name|None, "props": {...}|None}, ...]}, "second_pass": bool}
    Returns the replays (one isolated, one per selector on the populated database)."""
    target = case["target"]
    iso_db = tmp / "iso.sqlite"
    rec = await record_run(iso_db, target)
    rows = read_db(iso_db)
    info = {"n_steps": len(target["steps"]), "n_rows": len(rows), "outcomes": rec["outcomes"],
            "wire_mismatch": [i for i, (w, r) in enumerate(zip(rec["wire"], rows))
                              if list(bytes.fromhex(w[0])) != r["req"]
                              or ([] if w[1] is None else list(bytes.fromhex(w[1]))) != r["rsp"]]}
    if (len(rows) != len(target["steps"]) and not target.get("tp")) or not rows:
        return [{"id": case["id"], "skip": "rows-lost-or-empty", "info": info}]
    reqs = [bytes(r["req"]) for r in rows]
    obs = await replay_run(iso_db, reqs, None, None, passes=2 if case.get("second_pass") else 1,
                           mutant=case.get("mutant"))
    base = [o["rep"] for o in obs[0]]
    out = [{"id": case["id"], "kind": "iso", "oob": [i + 1 for i in target.get("oob", [])],
            "sel": {"ecu": "", "props": []}, "rows": rows, "tgt": [r["id"] for r in rows],
            "obs": obs[0], "obs2": obs[1] if len(obs) > 1 else [], "base": [], "info": info}]
    lay = case.get("layout")
    if lay:
        pop_db = tmp / "pop.sqlite"
        run_url: dict[int, str] = {}
        for r in lay.get("before", []):
            run_url[(await record_run(pop_db, r))["scan_run"]] = r["url"]
        rec2 = await record_run(pop_db, target)
        run_url[rec2["scan_run"]] = target["url"]
        for r in lay.get("after", []):
            run_url[(await record_run(pop_db, r))["scan_run"]] = r["url"]
        url_name: dict[str, str] = {}
        for r in lay.get("before", []) + [target] + lay.get("after", []):
            if r.get("ecu_name"):
                link_ecu(pop_db, r["url"], r["ecu_name"])
                url_name[r["url"]] = r["ecu_name"]
        prow = read_db(pop_db)
        # ground truth of "which ECU was this run recorded against" is what the harness did (the URL each run
        # used and the name the user linked to that URL), not what the database still says about it
        for row in prow:
            row["ecu"] = url_name.get(run_url.get(row["run"], ""), "")
        tgt = [r["id"] for r in prow if r["run"] == rec2["scan_run"]]
        same = [(prow[i - 1]["req"], prow[i - 1]["rsp"], prow[i - 1]["st"]) for i in tgt] == \
               [(r["req"], r["rsp"], r["st"]) for r in rows]
        for k, s in enumerate(lay["selectors"]):
            o = await replay_run(pop_db, reqs, s.get("ecu"), s.get("props"))
            out.append({"id": f"{case['id']}/s{k}", "kind": "pop", "oob": [i + 1 for i in target.get("oob", [])],
                        "sel": {"ecu": s.get("ecu") or "", "props": props_abs(s.get("props"))},
                        "rows": prow, "tgt": tgt, "obs": o[0], "obs2": [], "base": base if same else [],
                        "info": {"rerecorded_identically": same, "selector": s}})
    return out


def run_case(case: dict[str, Any]) -> list[dict[str, Any]]:
    """Synchronous entry point (also the multiprocessing worker)."""
    import logging

    logging.disable(logging.CRITICAL)
    tmp = Path(tempfile.mkdtemp(prefix="c12-"))
    try:
        return asyncio.run(_run_case(case, tmp))
    finally:
        shutil.rmtree(tmp, ignore_errors=True)


def make_pool(workers: int | None = None) -> Any:
    """Fork the worker processes (do this BEFORE starting any thread)."""
    import multiprocessing as mp

    w = workers or max(1, min(8, (os.cpu_count() or 2) // 2))
    return mp.get_context("fork").Pool(w)


def run_cases(cases: list[dict[str, Any]], pool: Any = None) -> list[dict[str, Any]]:
    """Execute the cases (process pool; the result does not depend on scheduling:
    every case has its own database files and ECU objects)."""
    if not cases:
        return []
    if pool is None or len(cases) < 8:
        res = [run_case(c) for c in cases]
    else:
        res = pool.map(run_case, cases, chunksize=max(1, min(16, len(cases) // 64)))
    return [t for r in res for t in r]


def rnd(seed: int, *tags: Any) -> random.Random:
    return random.Random("|".join(str(x) for x in (seed, *tags)))
