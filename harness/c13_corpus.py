"""Request families for C13 / C14 (code -> spec): what is sent to the real
virtual ECU.  A history is a list of items; an item is bytes or a callable
`(probe) -> bytes | None` for requests that depend on an earlier reply (the
key that answers the last seed)."""

from __future__ import annotations

import random
from collections.abc import Callable, Iterator
from typing import Any

from gallia.services.uds.core import service

from harness.c13_ecu import SID_DSC, SID_ER, SID_RC, SID_RDBI, SID_SA, SID_TP, Probe, nav_path, parsable

Model = dict[int, dict[int, list[int] | None]]
Item = bytes | Callable[[Probe], bytes | None]

# what ISO 14229-1 / gallia's codec know as services with a sub-function byte
SF_SIDS = [0x10, 0x11, 0x27, 0x28, 0x3E, 0x85, 0x2C, 0x19, 0x31]
PLAIN_SIDS = [0x22, 0x23, 0x2E, 0x3D, 0x14, 0x2F, 0x34, 0x35, 0x36, 0x37]


def right_key(sub: int, suppress: bool = False) -> Callable[[Probe], bytes | None]:
    """SendKey answering the seed the server handed out last (identity key)."""

    def f(p: Probe) -> bytes | None:
        ls = p.last_seed()
        if ls is None or len(ls[1]) == 0:
            return None
        return bytes([SID_SA, sub | (0x80 if suppress else 0)]) + ls[1]

    return f


def wrong_key(sub: int) -> Callable[[Probe], bytes | None]:
    def f(p: Probe) -> bytes | None:
        ls = p.last_seed()
        seed = ls[1] if ls is not None and len(ls[1]) else b"\x00"
        return bytes([SID_SA, sub]) + bytes([seed[0] ^ 0xFF]) + seed[1:]

    return f


def valid_tails(sid: int, sub: int) -> list[bytes]:
    """Payloads after the sub-function byte that make the request parsable (where possible)."""
    if sid == SID_SA:
        return [b""] if sub % 2 == 1 else [b"\xaa"]
    if sid == 0x28:
        return [b"\x01"]
    if sid == SID_RC:
        return [b"\x12\x34", b"\xff\x00\x01"]
    if sid == 0x19:
        return [b"\xff"]
    if sid == 0x2C:
        return [b"\xf2\x00", b"\xf2\x00\xf1\x90\x01\x01"]
    return [b""]


def unoffered_session(m: Model) -> int:
    for s in (0x55, 0x7E, 0x05, 0x33):
        if s not in m:
            return s
    return next(s for s in range(1, 0x7F) if s not in m)


def structural_family(m: Model, session: int, rnd: random.Random) -> list[Item]:
    """One or more requests of every structural class, relative to the model and the session."""
    out: list[Item] = []
    known = {sid for svcs in m.values() for sid in svcs}
    here = m.get(session, {})
    # services in no session: sub-function shaped, plain, not a UDS service at all
    for pool in (SF_SIDS, PLAIN_SIDS, [0xBA, 0x00, 0xFF]):
        cand = [s for s in pool if s not in known]
        if cand:
            sid = cand[0]
            out += [bytes([sid]), bytes([sid, 0x01]), bytes([sid, 0x81]), bytes([sid, 0x01, 0x02, 0x03])]
    # services known only in another session
    other = sorted(known - set(here))
    for sid in other[:2] + [s for s in other if s in SF_SIDS][:1]:
        subs = next((v[sid] for v in m.values() if sid in v), None)
        out += [bytes([sid]), bytes([sid, 0x01])]
        if subs:
            out.append(bytes([sid, subs[0]]) + valid_tails(sid, subs[0])[0])
    # services of the active session
    sf_here = [s for s in sorted(here) if here[s] is not None]
    plain_here = [s for s in sorted(here) if here[s] is None]
    pick = [s for s in (SID_DSC, SID_TP, SID_SA, SID_RC, SID_ER) if s in sf_here]
    pick += [s for s in sf_here if s not in pick][:2]
    for sid in pick:
        subs = here[sid] or []
        out.append(bytes([sid]))
        elsewhere = sorted({x for s2, v in m.items() if s2 != session and sid in v for x in (v[sid] or [])} - set(subs))
        nowhere = [x for x in (0x7D, 0x6B, 0x05, 0x09) if x not in subs and x not in elsewhere]
        for sub in subs[:2] + elsewhere[:1] + nowhere[:1]:
            for tail in valid_tails(sid, sub)[:1]:
                if sid == SID_SA and sub % 2 == 0:
                    continue  # key requests are added with their seed below
                out += [bytes([sid, sub]) + tail, bytes([sid, sub | 0x80]) + tail]
            out.append(bytes([sid, sub]) + b"\x00" * 9)
        out.append(bytes([sid, 0x00]))
    for sid in plain_here[:3]:
        out += [bytes([sid]), bytes([sid, 0x12]), bytes([sid, 0x12, 0x34]), bytes([sid, 0x12, 0x34, 0x56]),
                bytes([sid, 0xFF, 0xFF, 0xFF])]
    # session read / tester present / session change, whatever the model says about them
    out += [bytes([SID_RDBI, 0xF1, 0x86]), bytes([SID_RDBI, 0xF1, 0x86, 0x12, 0x34]), bytes([SID_RDBI, 0x12, 0x34]),
            bytes([SID_RDBI, 0xF1]), bytes([SID_TP, 0x00]), bytes([SID_TP, 0x80]), bytes([SID_TP, 0x01]),
            bytes([SID_TP, 0x00, 0x00]), bytes([SID_DSC, 0x01, 0x00])]
    # security access: seed, key (wrong / right / out of sequence), with and without suppress bit
    sa = here.get(SID_SA) or []
    for sub in [x for x in sa if x % 2 == 1][:2]:
        out += [bytes([SID_SA, sub + 1, 0xAA]), bytes([SID_SA, sub]), wrong_key(sub + 1),
                bytes([SID_SA, sub]), right_key(sub + 1), bytes([SID_RDBI, 0xF1, 0x86]),
                bytes([SID_SA, sub | 0x80]), right_key(sub + 1, suppress=True), bytes([SID_SA, sub + 1])]
    # ECU reset variants
    for sub in (here.get(SID_ER) or [])[:2]:
        out += [bytes([SID_ER, sub]), bytes([SID_ER, sub | 0x80])]
    # session changes last (they move the server): unoffered session, then offered ones
    u = unoffered_session(m)
    out += [bytes([SID_DSC, u]), bytes([SID_TP, 0x00]), bytes([SID_RDBI, 0xF1, 0x86]), bytes([SID_DSC]),
            bytes([SID_DSC, u | 0x80]), bytes([SID_TP, 0x00]),
            bytes([SID_DSC, 0x01])]
    for t in (here.get(SID_DSC) or [])[:3]:
        out += [bytes([SID_DSC, t | 0x80]), bytes([SID_RDBI, 0xF1, 0x86]), bytes([SID_DSC, 0x01])]
    return out


def short_family(m: Model, session: int) -> list[Item]:
    """A reduced structural family (for the 2^9 switch subsets)."""
    known = {sid for svcs in m.values() for sid in svcs}
    here = m.get(session, {})
    out: list[Item] = []
    sf_unknown = next((s for s in SF_SIDS if s not in known), None)
    if sf_unknown is not None:
        out += [bytes([sf_unknown]), bytes([sf_unknown, 0x01]) + valid_tails(sf_unknown, 1)[0]]
    out += [bytes([0xBA]), bytes([0xBA, 0x81])]
    other = sorted(known - set(here))
    if other:
        out += [bytes([other[0]]), bytes([other[0], 0x01])]
    sf_here = [s for s in (SID_TP, SID_SA, SID_RC, SID_ER) if here.get(s) is not None]
    sf_here += [s for s in sorted(here) if here[s] is not None and s not in sf_here and s != SID_DSC][:1]
    for sid in sf_here[:3]:
        subs = here[sid] or []
        out.append(bytes([sid]))
        for sub in subs[:1] + [0x6B]:
            if sid == SID_SA and sub % 2 == 0:
                continue
            t = valid_tails(sid, sub)[0]
            out += [bytes([sid, sub]) + t, bytes([sid, sub | 0x80]) + t]
    plain = [s for s in sorted(here) if here[s] is None]
    for sid in plain[:1]:
        out += [bytes([sid]), bytes([sid, 0x12, 0x34, 0x56])]
    out += [bytes([SID_RDBI, 0xF1, 0x86]), bytes([SID_RDBI, 0xF1]), bytes([SID_TP, 0x00]), bytes([SID_TP, 0x80]),
            bytes([SID_TP])]
    sa = [x for x in (here.get(SID_SA) or []) if x % 2 == 1][:1]
    for sub in sa:
        out += [bytes([SID_SA, sub]), right_key(sub + 1), bytes([SID_SA, sub | 0x80]), right_key(sub + 1, True)]
    u = unoffered_session(m)
    out += [bytes([SID_DSC]), bytes([SID_DSC, 0x01, 0x00]), bytes([SID_DSC, u]), bytes([SID_TP, 0x00]),
            bytes([SID_RDBI, 0xF1, 0x86]), bytes([SID_DSC, 0x01])]
    for t in [x for x in (here.get(SID_DSC) or []) if x != session][:1]:
        out += [bytes([SID_DSC, t | 0x80]), bytes([SID_RDBI, 0xF1, 0x86]), bytes([SID_TP, 0x00]), bytes([SID_DSC, 0x01])]
    return out


def structured_valid(rnd: random.Random, n: int) -> list[bytes]:
    """Well-formed requests built with gallia's own request classes (incl. suppress-bit and
    multi-identifier variants); the pdu of a broken request class is skipped (C01's subject)."""
    S = service
    mk: list[Callable[[], Any]] = [
        lambda: S.DiagnosticSessionControlRequest(rnd.randint(1, 0x7E), rnd.random() < 0.3),
        lambda: S.ECUResetRequest(rnd.choice([1, 2, 3, 4, 5, rnd.randint(6, 0x7E)]), rnd.random() < 0.3),
        lambda: S.RequestSeedRequest(rnd.randrange(1, 0x7E, 2), rnd.randbytes(rnd.randint(0, 3)), rnd.random() < 0.3),
        lambda: S.SendKeyRequest(rnd.randrange(2, 0x7E, 2), rnd.randbytes(rnd.randint(1, 6)), rnd.random() < 0.3),
        lambda: S.CommunicationControlRequest(rnd.randint(0, 0x7F), rnd.randint(0, 255), rnd.random() < 0.3),
        lambda: S.TesterPresentRequest(rnd.random() < 0.5),
        lambda: S.ControlDTCSettingRequest(rnd.randint(1, 2), rnd.randbytes(rnd.randint(0, 3)), False),
        lambda: S.ReadDataByIdentifierRequest(rnd.choice([0xF186, 0xF190, rnd.randint(0, 0xFFFF)])),
        lambda: S.ReadDataByIdentifierRequest([rnd.choice([0xF186, rnd.randint(0, 0xFFFF)])
                                               for _ in range(rnd.randint(2, 4))]),
        lambda: S.WriteDataByIdentifierRequest(rnd.randint(0, 0xFFFF), rnd.randbytes(rnd.randint(1, 8))),
        lambda: S.ReadMemoryByAddressRequest(rnd.randint(0, 0xFFFFFF), rnd.randint(1, 0xFF)),
        lambda: S.WriteMemoryByAddressRequest(rnd.randint(0, 0xFFFF), rnd.randbytes(rnd.randint(1, 8))),
        lambda: S.ClearDiagnosticInformationRequest(rnd.choice([0xFFFFFF, rnd.randint(0, 0xFFFFFF)])),
        lambda: S.ReportDTCByStatusMaskRequest(rnd.randint(0, 255), rnd.random() < 0.3),
        lambda: S.ReportNumberOfDTCByStatusMaskRequest(rnd.randint(0, 255), rnd.random() < 0.3),
        lambda: S.ReportSupportedDTCRequest(rnd.random() < 0.3),
        lambda: S.InputOutputControlByIdentifierRequest(rnd.randint(0, 0xFFFF), rnd.randbytes(rnd.randint(1, 4))),
        lambda: S.ReturnControlToECURequest(rnd.randint(0, 0xFFFF)),
        lambda: S.StartRoutineRequest(rnd.randint(0, 0xFFFF), rnd.randbytes(rnd.randint(0, 4)), rnd.random() < 0.3),
        lambda: S.StopRoutineRequest(rnd.randint(0, 0xFFFF), rnd.randbytes(rnd.randint(0, 4)), rnd.random() < 0.3),
        lambda: S.RequestRoutineResultsRequest(rnd.randint(0, 0xFFFF), b"", rnd.random() < 0.3),
        lambda: S.RequestDownloadRequest(rnd.randint(0, 0xFFFF), rnd.randint(1, 0xFFFF)),
        lambda: S.TransferDataRequest(rnd.randint(0, 255), rnd.randbytes(rnd.randint(0, 8))),
        lambda: S.RequestTransferExitRequest(rnd.randbytes(rnd.randint(0, 4))),
    ]
    out: list[bytes] = []
    while len(out) < n:
        try:
            pdu = bytes(rnd.choice(mk)().pdu)
        except Exception:  # noqa: BLE001
            continue
        out.append(pdu)
    return out


def after(dt: float, item: Item) -> Callable[[Probe], bytes | None]:
    """`item`, sent `dt` seconds (of the server's clock) after the previous request."""
    from harness.c13_ecu import CLOCK

    def f(p: Probe) -> bytes | None:
        CLOCK.advance(dt)
        return item(p) if callable(item) else item

    return f


def keep_alive_family(m: Model, session: int) -> list[Item]:
    """A tester that keeps its session alive with suppressed TesterPresent / other unanswered requests, every 4 s
    for 24 s: requests never stop, so nothing may fall back (no gap reaches the 10 s inactivity limit)."""
    here = m.get(session, {})
    out: list[Item] = [bytes([SID_RDBI, 0xF1, 0x86])]
    sa = [x for x in (here.get(SID_SA) or []) if x % 2 == 1][:1]
    for sub in sa:
        out += [bytes([SID_SA, sub]), right_key(sub + 1)]
    for _ in range(6):
        out.append(after(4.0, bytes([SID_TP, 0x80])))
    out += [after(4.0, bytes([SID_RDBI, 0xF1, 0x86])), bytes([SID_TP, 0x00])]
    for sub in sa:
        out += [after(4.0, bytes([SID_SA, sub | 0x80])), after(4.0, bytes([SID_TP, 0x80])), after(4.0, bytes([SID_TP, 0x80])),
                after(1.0, bytes([SID_RDBI, 0xF1, 0x86]))]
    return out


def idle_family(m: Model, session: int) -> list[Item]:
    """More than 10 s without any request at different points of a security-access handshake and around session
    changes (the server falls back to its power-on state; whatever comes next must still be answered properly)."""
    here = m.get(session, {})
    out: list[Item] = []
    sa = [x for x in (here.get(SID_SA) or []) if x % 2 == 1][:2]
    for sub in sa:
        out += [bytes([SID_SA, sub]), after(11.0, right_key(sub + 1)), bytes([SID_SA, sub]), right_key(sub + 1),
                after(11.0, bytes([SID_SA, sub + 1, 0x01])), after(11.0, bytes([SID_TP, 0x00])),
                bytes([SID_SA, sub]), after(30.0, bytes([SID_TP, 0x80])), right_key(sub + 1)]
    out += [after(11.0, bytes([SID_RDBI, 0xF1, 0x86])), after(11.0, bytes([SID_SA, 0x02, 0xAA])),
            after(11.0, bytes([SID_DSC, 0x01])), after(11.0, bytes([SID_ER, 0x01]))]
    return out


def structured_boundary() -> list[bytes]:
    """Well-formed requests built with gallia's own request classes at the BOUNDARY values of their parameters
    (zero / one / maximal addresses, sizes, identifiers, masks; empty and long records; explicit
    addressAndLengthFormatIdentifiers).  Deterministic; a parameter record the class refuses is skipped."""
    S = service
    mk: list[Callable[[], Any]] = []
    addrs = [0, 1, 0x80, 0xFF, 0x100, 0xFFFF, 0x10000, 0xFFFFFFFF]
    sizes = [0, 1, 0xFF, 0x100, 0xFFFF]
    for a in addrs:
        for z in sizes:
            mk.append(lambda a=a, z=z: S.ReadMemoryByAddressRequest(a, z))
            mk.append(lambda a=a, z=z: S.RequestDownloadRequest(a, z))
            mk.append(lambda a=a, z=z: S.RequestUploadRequest(a, z))
        for fmt in (0x11, 0x12, 0x24, 0x14, 0x44):
            mk.append(lambda a=a, fmt=fmt: S.ReadMemoryByAddressRequest(a, 0, fmt))
            mk.append(lambda a=a, fmt=fmt: S.ReadMemoryByAddressRequest(a, 1, fmt))
        for data in (b"", b"\x00", bytes(255)):
            mk.append(lambda a=a, data=data: S.WriteMemoryByAddressRequest(a, data))
    for did in (0x0000, 0x0001, 0xF186, 0xF190, 0xFFFF):
        mk.append(lambda did=did: S.ReadDataByIdentifierRequest(did))
        mk.append(lambda did=did: S.ReadDataByIdentifierRequest([did, did]))
        for data in (b"", b"\x00", bytes(64)):
            mk.append(lambda did=did, data=data: S.WriteDataByIdentifierRequest(did, data))
            mk.append(lambda did=did, data=data: S.InputOutputControlByIdentifierRequest(did, data))
            mk.append(lambda did=did, data=data: S.ShortTermAdjustmentRequest(did, data))
        mk.append(lambda did=did: S.ReturnControlToECURequest(did))
        mk.append(lambda did=did: S.ResetToDefaultRequest(did))
        mk.append(lambda did=did: S.FreezeCurrentStateRequest(did))
        for sup in (False, True):
            for data in (b"", bytes(8)):
                mk.append(lambda did=did, data=data, sup=sup: S.StartRoutineRequest(did, data, sup))
                mk.append(lambda did=did, data=data, sup=sup: S.StopRoutineRequest(did, data, sup))
                mk.append(lambda did=did, data=data, sup=sup: S.RequestRoutineResultsRequest(did, data, sup))
    for sup in (False, True):
        for v in (0x00, 0x01, 0x02, 0x03, 0x04, 0x05, 0x7E, 0x7F):
            mk.append(lambda v=v, sup=sup: S.DiagnosticSessionControlRequest(v, sup))
            mk.append(lambda v=v, sup=sup: S.ECUResetRequest(v, sup))
            mk.append(lambda v=v, sup=sup: S.ControlDTCSettingRequest(v, b"", sup))
            mk.append(lambda v=v, sup=sup: S.CommunicationControlRequest(v, 0, sup))
            mk.append(lambda v=v, sup=sup: S.CommunicationControlRequest(v, 0xFF, sup))
        for lvl in (0x01, 0x03, 0x7D):
            mk.append(lambda lvl=lvl, sup=sup: S.RequestSeedRequest(lvl, b"", sup))
            for key in (b"", b"\x00", bytes(32)):
                mk.append(lambda lvl=lvl, key=key, sup=sup: S.SendKeyRequest(lvl + 1, key, sup))
        for mask in (0x00, 0x01, 0xFF):
            mk.append(lambda mask=mask, sup=sup: S.ReportDTCByStatusMaskRequest(mask, sup))
            mk.append(lambda mask=mask, sup=sup: S.ReportNumberOfDTCByStatusMaskRequest(mask, sup))
        mk.append(lambda sup=sup: S.ReportSupportedDTCRequest(sup))
        mk.append(lambda sup=sup: S.TesterPresentRequest(sup))
    for g in (0x000000, 0x000001, 0xFFFFFE, 0xFFFFFF):
        mk.append(lambda g=g: S.ClearDiagnosticInformationRequest(g))
    for bsc in (0, 1, 255):
        for data in (b"", b"\x00", bytes(255)):
            mk.append(lambda bsc=bsc, data=data: S.TransferDataRequest(bsc, data))
    for data in (b"", b"\x00", bytes(16)):
        mk.append(lambda data=data: S.RequestTransferExitRequest(data))
    out: list[bytes] = []
    seen: set[bytes] = set()
    for f in mk:
        try:
            pdu = bytes(f().pdu)
        except Exception:  # noqa: BLE001
            continue
        if pdu not in seen:
            seen.add(pdu)
            out.append(pdu)
    return out


def model_aware_valid(m: Model, session: int, rnd: random.Random, n: int) -> list[Item]:
    """Parsable requests aimed at the services / sub-functions the session really offers."""
    here = m.get(session, {})
    out: list[Item] = []
    sids = sorted(here)
    if not sids:
        return out
    for _ in range(n):
        sid = rnd.choice(sids)
        subs = here[sid]
        if subs is not None:
            if not subs:
                continue
            sub = rnd.choice(subs)
            bit = 0x80 if rnd.random() < 0.3 else 0
            if sid == SID_SA and sub % 2 == 0:
                out += [bytes([SID_SA, sub - 1]), right_key(sub, bool(bit)) if rnd.random() < 0.6 else wrong_key(sub)]
                continue
            if sid == SID_DSC and rnd.random() < 0.7:
                continue  # keep most of the sample in this session
            tail = rnd.choice(valid_tails(sid, sub))
            if sid == SID_RC:
                tail = rnd.randbytes(2) + rnd.randbytes(rnd.randint(0, 3))
            out.append(bytes([sid, sub | bit]) + tail)
        else:
            ln = rnd.choice([2, 3, 3, 4, 5, 8])
            out.append(bytes([sid]) + rnd.randbytes(ln))
            if sid == SID_RDBI:
                out.append(bytes([sid]) + rnd.randbytes(2 * rnd.randint(1, 3)))
    return out


def sweep01(sids: range | list[int] = range(256)) -> Iterator[bytes]:
    """Every service id with 0 and 1 payload bytes."""
    for sid in sids:
        yield bytes([sid])
        for b in range(256):
            yield bytes([sid, b])


def sampled23(rnd: random.Random, per_sid: int) -> list[bytes]:
    out = []
    for sid in range(256):
        for _ in range(per_sid):
            out.append(bytes([sid]) + rnd.randbytes(rnd.choice([2, 3])))
    return out


def sf256(m: Model, session: int) -> list[bytes]:
    """All 256 sub-function bytes for every sub-function service (with a payload that can parse)."""
    here = m.get(session, {})
    out = []
    for sid in SF_SIDS:
        if sid not in here and sid not in (SID_DSC, SID_SA):
            continue
        for b in range(256):
            t = valid_tails(sid, b & 0x7F)[0]
            if t:
                out.append(bytes([sid, b]) + t)
            if sid == SID_DSC:
                out.append(bytes([SID_DSC, 0x01]))  # come back
    return out


async def run_history(p: Probe, m: Model, items: list[Item], *, home: int | None = None,
                      max_nav: int = 4) -> list[dict[str, Any]]:
    """Send the items; with `home` set, walk back to that session (by DiagnosticSessionControl
    requests, which are part of the recorded history) whenever the server has left it."""
    steps: list[dict[str, Any]] = []
    for it in items:
        if home is not None and p.state()[0] != home:
            path = nav_path(m, p.state()[0], home)
            if path is None:
                path = [1] + (nav_path(m, 1, home) or [])
            for t in path[:max_nav]:
                steps.append(await p.exchange(bytes([SID_DSC, t])))
        pdu = it(p) if callable(it) else it
        if pdu is None:
            continue
        steps.append(await p.exchange(pdu))
    return steps


__all__ = ["structural_family", "short_family", "structured_valid", "structured_boundary", "after", "keep_alive_family", "idle_family", "model_aware_valid", "sweep01", "sampled23",
           "sf256", "run_history", "right_key", "wrong_key", "unoffered_session", "parsable"]
