"""DoIP gateway fake + scenario runner for C06 (and C08).

Frames are encoded/decoded here independently of gallia (ISO 13400-2 generic
header: version, inverse version, payload type u16, payload length u32).
"""

from __future__ import annotations

import asyncio
import struct
from typing import Any

from harness.streams import Listener, Wire, call_at_ms, patched_connections, settle
from harness.vloop import now_ms

SRC = 0x0E00
TGT = 0x001D
OTHER = 0x2222
ACK_TIME = 2000
ALIVE_TIME = 500

PT = {"HeaderNack": 0x0000, "RoutingReq": 0x0005, "RoutingResp": 0x0006, "AliveReq": 0x0007, "AliveResp": 0x0008,
      "Diag": 0x8001, "Ack": 0x8002, "Nack": 0x8003, "Unknown": 0x4002}
PT_INV = {v: k for k, v in PT.items()}


UNKNOWN_TYPES = [0x4002, 0xF001, 0x9ABC, 0x0004]
# payload types the client does not parse, for the frames WITH a payload of a chosen length ("Unk:<len>",
# "UnkM:<len>"): defined ones a tester has no use for on its TCP connection (entity status request / response, power
# mode response, vehicle announcement), the manufacturer specific range 0xF000-0xFFFF, unassigned numbers (also the
# neighbours of the diagnostic payload types)
UNPARSED_TYPES = [0x4002, 0xF011, 0x4004, 0x0004, 0x8004, 0xF0A5, 0xFFFF, 0x8000, 0x7FFF, 0x9ABC, 0x4001, 0xF000]
# what a parser that lost frame synchronisation inside such a payload would find there: complete, well-formed frames
# for us (a negative response relayed from the target to our source address)
PHANTOM_DATA = [0x7F, 0x22, 0x33]


def unparsed_payload(length: int, prefix: bytes = b"", ver: int = 3) -> list[int]:
    """`length` payload bytes of a frame the client has no parser for: `prefix`, then back-to-back diagnostic
    messages target -> source (header + addresses + PHANTOM_DATA, 15 bytes each), truncated to `length`."""
    one = hdr(ver, PT["Diag"], 4 + len(PHANTOM_DATA)) + struct.pack("!HH", TGT, SRC) + bytes(PHANTOM_DATA)
    buf = prefix + one * (length // len(one) + 2)
    return list(buf[:length])


def hdr(ver: int, ptype: int, length: int) -> bytes:
    return struct.pack("!BBHL", ver, ver ^ 0xFF, ptype, length)


def enc(frame: dict[str, Any], ver: int = 3) -> bytes:
    k = frame["k"]
    if k == "Diag":
        p = struct.pack("!HH", frame["src"], frame["dst"]) + bytes(frame["d"])
    elif k in ("Ack", "Nack"):
        p = struct.pack("!HHB", frame["src"], frame["dst"], frame["code"]) + bytes(frame["d"])
    elif k == "AliveReq":
        p = b""
    elif k == "Unknown":
        p = bytes(frame.get("p", (0, 1, 1)))
    elif k == "RoutingResp":
        p = struct.pack("!HHBI", frame["dst"], frame["src"], frame["code"], 0)
    elif k == "HeaderNack":
        p = bytes([frame["code"]])
    else:
        raise ValueError(k)
    return hdr(frame.get("ver", ver), frame.get("pt", PT[k]), len(p)) + p


def dec_out(buf: bytes) -> tuple[list[dict[str, Any]], bytes]:
    """Parse complete frames written by the client; returns (frames, rest)."""
    out = []
    while len(buf) >= 8:
        ver, inv, ptype, ln = struct.unpack("!BBHL", buf[:8])
        if len(buf) < 8 + ln:
            break
        p = buf[8:8 + ln]
        buf = buf[8 + ln:]
        k = PT_INV.get(ptype, "Other")
        f: dict[str, Any] = {"k": k, "ver": ver, "src": -1, "dst": -1, "code": -1, "d": []}
        if inv != ver ^ 0xFF:
            f["k"] = "Other"
        elif k == "RoutingReq" and ln == 7:
            f["src"], f["code"], _res = struct.unpack("!HBI", p)
        elif k == "Diag" and ln >= 4:
            f["src"], f["dst"] = struct.unpack("!HH", p[:4])
            f["d"] = list(p[4:])
        elif k == "AliveResp" and ln == 2:
            (f["src"],) = struct.unpack("!H", p)
        else:
            f["k"] = "Other"
        out.append(f)
    return out, buf


def gw_frame(name: str, req: bytes, n: int) -> dict[str, Any]:
    """Gateway alphabet. `req` = data of the client's (current/last) request, `n` = running number
    used to give every diagnostic message for us distinct user data."""
    base = {"src": TGT, "dst": SRC, "code": 0, "d": []}
    if name.startswith("X/"):  # the same frame under a name of its own (the frame under test of a scenario)
        return gw_frame(name[2:], req, n)
    if name == "Ack":
        return {**base, "k": "Ack", "d": list(req)}
    if name == "AckEmpty":
        return {**base, "k": "Ack"}
    if name == "AckShort":
        return {**base, "k": "Ack", "d": list(req[:1])}
    if name == "AckWrongPrev":
        return {**base, "k": "Ack", "d": [x ^ 0xFF for x in req] or [0x55]}
    if name == "AckOtherPair":
        return {**base, "k": "Ack", "src": OTHER, "d": list(req)}
    if name == "NackTU":
        return {**base, "k": "Nack", "code": 6, "d": list(req)}
    if name == "NackBad":
        return {**base, "k": "Nack", "code": 3, "d": list(req)}
    if name == "DiagUs":
        return {**base, "k": "Diag", "d": [0x62, 0xF1, n & 0xFF]}
    if name == "DiagOther":
        return {**base, "k": "Diag", "src": OTHER, "d": [0x7F, 0x00, n & 0xFF]}
    if name == "DiagOtherDst":
        return {**base, "k": "Diag", "dst": OTHER, "d": [0x7F, 0x01, n & 0xFF]}
    if name == "AliveReq":
        return {**base, "k": "AliveReq"}
    if name == "Unknown":
        # payload types the client has no use for: a defined one (status response), the manufacturer specific
        # range of ISO 13400-2 (0xF000-0xFFFF), an unassigned number, a vehicle announcement sent over TCP
        return {**base, "k": "Unknown", "pt": UNKNOWN_TYPES[n % len(UNKNOWN_TYPES)]}
    if name == "HeaderNack":
        return {**base, "k": "HeaderNack", "code": 2}
    if name.startswith(("Unk:", "UnkM:")):
        # unparsed payload type WITH a payload of the given length.  "Unk:<len>": the payload is a run of well-formed
        # diagnostic messages for us; "UnkM:<len>": the same behind two addresses (a gateway mirroring the traffic of
        # another tester in a manufacturer specific frame).  The payload type rotates with the length and the position.
        kind, ln = name.split(":")
        length = int(ln)
        prefix = struct.pack("!HH", 0x0E80, TGT) if kind == "UnkM" else b""
        return {**base, "k": "Unknown", "pt": UNPARSED_TYPES[(n + length) % len(UNPARSED_TYPES)],
                "p": unparsed_payload(length, prefix)}
    if name.startswith(("DiagUs:", "DiagOther:", "DiagOtherDst:")):
        # diagnostic messages with <len> bytes of user data (for us: distinct per n; foreign pair: phantom frames)
        kind, ln = name.split(":")
        length = int(ln)
        if kind == "DiagUs":
            d = [0x62, 0xF1, n & 0xFF] + [(7 * i + n) & 0xFF for i in range(length)]
            return {**base, "k": "Diag", "d": d[:length]}
        other = {"src": OTHER} if kind == "DiagOther" else {"dst": OTHER}
        return {**base, **other, "k": "Diag", "d": unparsed_payload(length)}
    raise ValueError(name)


class Recorder:
    def __init__(self) -> None:
        self.ev: list[dict[str, Any]] = []

    def add(self, e: str, **kw: Any) -> None:
        self.ev.append({"e": e, "t": now_ms(), **kw})


class Gateway:
    """The peer of one DoIPTransport under test."""

    def __init__(self, rec: Recorder, *, rr_code: int | None = 0x10, ver: int = 3) -> None:
        self.rec = rec
        self.listener = Listener()
        self.listener.on_accept = self._accepted
        self.wire: Wire | None = None
        self.rr_code = rr_code
        self.ver = ver
        self.outbuf = b""
        self.on_diag_out: Any = None  # callback(frame) at the instant the client's Diag hits the wire
        self.last_req = b""
        self.nfeeds = 0
        self.auto_ack: str | None = None  # frame name fed synchronously when the client's Diag is seen
        self._q: list[list[Any]] = []
        self._waiting = False

    def _accepted(self, w: Wire) -> None:
        self.wire = w
        self.outbuf = b""
        w.on_out = self._on_out
        w.on_client_close = lambda: self.rec.add("Closed")

    def _on_out(self, data: bytes) -> None:
        self.outbuf += data
        frames, self.outbuf = dec_out(self.outbuf)
        for f in frames:
            self.rec.add("Out", f=f)
            if f["k"] == "RoutingReq" and self.rr_code is not None:
                self.feed({"k": "RoutingResp", "src": TGT, "dst": f["src"] if f["src"] >= 0 else SRC,
                           "code": self.rr_code, "d": []})
            if f["k"] == "Diag":
                self.last_req = bytes(f["d"])
                if self.auto_ack:
                    self.feed_named(self.auto_ack)
                if self.on_diag_out is not None:
                    self.on_diag_out(f)

    def feed_named(self, name: str, cut: int | list[int] | tuple[int, ...] | None = None, gap_ms: int = 0) -> None:
        self.nfeeds += 1
        self.feed(gw_frame(name, self.last_req, self.nfeeds), cut=cut, gap_ms=gap_ms)

    def feed(self, frame: dict[str, Any], cut: int | list[int] | tuple[int, ...] | None = None,
             gap_ms: int = 0) -> None:
        """Send one frame, optionally cut into TCP segments at the offset(s) `cut` (`gap_ms` apart; 0 = next
        loop iteration).  Bytes stay in stream order: later frames queue behind a pending remainder."""
        assert self.wire is not None
        raw = enc(frame, self.ver)
        f = {"k": frame["k"], "src": frame.get("src", -1), "dst": frame.get("dst", -1),
             "code": frame.get("code", -1), "d": list(frame.get("d", [])), "ver": frame.get("ver", self.ver)}
        cuts = [] if cut is None else [cut] if isinstance(cut, int) else list(cut)
        cuts = sorted({c for c in cuts if 0 < c < len(raw)})
        if not cuts:
            self._q.append([raw, f, None])
        else:
            bounds = [0] + cuts + [len(raw)]
            for i in range(len(bounds) - 1):
                last = i == len(bounds) - 2
                self._q.append([raw[bounds[i]:bounds[i + 1]], f if last else None, gap_ms if i > 0 else None])
        self._pump()

    def _pump(self) -> None:
        if self._waiting:
            return
        w = self.wire
        assert w is not None
        while self._q:
            chunk, f, gap = self._q[0]
            if gap is not None:
                self._q[0][2] = None
                self._waiting = True
                loop = asyncio.get_running_loop()

                def resume() -> None:
                    self._waiting = False
                    self._pump()

                if gap <= 0:
                    loop.call_soon(resume)
                else:
                    loop.call_later(gap / 1000.0, resume)
                return
            self._q.pop(0)
            if w.feed(chunk) and f is not None:
                self.rec.add("Feed", f=f)


def classify_exc(e: BaseException) -> str:
    if isinstance(e, TimeoutError):
        return "Timeout"
    if isinstance(e, (ConnectionError, asyncio.IncompleteReadError, EOFError)):
        return "ConnErr"
    return "Other"


def uri(src: int = SRC, tgt: int = TGT, act: int | None = None, ver: int | None = None) -> str:
    q = f"src_addr={src:#x}&target_addr={tgt:#x}"
    if act is not None:
        q += f"&activation_type={act:#x}"
    if ver is not None:
        q += f"&protocol_version={ver}"
    return f"doip://127.0.0.1:13400?{q}"


async def do_op(rec: Recorder, tr: Any, op: str, tmo: float | None, data: bytes) -> str:
    rec.add("Begin", op=op, tmo=-1 if tmo is None else int(round(tmo * 1000)), d=list(data))
    res, d = "ok", []
    try:
        if op == "write":
            await tr.write(data, timeout=tmo)
        else:
            d = list(await tr.read(timeout=tmo))
    except asyncio.CancelledError:
        rec.add("End", op=op, res="Other", d=[])
        raise
    except BaseException as e:  # noqa: BLE001
        res = classify_exc(e)
    rec.add("End", op=op, res=res, d=d)
    return res


async def connect(rec: Recorder, gw: Gateway, target: str, tmo: float | None = None) -> Any:
    from gallia.transports.doip import DoIPTransport

    rec.add("Begin", op="connect", tmo=-1 if tmo is None else int(round(tmo * 1000)), d=[])
    try:
        with patched_connections(gw.listener):
            tr = await DoIPTransport.connect(target, timeout=tmo)
    except asyncio.CancelledError:
        raise
    except BaseException as e:  # noqa: BLE001
        rec.add("End", op="connect", res=classify_exc(e), d=[])
        return None
    rec.add("End", op="connect", res="ok", d=[])
    return tr


async def drain_and_finish(rec: Recorder, tr: Any, *, drain: bool = True) -> None:
    """Run past every alive-check deadline, then read until a read fails."""
    await asyncio.sleep((ALIVE_TIME + 100) / 1000.0)
    drained = False
    if drain and tr is not None:
        for _ in range(64):
            r = await do_op(rec, tr, "read", 0.3, b"")
            if r != "ok":
                drained = True
                break
    rec.add("Final", drained=drained)
    if tr is not None:
        try:
            await tr.close()
        except Exception:  # noqa: BLE001
            pass
    await settle()


CFG = {"src": SRC, "tgt": TGT, "actType": 1, "version": 3, "ackTime": ACK_TIME, "aliveTime": ALIVE_TIME}
