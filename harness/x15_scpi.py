"""X15: in-memory R&S HMC804x (SCPI over TCP) for gallia's HMC804 driver, plus the event recorder.

The instrument keeps the GROUND TRUTH (master switch, per channel: output, voltage, current, fuse, OVP; the
selected channel, which is instrument-global like on the real device) and understands the command set of the
HMC804x SCPI manual (short and long mnemonics, optional nodes, `;` compounds, ON|OFF|0|1, OUT<n> / OUTP<n> /
OUTPut<n>, MIN / MAX).  Whatever it does not understand goes to its error queue (event "Bad"); every assignment
to its state is an event "Inst" tagged with the id of the harness call on whose connection the command arrived
(contextvar CALL, read when the connection is opened).

Network / device model (see DESIGN notes in props/x15.py): constant one-way latency `lat` ms for every segment
(arrival order at the instrument = order of the client's writes, also across connections), ONE sequential command
processor needing `proc` ms per program message.  Scripted faults are attached to the n-th connection attempt.
"""

from __future__ import annotations

import asyncio
import contextvars
import itertools
import re
from collections import deque
from decimal import Decimal, InvalidOperation
from typing import Any

from harness.streams import FakeWriter, Wire

CALL: contextvars.ContextVar[int] = contextvars.ContextVar("x15_call", default=0)

ATTRS = ("master", "out", "volt", "curr")


class Rec:
    """Event list of one execution; every event has the same fields (TLC reads them as records)."""

    def __init__(self) -> None:
        self.ev: list[dict[str, Any]] = []
        self.t_fallback = 0
        self.pre: Any = None  # hook run before every client-side event (drains the RND320 FIFO)

    def now(self) -> int:
        try:
            loop = asyncio.get_running_loop()
        except RuntimeError:
            return self.t_fallback
        t = int(round(loop.time() * 1000))
        self.t_fallback = max(self.t_fallback, t)
        return t

    def add(self, e: str, **kw: Any) -> dict[str, Any]:
        if self.pre is not None and e not in ("Inst", "Bad", "Act"):
            self.pre()
        d = {"e": e, "t": self.now(), "id": 0, "a": "", "ch": 0, "v": 0, "x": [], "ok": True, "k": ""}
        d.update(kw)
        self.ev.append(d)
        return d


class Writer315(FakeWriter):
    """asyncio.StreamWriter.drain() of Python 3.12: returns without yielding unless the transport is closing or
    the reader holds an exception (harness.streams.FakeWriter always yields once)."""

    async def drain(self) -> None:
        if self.wire.broken:
            raise ConnectionResetError("fake: connection reset by peer")
        if self._closed:
            await asyncio.sleep(0)
        if self.wire.lost:
            raise ConnectionResetError("Connection lost")


# ---------------------------------------------------------------------------------------------- SCPI command tree
def _expand(pattern: str) -> set[str]:
    """'[SOURce:]VOLTage[:LEVel]' -> every accepted upper-case header (short or long form of each mnemonic)."""
    nodes: list[tuple[str, bool]] = []
    for m in re.finditer(r"\[:?([A-Za-z*]+):?\]|([A-Za-z*]+)", pattern):
        nodes.append((m.group(1) or m.group(2), m.group(1) is not None))
    alts: list[list[str | None]] = []
    for name, optional in nodes:
        short = "".join(c for c in name if not c.islower()).upper()
        forms: list[str | None] = sorted({short, name.upper()})  # type: ignore[assignment]
        if optional:
            forms.append(None)
        alts.append(forms)
    out = set()
    for combo in itertools.product(*alts):
        parts = [p for p in combo if p is not None]
        if parts:
            out.add(":".join(parts))
    return out


_TREE = {
    "idn": "*IDN", "opc": "*OPC", "cls": "*CLS", "rst": "*RST",
    "sel": "INSTrument[:SELect]", "nsel": "INSTrument:NSELect",
    "outp": "OUTPut[:STATe]", "chan": "OUTPut:CHANnel[:STATe]", "mast": "OUTPut:MASTer[:STATe]",
    "volt": "[SOURce:]VOLTage[:LEVel][:IMMediate][:AMPLitude]",
    "curr": "[SOURce:]CURRent[:LEVel][:IMMediate][:AMPLitude]",
    "fuse": "FUSE[:STATe]", "ovp": "[SOURce:]VOLTage:PROTection[:STATe]",
    "beep": "SYSTem:BEEPer[:IMMediate]", "err": "SYSTem:ERRor[:NEXT]",
}
HEADERS: dict[str, str] = {}
for _k, _p in _TREE.items():
    for _h in _expand(_p):
        HEADERS[_h] = _k

_BOOL = {"ON": 1, "1": 1, "OFF": 0, "0": 0}
VOLT_MAX_UV = 32_050_000
CURR_MAX_UA = 10_000_000


class Instrument:
    def __init__(self, rec: Rec, *, n: int = 3, init: dict[str, Any] | None = None, lat: int = 0, proc: int = 0,
                 fmt: str = "f3", eol: str = "\n", faults: dict[int, dict[str, Any]] | None = None,
                 tmo_ms: int = 1000, mutant: str | None = None, yield_drain: bool = False) -> None:
        self.yield_drain = yield_drain
        self.rec = rec
        self.n = n
        init = init or {}
        self.master: int = int(init.get("master", 0))
        self.out: list[int] = list(init.get("out", [0] * n))
        self.volt: list[int] = list(init.get("volt", [0] * n))  # uV
        self.curr: list[int] = list(init.get("curr", [100_000] * n))  # uA
        self.fuse = [0] * n
        self.ovp = [0] * n
        self.sel: int = int(init.get("sel", 1))
        self.lat, self.proc, self.fmt, self.eol = lat, proc, fmt, eol
        self.faults = {int(k): v for k, v in (faults or {}).items()}
        self.tmo_ms = tmo_ms
        self.mutant = mutant
        self.errq: list[str] = []
        self.attempts = 0
        self.wires: list[Wire] = []
        self.max_lag = 0  # measured: client write -> command processed, in ms
        self._flight: deque[tuple[Wire, bytes, int]] = deque()  # segments on their way to the instrument
        self._queue: deque[tuple[Wire, str, int]] = deque()  # program messages waiting for the command processor
        self._busy_until = 0
        self.open_at_end = 0

    def snapshot(self) -> dict[str, Any]:
        return {"master": self.master, "out": list(self.out), "volt": list(self.volt), "curr": list(self.curr),
                "sel": self.sel}

    # ------------------------------------------------------------------ connection side
    async def open(self, *a: Any, **kw: Any) -> tuple[asyncio.StreamReader, FakeWriter]:
        idx = self.attempts
        self.attempts += 1
        call = CALL.get()
        fault = self.faults.get(idx, {})
        kind = fault.get("kind", "")
        await asyncio.sleep(0)
        if kind == "refuse":
            self.rec.add("Fault", id=call, k="refuse")
            raise ConnectionRefusedError("fake instrument: connection refused")
        if kind == "hang":
            self.rec.add("Fault", id=call, k="hang")
            await asyncio.Event().wait()
        if self.lat:
            await asyncio.sleep(2 * self.lat / 1000.0)  # SYN / SYN-ACK
        w = Wire()
        if not self.yield_drain:
            w.writer = Writer315(w)
        w.call = call  # type: ignore[attr-defined]
        w.fault = dict(fault)  # type: ignore[attr-defined]
        w.buf = b""  # type: ignore[attr-defined]
        w.idx = idx  # type: ignore[attr-defined]
        w.on_out = lambda data, w=w: self._sent(w, data)
        self.wires.append(w)
        self.rec.add("Act", id=call, k="accept")
        if kind in ("silent", "deaf", "eof", "eof_mid", "reset", "garbage", "late", "reset_on_line", "binary"):
            # announced up front: from here on the outcome of this call is the instrument's doing
            self.rec.add("Fault", id=call, k=kind)
        return w.reader, w.writer

    def _sent(self, w: Wire, data: bytes) -> None:
        loop = asyncio.get_running_loop()
        self._flight.append((w, data, self.rec.now()))
        loop.call_at(loop.time() + self.lat / 1000.0, self._arrive)

    def _arrive(self) -> None:
        w, data, sent = self._flight.popleft()
        w.buf += data  # type: ignore[attr-defined]
        while b"\n" in w.buf:  # type: ignore[attr-defined]
            line, w.buf = w.buf.split(b"\n", 1)  # type: ignore[attr-defined]
            self._enqueue(w, line.decode("latin-1").strip(), sent)

    def _enqueue(self, w: Wire, msg: str, sent: int = 0) -> None:
        loop = asyncio.get_running_loop()
        now = self.rec.now()
        kind = w.fault.get("kind", "")  # type: ignore[attr-defined]
        if kind == "deaf":
            return
        self.rec.add("Act", id=w.call, k="line")  # type: ignore[attr-defined]
        if kind == "reset_on_line":
            w.reset()
            return
        start = max(now, self._busy_until)
        self._busy_until = start + self.proc
        self._queue.append((w, msg, sent))
        loop.call_at(self._busy_until / 1000.0, self._tick)

    def _tick(self) -> None:
        if self._queue:
            w, msg, sent = self._queue.popleft()
            self.max_lag = max(self.max_lag, self.rec.now() - sent)
            self._process(w, msg)

    def flush(self) -> None:
        """Deliver and process everything still in flight (the client's process ended; the network and the
        instrument go on)."""
        while self._flight:
            self._arrive()
        while self._queue:
            self._tick()

    # ------------------------------------------------------------------ command processor
    def _process(self, w: Wire, msg: str) -> None:
        path: list[str] = []
        for part in msg.split(";"):
            part = part.strip()
            if not part:
                continue
            if part.startswith(":"):
                part, path = part[1:], []
            elif part.startswith("*"):
                path_for_part: list[str] = []
                self._one(w, part, path_for_part)
                continue
            hdr = part.split(None, 1)[0]
            nodes = hdr.rstrip("?").split(":")
            full = ":".join(path + nodes)
            self._one(w, (full + ("?" if hdr.endswith("?") else "")) + part[len(hdr):], path)
            path = path + nodes[:-1]

    def _bad(self, w: Wire, why: str, msg: str) -> None:
        self.errq.append(why)
        self.rec.add("Bad", id=w.call, k=why, x=[ord(c) for c in msg[:24]])  # type: ignore[attr-defined]

    def _assign(self, w: Wire, attr: str, ch: int, v: int) -> None:
        if attr == "master":
            self.master = v
        else:
            getattr(self, attr)[ch - 1] = v
        if attr in ATTRS:
            self.rec.add("Inst", id=w.call, a=attr, ch=ch, v=v)  # type: ignore[attr-defined]

    def _num(self, arg: str, lo: int, hi: int, res: int) -> int | None:
        a = arg.upper()
        if a == "MIN":
            return lo
        if a == "MAX":
            return hi
        try:
            d = Decimal(arg)
        except InvalidOperation:
            return None
        if not d.is_finite():
            return None
        micro = int((d * 1_000_000).to_integral_value(rounding="ROUND_HALF_EVEN"))
        micro = int(round(micro / res)) * res
        return micro

    def _fmt(self, micro: int) -> str:
        d = Decimal(micro) / Decimal(1_000_000)
        if self.fmt == "f3":
            return f"{d:.3f}"
        if self.fmt == "f4":
            return f"{d:.4f}"
        if self.fmt == "e":
            return f"{d:.4E}"
        if self.fmt == "plus":
            return f"+{d:.3f}"
        return str(d)

    def _one(self, w: Wire, part: str, path: list[str]) -> None:
        bits = part.split(None, 1)
        hdr = bits[0].upper()
        arg = bits[1].strip() if len(bits) > 1 else ""
        query = hdr.endswith("?")
        key = HEADERS.get(hdr.rstrip("?"))
        if key is None:
            self._bad(w, "-113 undefined header", part)
            return
        ans: str | None = None
        s = self.sel
        if key == "idn":
            if query:
                ans = "Rohde&Schwarz,HMC8043,012345678,HW42000000/SW01.400"
            else:
                self._bad(w, "-100 command error", part)
        elif key in ("cls", "rst", "beep"):
            pass
        elif key == "opc":
            ans = "1" if query else None
        elif key == "err":
            ans = (self.errq.pop(0) if self.errq else '0,"No error"') if query else None
        elif key == "sel":
            if query:
                ans = f"OUTP{s}"
            else:
                m = re.fullmatch(r"(OUT|OUTP|OUTPUT)(\d+)", arg.upper())
                if not m or not 1 <= int(m.group(2)) <= self.n:
                    self._bad(w, "-224 illegal parameter value", part)
                else:
                    self.sel = int(m.group(2))
        elif key == "nsel":
            if query:
                ans = str(s)
            elif arg.isdigit() and 1 <= int(arg) <= self.n:
                self.sel = int(arg)
            else:
                self._bad(w, "-224 illegal parameter value", part)
        elif key in ("outp", "chan", "mast", "fuse", "ovp"):
            if query:
                cur = {"outp": self.out[s - 1], "chan": self.out[s - 1], "mast": self.master,
                       "fuse": self.fuse[s - 1], "ovp": self.ovp[s - 1]}[key]
                ans = str(cur)
            elif arg.upper() not in _BOOL:
                self._bad(w, "-224 illegal parameter value", part)
            else:
                b = _BOOL[arg.upper()]
                if key == "mast":
                    self._assign(w, "master", 0, b)
                elif key == "chan":
                    self._assign(w, "out", s, b)
                elif key == "outp":
                    # HMC804x manual: OUTPut[:STATe] switches the selected channel AND, for ON, the master output
                    self._assign(w, "out", s, b)
                    if b:
                        self._assign(w, "master", 0, 1)
                else:
                    self._assign(w, key, s, b)
        elif key in ("volt", "curr"):
            hi, res = (VOLT_MAX_UV, 1000) if key == "volt" else (CURR_MAX_UA, 100)
            if query:
                ans = self._fmt(getattr(self, key)[s - 1])
            else:
                v = self._num(arg, 0, hi, res)
                if v is None:
                    self._bad(w, "-104 data type error", part)
                elif not 0 <= v <= hi:
                    self._bad(w, "-222 data out of range", part)
                else:
                    self._assign(w, key, s, v)
        if query and ans is None and key not in ("idn",):
            return
        if ans is not None:
            self._answer(w, ans, "idn" if key == "idn" else "answer")

    # ------------------------------------------------------------------ answers
    def _answer(self, w: Wire, ans: str, tag: str = "answer") -> None:
        loop = asyncio.get_running_loop()
        f = w.fault  # type: ignore[attr-defined]
        kind = f.get("kind", "")
        data = (ans + self.eol).encode()
        delay = self.lat + int(f.get("delay", 0))
        if self.mutant == "answers-other-channel" and re.fullmatch(r"[0-9.+E-]+", ans) and "." in ans:
            data = (self._fmt(987_000) + self.eol).encode()
        if kind == "silent":
            return
        if kind == "late":
            delay += self.tmo_ms + 500
        if kind == "garbage":
            data = (f.get("text", "?#!") + self.eol).encode()
        if kind == "binary":
            data = b"\xff\xfe\xfd" + self.eol.encode()
        if kind == "eof":
            loop.call_at(loop.time() + delay / 1000.0, w.eof)
            return
        if kind == "reset":
            loop.call_at(loop.time() + delay / 1000.0, w.reset)
            return
        if kind == "eof_mid":
            cut = max(1, min(int(f.get("cut", 1)), len(data) - len(self.eol) - 0))
            loop.call_at(loop.time() + delay / 1000.0, self._feed, w, data[:cut], True, "answer")
            return
        cuts = f.get("split")
        if cuts:
            gap = int(f.get("gap", 10))
            prev = 0
            k = 0
            for c in sorted(set(int(c) for c in cuts if 0 < int(c) < len(data))) + [len(data)]:
                loop.call_at(loop.time() + (delay + k * gap) / 1000.0, self._feed, w, data[prev:c], False,
                             tag if c == len(data) else "answer")
                prev = c
                k += 1
            return
        loop.call_at(loop.time() + delay / 1000.0, self._feed, w, data, False, tag)

    def _feed(self, w: Wire, data: bytes, then_eof: bool, tag: str = "answer") -> None:
        if w.feed(data):
            self.rec.add("Act", id=w.call, k=tag)  # type: ignore[attr-defined]
        if then_eof:
            w.eof()
