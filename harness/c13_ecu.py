"""Shared machinery of C13 / C14: driving the real virtual ECU
(gallia.services.uds.server) and recording exchanges for Trace_VEcu.tla.

Nothing here judges the property: it drives the real code, records, and hands
the records to TLC.  Determinism: the server module's `time` is replaced by a
constant clock (keeps the 10 s inactivity reset out of play) and its `RNG` by a
subclass whose *unseeded* instances (the security seed) draw from a counter
instead of OS entropy.
"""

from __future__ import annotations

import json
import types
from collections import deque
from concurrent.futures import ThreadPoolExecutor
from typing import Any

import gallia.services.uds.server as srv
from gallia.services.uds import helpers
from gallia.services.uds.core import service
from gallia.services.uds.core.constants import UDSIsoServices
from gallia.services.uds.core.exception import MalformedResponse, RequestResponseMismatch

from harness import tlc
from harness.common import Machinery

RULES = ["sns", "msf", "sfns", "fmt", "sc", "sr", "tp", "none", "supp"]
FIELD = {
    "sns": "default_response_if_service_not_supported",
    "msf": "default_response_if_missing_sub_function",
    "sfns": "default_response_if_sub_function_not_supported",
    "fmt": "default_response_if_incorrect_format",
    "sc": "default_response_if_session_change",
    "sr": "default_response_if_session_read",
    "tp": "default_response_if_tester_present",
    "none": "default_response_if_none",
    "supp": "default_response_if_suppress",
}
ALL = frozenset(RULES)
SID_DSC, SID_ER, SID_RDBI, SID_SA, SID_RC, SID_TP = 0x10, 0x11, 0x22, 0x27, 0x31, 0x3E

_ORIG_RNG = srv.RNG
_ORIG_TIME = srv.time
_ORIG_TRACEBACK = srv.traceback


class _DetRNG(_ORIG_RNG):  # type: ignore[misc,valid-type]
    """RNG() without seeds would seed from OS entropy (the security seed reply);
    here it draws from a per-process counter so that runs are reproducible."""

    base = 0
    counter = 0

    def set_seeds(self, *args: Any) -> None:
        if len(args) == 0:
            _DetRNG.counter += 1
            self.seeds = []
            self.seed(f"verif-unseeded|{_DetRNG.base}|{_DetRNG.counter}")
        else:
            super().set_seeds(*args)


class _Clock:
    """The server module's time(): stands still unless a history advances it (the 10 s inactivity reset of
    UDSServerTransport.handle_request reads it)."""

    def __init__(self) -> None:
        self.t = 1000.0

    def now(self) -> float:
        return self.t

    def advance(self, dt: float) -> None:
        self.t += dt


CLOCK = _Clock()


def patch_env(seed: int) -> None:
    _DetRNG.base = seed
    _DetRNG.counter = 0
    srv.RNG = _DetRNG  # type: ignore[misc]
    CLOCK.t = 1000.0
    srv.time = CLOCK.now  # type: ignore[assignment]
    # handle_client prints the traceback of whatever ended a connection; keep stderr for verdicts
    srv.traceback = types.SimpleNamespace(print_exc=lambda *a, **k: None)  # type: ignore[assignment]


def unpatch_env() -> None:
    srv.RNG = _ORIG_RNG  # type: ignore[misc]
    srv.time = _ORIG_TIME  # type: ignore[assignment]
    srv.traceback = _ORIG_TRACEBACK  # type: ignore[assignment]


# ----------------------------------------------------------------------------
# models


PARAMS: dict[str, dict[str, Any]] = {
    "default": {},
    "dense": {"p_service": 0.6, "p_sub_function": 0.3, "p_session": 0.3, "p_identifier": 0.5,
              "p_correct_payload_format": 0.7},
    "mandatory": {"mandatory_sessions": [1, 2, 3], "optional_sessions": [0x40, 0x41, 0x60],
                  "mandatory_services": [0x10, 0x3E, 0x27, 0x31, 0x11, 0x22, 0x2E, 0x19],
                  "p_service": 0.15, "p_sub_function": 0.1, "p_session": 0.5, "p_identifier": 0.3,
                  "p_correct_payload_format": 0.5},
}


def behavior_of(B: frozenset[str] | set[str]) -> Any:
    return srv.UDSServer.Behavior(**{FIELD[r]: (r in B) for r in RULES})


async def make_server(seed: int, params: str) -> Any:
    kw = dict(PARAMS[params])
    if "mandatory_services" in kw:
        kw["mandatory_services"] = [UDSIsoServices(x) for x in kw["mandatory_services"]]
        # optional_services' default is computed from the default mandatory list; recompute
        kw["optional_services"] = [s for s in UDSIsoServices
                                   if s not in kw["mandatory_services"] and s != UDSIsoServices.NegativeResponse]
    rp = srv.RandomUDSServer.RandomnessParameters(**kw)
    s = srv.RandomUDSServer(seed, rp)
    await s.setup()
    return s


def model_of(server: Any) -> dict[int, dict[int, list[int] | None]]:
    return {int(sess): {int(sid): (None if subs is None else [int(x) for x in subs]) for sid, subs in svcs.items()}
            for sess, svcs in server.supported_services.items()}


def model_json(m: dict[int, dict[int, list[int] | None]]) -> dict[str, Any]:
    sess = sorted(m)
    return {"sess": sess,
            "svcs": [[{"sid": sid, "sf": m[s][sid] is not None, "subs": sorted(m[s][sid] or [])}
                      for sid in sorted(m[s])] for s in sess]}


def nav_path(m: dict[int, dict[int, list[int] | None]], cur: int, target: int) -> list[int] | None:
    """Shortest chain of DiagnosticSessionControl sub-functions leading from cur to target."""
    if cur == target:
        return []
    seen = {cur}
    dq: deque[tuple[int, list[int]]] = deque([(cur, [])])
    while dq:
        s, p = dq.popleft()
        for t in (m.get(s, {}).get(SID_DSC) or []):
            if t in seen or t not in m:
                continue
            if t == target:
                return p + [t]
            seen.add(t)
            dq.append((t, p + [t]))
    return None


# ----------------------------------------------------------------------------
# recording

_PARSE_CACHE: dict[bytes, bool] = {}


def codec_parsable(pdu: bytes) -> bool:
    """The request codec's own verdict (that codec is C01's subject)."""
    r = _PARSE_CACHE.get(pdu)
    if r is None:
        r = not isinstance(service.UDSRequest.parse_dynamic(pdu), service.RawRequest)
        if len(_PARSE_CACHE) < 400000:
            _PARSE_CACHE[pdu] = r
    return r


def iso_wellformed(pdu: bytes) -> bool | None:
    """ISO 14229-1 message length rules for services whose request length does not depend on data the ECU defines
    (independent of gallia's codec); None = no opinion."""
    n = len(pdu)
    s = pdu[0]
    if s in (0x10, 0x11, 0x3E):
        return n == 2
    if s == 0x14:
        return n == 4
    if s == 0x22:
        return n >= 3 and n % 2 == 1
    if s == 0x2E:
        return n >= 4
    if s == 0x31:
        return n >= 4
    if s == 0x2C and n >= 2 and (pdu[1] & 0x7F) == 3:
        return n in (2, 4)
    return None


def parsable(pdu: bytes) -> bool:
    """Is the request well-formed?  Where ISO 14229-1 fixes the length the rule itself decides; otherwise the
    request codec's own verdict (that codec is C01's subject)."""
    iso = iso_wellformed(pdu)
    if iso is False:
        return False
    return codec_parsable(pdu)


def pristine_verdicts(hexes: list[str]) -> tuple[dict[str, bool], list[dict[str, Any]]]:
    """The codec's verdict on every PDU taken in two fresh interpreters (ascending / descending order of the
    PDUs).  Returns (verdict of the ascending run, disagreements between the two runs)."""
    import subprocess
    import sys as _sys

    order = sorted(set(hexes))
    jobs = []
    for lst in (order, order[::-1]):
        jobs.append((lst, subprocess.Popen([_sys.executable, "-m", "harness.c13_pristine"], stdin=subprocess.PIPE,
                                           stdout=subprocess.PIPE, stderr=subprocess.PIPE, text=True)))
    maps = []
    import threading

    outs: list[Any] = [None, None]

    def feed(i: int, lst: list[str], pr: Any) -> None:
        outs[i] = pr.communicate(json.dumps({"pdus": lst}))

    ths = [threading.Thread(target=feed, args=(i, lst, pr)) for i, (lst, pr) in enumerate(jobs)]
    for t in ths:
        t.start()
    for t in ths:
        t.join()
    for i, (lst, pr) in enumerate(jobs):
        out, err = outs[i]
        if pr.returncode != 0:
            raise Machinery(f"pristine classifier failed: {err[-800:]}")
        maps.append(dict(zip(lst, (bool(x) for x in json.loads(out)))))
    dis = [{"hex": h[:64], "ascending_order": maps[0][h], "descending_order": maps[1][h]}
           for h in order if maps[0][h] != maps[1][h]]
    return maps[0], dis


_UNSET = object()


class Probe:
    """One real server + UDSServerTransport; records one step per request."""

    def __init__(self, server: Any, hook_pre: bool = True) -> None:
        self.server = server
        self.transport = srv.UDSServerTransport(server, None)  # type: ignore[arg-type]
        self._pre: Any = _UNSET
        self.hooked = False
        if hook_pre and hasattr(server, "respond_without_state_change"):
            orig = server.respond_without_state_change

            async def wrapped(request: Any) -> Any:
                r = await orig(request)
                self._pre = r
                return r

            server.respond_without_state_change = wrapped
            self.hooked = True

    def fresh(self, B: frozenset[str] | set[str]) -> None:
        """A freshly started ECU with the given behaviour switches."""
        self.server.state = type(self.server.state)()
        self.server.behavior = behavior_of(B)

    def state(self) -> tuple[int, int]:
        st = self.server.state
        lvl = st.security_access_level
        return int(st.session), (-1 if lvl is None else int(lvl))

    def last_seed(self) -> tuple[int, bytes] | None:
        r = getattr(self.server.state, "last_sa_response", None)
        if r is None:
            return None
        return int(r.security_access_type), bytes(r.security_seed)

    async def exchange(self, pdu: bytes) -> dict[str, Any]:
        self._pre = _UNSET
        raised = ""
        vis: bytes | None = None
        try:
            vis, _ = await self.transport.handle_request(pdu)
        except Exception as e:  # noqa: BLE001
            raised = type(e).__name__
        if not self.hooked:
            pk, pb = "unknown", b""
        elif self._pre is _UNSET or self._pre is None:
            pk, pb = "none", b""
        else:
            try:
                pk, pb = "bytes", bytes(self._pre.pdu)
            except Exception:  # noqa: BLE001
                pk, pb = "unknown", b""
        return step_record(pdu, pk, pb, vis, raised, self.state())


def step_record(pdu: bytes, pk: str, pb: bytes, vis: bytes | None, raised: str, st: tuple[int, int],
                acc: str = "", alive: bool = True) -> dict[str, Any]:
    return {"q": list(pdu[:4]), "n": len(pdu), "p": parsable(pdu),
            "pk": pk, "pn": len(pb), "pb": list(pb[:6]),
            "vk": "none" if vis is None else "bytes", "vn": 0 if vis is None else len(vis),
            "vb": [] if vis is None else list(vis[:6]),
            "x": raised, "s": st[0], "l": st[1], "a": acc, "al": alive,
            "hex": pdu.hex(),
            "rhex": None if vis is None else vis[:16].hex()}


def client_verdict(reply: bytes | None, pdu: bytes) -> str:
    """What gallia's own client-side matcher says about `reply` as the answer to `pdu`."""
    if reply is None:
        return "silent"
    try:
        helpers.parse_pdu(reply, service.RawRequest(pdu))
        return "ok"
    except RequestResponseMismatch:
        return "Mismatch"
    except MalformedResponse:
        return "Malformed"
    except Exception as e:  # noqa: BLE001
        return type(e).__name__


# ----------------------------------------------------------------------------
# batches -> TLC

_STEP_KEYS = ("q", "n", "p", "pk", "pn", "pb", "vk", "vn", "vb", "x", "s", "l", "a", "al")


class Corpus:
    """Collects traces (lists of steps) and validates them with Trace_VEcu in batches."""

    def __init__(self) -> None:
        self.models: list[dict[str, Any]] = []
        self._mkey: dict[str, int] = {}
        self.traces: list[dict[str, Any]] = []
        self.tlc_results: list[Any] = []

    def model_index(self, m: dict[int, dict[int, list[int] | None]]) -> int:
        mj = model_json(m)
        k = json.dumps(mj, sort_keys=True)
        if k not in self._mkey:
            self.models.append(mj)
            self._mkey[k] = len(self.models)  # 1-based for TLA+
        return self._mkey[k]

    def add(self, *, m: int, B: frozenset[str] | set[str], mode: str, steps: list[dict[str, Any]],
            meta: dict[str, Any], init: tuple[int, int] = (1, -1), chunk: int = 400, indep: bool = False) -> None:
        """Long histories are cut into chunks; each chunk starts in the recorded state.
        indep: the steps are alternatives tried in the same state `init`, not a history."""
        cur = init
        for off in range(0, len(steps), chunk):
            part = steps[off:off + chunk]
            self.traces.append({"id": len(self.traces), "m": m, "B": sorted(B), "mode": mode, "indep": indep,
                                "init": {"s": cur[0], "l": cur[1]}, "steps": part,
                                "meta": dict(meta, offset=off)})
            if not indep:
                cur = (part[-1]["s"], part[-1]["l"])

    @property
    def n_steps(self) -> int:
        return sum(len(t["steps"]) for t in self.traces)

    def _batch(self, traces: list[dict[str, Any]]) -> dict[str, Any]:
        return {"models": self.models,
                "traces": [{"id": t["id"], "m": t["m"], "B": t["B"], "mode": t["mode"], "indep": t["indep"],
                            "init": t["init"],
                            "steps": [{k: s[k] for k in _STEP_KEYS} for s in t["steps"]]} for t in traces]}

    def validate(self, traces: list[dict[str, Any]] | None = None, *, steps_per_batch: int = 60000,
                 parallel: int = 4) -> dict[int, tuple[str, list[tuple[int, str]], int]]:
        """id -> (verdict, [(step index 1-based, label)...], unspecified count).  TLC decides."""
        traces = self.traces if traces is None else traces
        groups: list[list[dict[str, Any]]] = []
        cur: list[dict[str, Any]] = []
        n = 0
        for t in traces:
            cur.append(t)
            n += len(t["steps"])
            if n >= steps_per_batch:
                groups.append(cur)
                cur, n = [], 0
        if cur:
            groups.append(cur)

        def one(g: list[dict[str, Any]]) -> Any:
            return tlc.validate_batch("Trace_VEcu", "Trace_VEcu.cfg", self._batch(g), timeout=1800,
                                      env={"JAVA_TOOL_OPTIONS": "-Xss256m -XX:ParallelGCThreads=2"}, heap="3g")

        with ThreadPoolExecutor(max_workers=max(1, min(parallel, len(groups)))) as ex:
            results = list(ex.map(one, groups))
        out: dict[int, tuple[str, list[tuple[int, str]], int]] = {}
        for res in results:
            self.tlc_results.append(res)
            for p in res.prints:
                if isinstance(p, list) and len(p) == 5 and p[0] == "V":
                    bad = sorted((int(x[0]), str(x[1])) for x in p[3]["$set"])
                    out[int(p[1])] = (str(p[2]), bad, int(p[4]))
        missing = [t["id"] for t in traces if t["id"] not in out]
        if missing:
            raise Machinery(f"TLC produced no verdict for {len(missing)} traces (first id {missing[0]}):\n"
                            + results[-1].out[-2500:])
        return out


# ----------------------------------------------------------------------------
# labelling of violations (signatures only; the verdict is TLC's)


def req_class(m: dict[int, dict[int, list[int] | None]], session: int, step: dict[str, Any]) -> str:
    q, n = step["q"], step["n"]
    sid = q[0]
    known = any(sid in svcs for svcs in m.values())
    act = sid in m.get(session, {})
    sf = any(svcs.get(sid) is not None for svcs in m.values() if sid in svcs) if known else None
    where = "svc-active" if act else ("svc-other-session" if known else "svc-unknown")
    if sf is None:
        shape = "shape-unknown"
    elif sf:
        if n < 2:
            shape = "sf-no-sub-byte"
        else:
            sub = q[1] & 0x7F
            if act and sub in (m[session][sid] or []):
                shape = "sf-sub-offered"
            elif any(sub in (svcs.get(sid) or []) for s, svcs in m.items() if s != session):
                shape = "sf-sub-other-session"
            else:
                shape = "sf-sub-unknown"
            if q[1] & 0x80:
                shape += "+suppress"
    else:
        shape = "plain"
    return f"{where}/{shape}/{'parsable' if step['p'] else 'unparsable'}"


def sig_of(m: dict[int, dict[int, list[int] | None]], trace: dict[str, Any], idx: int, label: str) -> dict[str, Any]:
    """Small, stable signature of a failing step (idx 1-based)."""
    steps = trace["steps"]
    st = steps[idx - 1]
    before = steps[idx - 2]["s"] if idx >= 2 and not trace["indep"] else trace["init"]["s"]
    B = set(trace["B"])
    offered = before in m
    sig: dict[str, Any] = {"exc": st["x"], "session_offered": offered, "all_on": B == set(RULES),
                           "sfns_off": "sfns" not in B}
    if offered:
        sig["msf_off"] = "msf" not in B
        sig["one_byte"] = st["n"] == 1
    if not st["x"]:
        sig["req_class"] = req_class(m, before, st)
    return sig
