"""X12 part 1 — model-driven HSFZ gateway fake and runner for the real `discover hsfz` scanner.

The HSFZ frame codec is the one of harness/c07_hsfz.py (imported, not modified); Listener/Wire and virtual time are
harness/streams.py and harness/vloop.py.  The gateway is *model driven*: a `model` dict says how every ECU address
behaves; the gateway records what it saw and what it sent (gateway-side ground truth, one record per probe), the runner
records what the scanner reported (artifact file ECUs.txt, discovery results handed to the database handler, how
main() ended).  Nothing here judges the property.

model = {
  "beh":     {addr: behaviour}   per ECU address, default model["default"] (else DEFAULT_BEH); see BEHAVIOURS
  "drop_every": k | None         the gateway hangs up (FIN) after it has handled its k-th, 2k-th, ... probe
  "alive":   [n, ...]            an alive check request is injected before the reaction to the n-th probe (1-based)
  "alive_mid": [n, ...]          ... between the acknowledgement and the answer of the n-th probe
  "refuse":  [c, ...]            the c-th connection attempt is refused (outside the statement: recorded only)
}
"""

from __future__ import annotations

import asyncio
import shutil
import tempfile
from pathlib import Path
from typing import Any

from harness import vloop
from harness.c07_hsfz import dec_out, enc
from harness.streams import Listener, Wire, patched_connections, settle
from harness.vloop import now_ms

FAR = 0x77                    # an ECU outside every scanned range used for foreign traffic
SESSION_RECORD = [0x00, 0x32, 0x01, 0xF4]

# behaviour = (acknowledgement, answers, connection afterwards)
#   acknowledgement: "ack" | "ack<ms>" | "none" | "err<hex control word>" (error control word instead of the ack)
#   answers        : list of answer names, sent in order:
#                    "pos" | "neg" | "pos<ms>" | "odd" (other service) | "oddsub" (positive, other sub-function)
#                    | "short" (truncated PDU) | "far" (positive answer carrying another ECU address)
#                    | "err<hex>" (error control word)
#   afterwards     : "keep" | "close" (FIN) | "reset"
BEHAVIOURS: dict[str, tuple[str, list[str], str]] = {
    "silent": ("none", [], "keep"),
    "ackonly": ("ack", [], "keep"),
    "pos": ("ack", ["pos"], "keep"),
    "neg": ("ack", ["neg"], "keep"),
    "pos300": ("ack", ["pos300"], "keep"),
    "pos800": ("ack", ["pos800"], "keep"),
    "ack300pos": ("ack300", ["pos"], "keep"),
    "lateack": ("ack800", ["pos"], "keep"),
    "err43": ("err43", [], "keep"),
    "err40": ("err40", [], "keep"),
    "errff": ("errff", [], "keep"),
    "ackerr43": ("ack", ["err43"], "keep"),
    "ackerr45": ("ack", ["err45"], "keep"),
    "close": ("none", [], "close"),
    "reset": ("none", [], "reset"),
    "ack_close": ("ack", [], "close"),
    "pos_close": ("ack", ["pos"], "close"),
    "neg_close": ("ack", ["neg"], "close"),
    "pos_reset": ("ack", ["pos"], "reset"),
    "pos_err": ("ack", ["pos", "err43"], "keep"),
    "pospos": ("ack", ["pos", "pos"], "keep"),
    "odd": ("ack", ["odd"], "keep"),
    "oddsub": ("ack", ["oddsub"], "keep"),
    "short": ("ack", ["short"], "keep"),
    "odd_pos": ("ack", ["odd", "pos"], "keep"),
    "far": ("ack", ["far"], "keep"),
    "far_pos": ("ack", ["far", "pos"], "keep"),
}
DEFAULT_BEH = "silent"


def answer_bytes(name: str, req: list[int]) -> list[int]:
    """UDS answers to the request the scanner actually sent (ISO 14229-1 layouts)."""
    sid = req[0] if req else 0x10
    sub = req[1] if len(req) > 1 else 0x01
    if name == "neg":
        return [0x7F, sid, 0x11]
    if name == "odd":            # a response of another service
        return [0x62, 0xF1, 0x90, 0x41]
    if name == "oddsub":         # positive response echoing another sub-function
        return [sid + 0x40, (sub ^ 0x02) & 0x7F] + (SESSION_RECORD if sid == 0x10 else [])
    if name == "short":
        return [sid + 0x40] if sid == 0x10 else [0x7F]
    return [sid + 0x40, sub & 0x7F] + (SESSION_RECORD if sid == 0x10 else [])


class Livelock(BaseException):
    """More connections than any terminating scan of this size needs (BaseException: not swallowed)."""


class DiscGateway:
    def __init__(self, model: dict[str, Any], mutant: str | None = None, max_conns: int = 5000) -> None:
        self.m = model
        self.mutant = mutant
        self.max_conns = max_conns
        self.ev: list[dict[str, Any]] = []
        self.probes: list[dict[str, Any]] = []
        self.listener = Listener()
        self.listener.on_accept = self._accepted
        self.nconn = 0
        self.nattempt = 0
        self.nprobe = 0
        self.beh = {int(k): v for k, v in model.get("beh", {}).items()}
        _open = self.listener.open

        async def guarded_open(*a: Any, **kw: Any) -> Any:
            self.nattempt += 1
            if self.nattempt > self.max_conns:
                self.add("Livelock")
                raise Livelock()
            if self.nattempt in self.m.get("refuse", []):
                self.add("Refused", n=self.nattempt)
                await asyncio.sleep(0)
                raise ConnectionRefusedError("fake: connection refused")
            return await _open(*a, **kw)

        self.listener.open = guarded_open  # type: ignore[method-assign]

    def add(self, e: str, **kw: Any) -> None:
        self.ev.append({"e": e, "t": now_ms(), **kw})

    def _accepted(self, w: Wire) -> None:
        self.nconn += 1
        st = {"c": self.nconn, "buf": b"", "gone": False}
        w.on_out = lambda data: self._on_out(w, st, data)
        w.on_client_close = lambda: self.add("CliClose", c=st["c"])
        self.add("Conn", c=st["c"])

    def _send(self, w: Wire, st: dict[str, Any], frame: dict[str, Any]) -> bool:
        if st["gone"]:
            return False
        return w.feed(enc(frame))

    def _hangup(self, w: Wire, st: dict[str, Any], how: str) -> None:
        if st["gone"]:
            return
        st["gone"] = True
        self.add("GwClose", c=st["c"], how=how)
        if how == "reset":
            w.reset()
        else:
            w.eof()

    def _on_out(self, w: Wire, st: dict[str, Any], data: bytes) -> None:
        st["buf"] += data
        frames, st["buf"] = dec_out(st["buf"])
        for f in frames:
            if f["k"] == "Data":
                self._on_probe(w, st, f)
            elif f["k"] == "AliveResp":
                self.add("AliveResp", c=st["c"], src=f["src"])
            else:
                self.add("Other", c=st["c"], cw=f["cw"])

    def _on_probe(self, w: Wire, st: dict[str, Any], f: dict[str, Any]) -> None:
        self.nprobe += 1
        n = self.nprobe
        a, src, req = f["dst"], f["src"], list(f["d"])
        p: dict[str, Any] = {"n": n, "c": st["c"], "t": now_ms(), "src": src, "dst": a, "d": req,
                             "ack": False, "ackdt": 0, "ackdl": False, "errs": [], "anss": []}
        self.probes.append(p)
        if st["gone"]:
            return
        name = self.beh.get(a, self.m.get("default", DEFAULT_BEH))
        ackm, answers, after = BEHAVIOURS[name]
        if self.mutant == "gw-answers-everything":   # mutant of the fake: it reacts as "pos" whatever its model says
            ackm, answers, after = "ack", ["pos"], "keep"
        t0 = now_ms()
        loop = asyncio.get_running_loop()
        if n in self.m.get("alive", []):
            ok = self._send(w, st, {"k": "Alive"})
            self.add("AliveReq", c=st["c"], dl=ok)

        def do_ack() -> None:
            if ackm.startswith("ack"):
                ok = self._send(w, st, {"k": "Ack", "src": src, "dst": a, "d": req[:5]})
                p.update(ack=True, ackdt=now_ms() - t0, ackdl=ok)
            elif ackm.startswith("err"):
                cw = int(ackm[3:], 16)
                ok = self._send(w, st, {"k": "Err", "cw": cw})
                p["errs"].append({"cw": cw, "dt": now_ms() - t0, "dl": ok})
            if n in self.m.get("alive_mid", []):
                ok = self._send(w, st, {"k": "Alive"})
                self.add("AliveReq", c=st["c"], dl=ok)

        def do_ans(an: str) -> None:
            if an.startswith("err"):
                cw = int(an[3:], 16)
                ok = self._send(w, st, {"k": "Err", "cw": cw})
                p["errs"].append({"cw": cw, "dt": now_ms() - t0, "dl": ok})
                return
            frm = FAR if an == "far" else a
            d = answer_bytes("pos" if an.startswith("pos") or an == "far" else an, req)
            ok = self._send(w, st, {"k": "Data", "src": frm, "dst": src, "d": d})
            p["anss"].append({"a": frm, "to": src, "d": d, "dt": now_ms() - t0, "dl": ok})

        def do_after() -> None:
            if after == "reset":
                # a reset travels like everything else: it reaches the scanner after its own write has completed
                # (Wire.reset() would otherwise fail the drain() of the very request the gateway has just answered)
                loop.call_later(0.001, self._hangup, w, st, "reset")
            elif after != "keep":
                self._hangup(w, st, after)
            elif self.m.get("drop_every") and n % int(self.m["drop_every"]) == 0:
                self._hangup(w, st, "close")

        ack_delay = int(ackm[3:]) if ackm.startswith("ack") and ackm[3:] else 0
        steps: list[tuple[int, Any]] = [(ack_delay, do_ack)]
        for an in answers:
            d = int(an[3:]) if an.startswith("pos") and an[3:].isdigit() else 0
            steps.append((ack_delay + d, (lambda an=an: do_ans(an))))
        last = max(s[0] for s in steps)
        steps.append((last, do_after))
        for delay, fn in steps:
            if delay == 0:
                fn()
            else:
                loop.call_later(delay / 1000.0, fn)


class FakeDB:
    """Stands in for gallia.db.handler.DBHandler: records what the scanner hands over."""

    def __init__(self) -> None:
        self.runs: list[str] = []
        self.results: list[str] = []

    async def insert_discovery_run(self, protocol: str) -> None:
        self.runs.append(protocol)

    async def insert_discovery_result(self, target: str) -> None:
        await asyncio.sleep(0)
        self.results.append(str(target))


def parse_uri(line: str) -> dict[str, Any]:
    """Parse an emitted target URI back with the REAL TargetURI / HSFZConfig (as HSFZTransport.connect does)."""
    from gallia.transports.base import TargetURI
    from gallia.transports.hsfz import HSFZConfig

    try:
        t = TargetURI(line.strip())
        if str(getattr(t.scheme, "value", t.scheme)) != "hsfz":
            raise ValueError("scheme")
        c = HSFZConfig(**t.qs_flat)
        if t.hostname is None or t.port is None:
            raise ValueError("no host/port")
        return {"ok": True, "host": str(t.hostname).lower(), "port": int(t.port), "src": int(c.src_addr),
                "dst": int(c.dst_addr)}
    except Exception:  # noqa: BLE001
        return {"ok": False, "host": "", "port": -1, "src": -1, "dst": -1}


def run_scan(model: dict[str, Any], scan: dict[str, Any], *, mutant: str | None = None,
             horizon: float = 1.0e5) -> dict[str, Any]:
    """One execution of the real HSFZDiscoverer.main() against the model gateway.

    scan = {"host", "port", "tester", "start", "stop", "reversed": bool, "timeout": float}"""
    from gallia.commands.discover.hsfz import HSFZDiscoverer, HSFZDiscovererConfig

    tmp = Path(tempfile.mkdtemp(prefix="x12-"))
    out: dict[str, Any] = {"done": "?"}
    box: dict[str, Any] = {}
    db = FakeDB()
    host = scan["host"]
    netloc = f"[{host}]" if ":" in host else host
    target = f"hsfz://{netloc}:{scan['port']}"
    nadr = max(0, scan["stop"] - scan["start"] + 1)

    async def main() -> None:
        gw = DiscGateway(model, mutant, max_conns=50 + 8 * nadr)
        box["gw"] = gw
        cfg = HSFZDiscovererConfig(target=target, start=scan["start"], stop=scan["stop"], src_addr=scan["tester"],
                                   reversed=bool(scan.get("reversed", False)), timeout=float(scan["timeout"]),
                                   dumpcap=False)
        sc = HSFZDiscoverer(cfg)
        sc.artifacts_dir = tmp
        sc.db_handler = db  # type: ignore[assignment]
        with patched_connections(gw.listener):
            try:
                await sc.main()
                out["done"] = "ok"
            except SystemExit as e:
                out["done"] = "ok" if e.code in (0, None) else "exc"
                out["exc"] = f"SystemExit({e.code})"
            except asyncio.CancelledError:
                t = asyncio.current_task()
                if t is not None and t.cancelling() > 0:
                    raise
                out["done"], out["exc"] = "exc", "CancelledError()"
            except Livelock:
                out["done"] = "hang"
            except BaseException as e:  # noqa: BLE001
                out["done"] = "exc"
                out["exc"] = repr(e)[:200]
            await settle()

    try:
        try:
            vloop.run(main(), horizon=horizon)
        except (TimeoutError, vloop.BlockedForever):
            out["done"] = "hang"
        gw = box.get("gw")
        p = tmp / "ECUs.txt"
        lines = [ln for ln in p.read_text().split("\n") if ln.strip()] if p.exists() else []
        return {"scan": {"host": host.lower(), "port": scan["port"], "tester": scan["tester"], "start": scan["start"],
                         "stop": scan["stop"], "reversed": bool(scan.get("reversed", False)),
                         "timeout": int(round(float(scan["timeout"]) * 1000))},
                "model": model, "probes": gw.probes if gw else [], "ev": gw.ev if gw else [],
                "file": [parse_uri(x) for x in lines], "db": [parse_uri(x) for x in db.results],
                "has_file": p.exists(), "raw": lines, "done": out["done"], "exc": out.get("exc", "")}
    finally:
        shutil.rmtree(tmp, ignore_errors=True)
