"""X15: the remaining case kinds of harness/x15_run.py: `setup` (Scanner.run with --power-* options), `ecu`
(ECU.power_cycle over a scripted transport whose ECU is alive iff the instrument powers it) and `rnd` (RND320 driver
writing to a FIFO that stands in for the serial device node; real executor threads)."""

from __future__ import annotations

import asyncio
import contextlib
import io
import os
import shutil
import sys
import tempfile
from typing import Any

from harness import vloop
from harness.fakes import ScriptedTransport, ScriptEnv
from harness.x15_run import (HORIZON, Calls, Net, _caller, _finish, _header, _mk_inst, patched)
from harness.x15_scpi import Rec


# ------------------------------------------------------------------------------------------------ Scanner.setup
def _parse_scanner(argv: list[str]) -> tuple[Any, Any, str]:
    import gallia.cli.gallia as gcli
    from gallia.command.base import Scanner, ScannerConfig

    class ProbeConfig(ScannerConfig):
        pass

    class Probe(Scanner):
        CONFIG_TYPE = ProbeConfig
        SHORT_HELP = "X15 probe: a scanner that does nothing"
        mained = 0

        async def main(self) -> None:
            Probe.mained += 1

    saved_argv, saved_env = sys.argv, dict(os.environ)
    tmp = tempfile.mkdtemp(prefix="x15-")
    err = io.StringIO()
    try:
        for k in list(os.environ):
            if k.startswith("GALLIA_"):
                del os.environ[k]
        os.environ["GALLIA_CONFIG"] = os.path.join(tmp, "none.toml")
        open(os.environ["GALLIA_CONFIG"], "w").close()
        sys.argv = ["gallia"]
        try:
            with contextlib.redirect_stderr(err), contextlib.redirect_stdout(io.StringIO()):
                parser = gcli.create_parser(Probe)
                _, cfg = parser.parse_typed_args(list(argv))
            return Probe, cfg, ""
        except SystemExit as e:
            return Probe, None, f"exit {e.code}: {err.getvalue()[-200:]}"
    finally:
        sys.argv = saved_argv
        os.environ.clear()
        os.environ.update(saved_env)
        shutil.rmtree(tmp, ignore_errors=True)


def _run_setup(case: dict[str, Any], mutant: str | None) -> dict[str, Any]:
    rec = Rec()
    calls = Calls(rec)
    inst = _mk_inst(rec, case, 1000, mutant)
    hdr = _header(case, inst.snapshot(), 60_000)
    net = Net(rec, inst)
    probe, cfg, perr = _parse_scanner(case["argv"])
    hdr["parse_error"] = perr

    async def go() -> None:
        if cfg is None:
            await _finish(rec, [], case["env"])
            return
        cid = calls.begin("setup", "", 1, int(case.get("sleep", 0)), list(case.get("chs", [])))
        sc = probe(cfg)

        async def one() -> None:
            try:
                await sc.run()
            except Exception as ex:  # noqa: BLE001
                calls.end(cid, False, exc=ex)
                return
            calls.end(cid, True)

        await _finish(rec, [asyncio.ensure_future(one())], case["env"])

    with patched(net):
        try:
            vloop.run(go())
        except vloop.BlockedForever:
            rec.add("End", t=rec.t_fallback)
    inst.flush()
    hdr["lag"] = max(inst.max_lag, 2 * inst.lat) + 1  # measured for this execution: a fact of the environment
    hdr["ev"] = rec.ev
    hdr["final"] = inst.snapshot()
    hdr["leaked"] = 0
    return hdr


# ------------------------------------------------------------------------------------------------ ECU.power_cycle
class _PoweredEcu(ScriptEnv):
    """answers TesterPresent iff the instrument powers it: master on and every configured channel on"""

    def __init__(self, rec: Rec, inst: Any, chs: list[int]) -> None:
        super().__init__()
        self.xrec, self.inst, self.chs = rec, inst, chs
        self.cid = 0
        self.pinged = False
        self.pending = b""

    def powered(self) -> bool:
        return bool(self.inst.master) and all(self.inst.out[k - 1] for k in self.chs if k > 0)

    def on_write(self, data: bytes) -> str | None:
        self.pending = bytes(data)
        if data[:1] == b"\x3e" and not self.pinged and self.cid:
            self.pinged = True
            self.xrec.add("Cb", id=self.cid)
        return None

    def on_read(self, timeout: float | None) -> tuple[str, bytes | None]:
        if not self.powered():
            return "Timeout", None
        if self.pending[:1] == b"\x3e":
            return "Final", b"\x7e\x00"
        return "Final", bytes([0x7F, self.pending[0] if self.pending else 0, 0x11])


def _run_ecu(case: dict[str, Any], mutant: str | None) -> dict[str, Any]:
    from gallia.power_supply import PowerSupply
    from gallia.power_supply.uri import PowerSupplyURI
    from gallia.services.uds.ecu import ECU

    rec = Rec()
    calls = Calls(rec)
    inst = _mk_inst(rec, case, 1000, mutant)
    hdr = _header(case, inst.snapshot(), 60_000)
    net = Net(rec, inst)
    chs = list(case.get("chs", []))
    env = _PoweredEcu(rec, inst, chs)
    result: dict[str, Any] = {}

    async def go() -> None:
        ps = None
        if case.get("uri"):
            cid = calls.begin("connect")
            try:
                ps = await PowerSupply.connect(PowerSupplyURI(case["uri"]))
                calls.end(cid, True)
            except Exception as ex:  # noqa: BLE001
                calls.end(cid, False, exc=ex)
                await _finish(rec, [], case["env"])
                return
        ecu = ECU(ScriptedTransport(env), timeout=0.5, power_supply=ps)

        async def one() -> None:
            sleep_ms = int(case.get("sleep", 5000))
            cid = calls.begin("cycle", "", 1 if ps is not None else 0, sleep_ms if ps is not None else 0,
                              chs if ps is not None else [])
            env.cid = cid if ps is not None else 0
            ecu.state.session = 3
            try:
                if case.get("default_sleep"):
                    r = await ecu.power_cycle()
                else:
                    r = await ecu.power_cycle(sleep_ms / 1000.0)
            except Exception as ex:  # noqa: BLE001
                calls.end(cid, False, exc=ex)
                return
            result["ret"], result["session"] = r, ecu.state.session
            if env.pinged:
                rec.add("CbEnd", id=cid)
            calls.end(cid, True, int(bool(r)))

        await _finish(rec, [asyncio.ensure_future(one())], case["env"])

    with patched(net):
        try:
            vloop.run(go())
        except vloop.BlockedForever:
            rec.add("End", t=rec.t_fallback)
    env.dispose()
    inst.flush()
    hdr["lag"] = max(inst.max_lag, 2 * inst.lat) + 1  # measured for this execution: a fact of the environment
    hdr["ev"] = rec.ev
    hdr["final"] = inst.snapshot()
    hdr["result"] = result
    hdr["leaked"] = 0
    return hdr


# ------------------------------------------------------------------------------------------------ RND320
def _run_rnd(case: dict[str, Any], mutant: str | None) -> dict[str, Any]:
    from gallia.power_supply import PowerSupply
    from gallia.power_supply.uri import PowerSupplyURI

    rec = Rec()
    calls = Calls(rec)
    tmp = tempfile.mkdtemp(prefix="x15-")
    fifo = os.path.join(tmp, "ttyACM0")
    os.mkfifo(fifo)
    rfd = os.open(fifo, os.O_RDONLY | os.O_NONBLOCK)
    keep = os.open(fifo, os.O_WRONLY)  # a writer of our own: the FIFO never reports EOF between the driver's writes
    state = {"master": int(case["env"].get("init", {}).get("master", 1)), "buf": b""}
    hdr: dict[str, Any] = {"n": 1, "tmo": 60_000, "lag": 1,
                           "init": {"master": state["master"], "out": [0], "volt": [0], "curr": [0]}}

    def drain() -> None:
        while True:
            try:
                data = os.read(rfd, 4096)
            except BlockingIOError:
                break
            if not data:
                break
            state["buf"] += data
        while len(state["buf"]) >= 4:
            tok, state["buf"] = state["buf"][:4], state["buf"][4:]
            # RND 320-KA3005P (Korad protocol): OUT1 / OUT0 switch the output, no terminator
            if tok in (b"OUT0", b"OUT1"):
                state["master"] = int(tok[3:4])
                rec.add("Inst", id=-1, a="master", ch=0, v=state["master"])
            else:
                rec.add("Bad", id=-1, x=list(tok))
                state["buf"] = b""

    rec.pre = drain
    uri = f"file://{fifo}?product_id={case.get('product_id', 'RND320')}" + "".join(f"&channel={c}" for c in case.get("uri_chs", []))

    async def go() -> None:
        loop = asyncio.get_running_loop()
        loop.real_io = True  # type: ignore[attr-defined]
        loop.add_reader(rfd, drain)
        try:
            cid = calls.begin("open")
            try:
                ps = await PowerSupply.connect(PowerSupplyURI(uri))
                calls.end(cid, True)
            except Exception as ex:  # noqa: BLE001
                calls.end(cid, False, exc=ex)
                await _finish(rec, [], {}, horizon=None)
                return
            tasks = [asyncio.ensure_future(_caller(calls, rec, spec, ps.driver, ps, [0])) for spec in case["callers"]]
            await _finish(rec, tasks, {}, horizon=None)
        finally:
            loop.remove_reader(rfd)

    try:
        try:
            vloop.run(go())
        except vloop.BlockedForever:
            rec.add("End", t=rec.t_fallback)
    finally:
        rec.pre = None
        os.close(rfd)
        os.close(keep)
        shutil.rmtree(tmp, ignore_errors=True)
    hdr["ev"] = rec.ev
    hdr["final"] = {"master": state["master"]}
    hdr["leaked"] = 0
    return hdr


def run_case(case: dict[str, Any], mutant: str | None = None) -> dict[str, Any]:
    kind = case["kind"]
    if kind == "setup":
        return _run_setup(case, mutant)
    if kind == "ecu":
        return _run_ecu(case, mutant)
    if kind == "rnd":
        return _run_rnd(case, mutant)
    raise AssertionError(kind)
