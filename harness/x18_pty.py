"""X18 helper (confirmation tool, not used for verdicts): run the REAL `cursed-hr` entry point with the REAL ncurses
on a pseudo-terminal, feed it key strokes, and report how the process ended (exit status, traceback tail).

  PYTHONPATH=/verif:$GALLIA_SRC /venv/bin/python -m harness.x18_pty LOGFILE ROWSxCOLS key key ...

keys: single characters, or names UP DOWN PPAGE NPAGE LEFT RIGHT ESC ENTER BS DC, or RESIZE:ROWSxCOLS.
Used by hand: to measure the behaviour the fake window (harness/x18_fake.py) copies, and to confirm that every crash found
on the fake terminal also happens on a real one (findings/X18-*: all eight reproduced, none with the fixes applied).
Not part of ./check (it sleeps between keys: wall-clock dependent).  Needs TERM=xterm-256color (the viewer defines colour
pair 108; with TERM=xterm, 64 pairs, it already dies in define_colors - an environment requirement, not judged).
"""

from __future__ import annotations

import fcntl
import os
import pty
import re
import select
import signal
import struct
import sys
import termios
import time
from typing import Any

# xterm with keypad(True) => application mode sequences
SEQ = {"UP": b"\x1bOA", "DOWN": b"\x1bOB", "RIGHT": b"\x1bOC", "LEFT": b"\x1bOD", "PPAGE": b"\x1b[5~",
       "NPAGE": b"\x1b[6~", "ESC": b"\x1b", "ENTER": b"\n", "BS": b"\x7f", "DC": b"\x1b[3~"}
FROM_FAKE = {"KEY_UP": "UP", "KEY_DOWN": "DOWN", "KEY_LEFT": "LEFT", "KEY_RIGHT": "RIGHT", "KEY_PPAGE": "PPAGE",
             "KEY_NPAGE": "NPAGE", "\x1b": "ESC", "\n": "ENTER", "KEY_BACKSPACE": "BS", "KEY_DC": "DC"}


def keys_from_script(script: list[Any]) -> list[str]:
    out = []
    for k in script:
        if isinstance(k, dict):
            out.append(f"RESIZE:{k['resize'][0]}x{k['resize'][1]}")
        else:
            out.append(FROM_FAKE.get(k, k))
    return out


def run(logfile: str, size: tuple[int, int], keys: list[str], *, gallia_src: str | None = None,
        settle: float = 0.25, extra_args: tuple[str, ...] = ()) -> dict[str, Any]:
    src = gallia_src or os.environ.get("GALLIA_SRC", "/repo/src")
    pid, fd = pty.fork()
    if pid == 0:
        os.environ["TERM"] = "xterm-256color"
        os.environ["PYTHONPATH"] = src
        os.environ["ESCDELAY"] = "25"
        os.execv(sys.executable, [sys.executable, "-m", "gallia.cli.cursed_hr", logfile, *extra_args])
    fcntl.ioctl(fd, termios.TIOCSWINSZ, struct.pack("HHHH", size[0], size[1], 0, 0))
    os.kill(pid, signal.SIGWINCH)
    buf = bytearray()
    dead = False

    def drain(t: float) -> None:
        nonlocal dead
        end = time.time() + t
        while time.time() < end and not dead:
            r, _, _ = select.select([fd], [], [], 0.05)
            if r:
                try:
                    d = os.read(fd, 65536)
                except OSError:
                    dead = True
                    return
                if not d:
                    dead = True
                    return
                buf.extend(d)

    drain(1.5)
    sent = 0
    for k in keys:
        if dead:
            break
        if k.startswith("RESIZE:"):
            r, c = k[7:].split("x")
            fcntl.ioctl(fd, termios.TIOCSWINSZ, struct.pack("HHHH", int(r), int(c), 0, 0))
            os.kill(pid, signal.SIGWINCH)
        else:
            try:
                os.write(fd, SEQ.get(k, k.encode()))
            except OSError:
                dead = True
                break
        sent += 1
        drain(settle if k != "ESC" else settle + 0.3)
    drain(0.5)
    alive = False
    status = None
    t0 = time.time()
    while time.time() - t0 < 1.0:
        p, st = os.waitpid(pid, os.WNOHANG)
        if p:
            status = st
            break
        time.sleep(0.05)
    if status is None:
        alive = True
        os.kill(pid, signal.SIGKILL)
        _, status = os.waitpid(pid, 0)
    try:
        os.close(fd)
    except OSError:
        pass
    text = buf.decode("utf-8", "replace")
    plain = re.sub(r"\x1b\[[0-9;?]*[A-Za-z]|\x1b[()][A-Z0-9]|\x1b[=>]", "", text)
    tb = None
    m = re.search(r"Traceback \(most recent call last\):.*", plain, re.S)
    if m:
        lines = [ln.rstrip() for ln in m.group(0).replace("\r", "").split("\n") if ln.strip()]
        tb = lines[-6:]
    return {"alive_at_end": alive, "exit": os.waitstatus_to_exitcode(status) if not alive else None,
            "keys_sent": sent, "traceback": tb}


if __name__ == "__main__":
    r_, c_ = sys.argv[2].split("x")
    import json

    print(json.dumps(run(sys.argv[1], (int(r_), int(c_)), sys.argv[3:]), indent=1))
