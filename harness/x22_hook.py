"""X22 hook script (run by gallia's run_hook() as pre-/post-hook of an X22 child, `python -I -S`: harness/ holds an enum.py that must not shadow the stdlib):
a checkpoint inside the hook.  argv: events p variant ctl base_ns exit_status"""

import json
import os
import sys
import time

events, p, variant, ctl, base_ns, rc = sys.argv[1], int(sys.argv[2]), sys.argv[3], sys.argv[4], int(sys.argv[5]), int(sys.argv[6])
fd = os.open(events, os.O_WRONLY | os.O_APPEND)


def emit(k):
    os.write(fd, (json.dumps({"p": p, "k": k, "ph": variant, "n": 0,
                              "t": (time.monotonic_ns() - base_ns) // 1000}) + "\n").encode())


emit("B")
emit("at")
c = os.open(ctl, os.O_RDONLY)  # the driver keeps the FIFO open for writing: does not block
while not os.read(c, 1):
    time.sleep(0.005)
emit("E")
sys.exit(rc)
