"""X07 — families of cases (ECU script x option values x interrupt) for the real dump-seeds command.
All generators are deterministic functions of (tier, seed)."""

from __future__ import annotations

import itertools
import random
from typing import Any

# alphabet of the exhaustively enumerated seed-answer scripts
ALPHA = [["pos", 2], ["pos", 3], ["same"], ["posdrop", 1], ["neg", 0x37], ["neg", 0x36], ["sil"], ["mis", 2]]
NRCS = [0x37, 0x36, 0x22, 0x24, 0x31, 0x33, 0x7F, 0x12, 0x10]

BASE = {"session": "2", "level": "0x11", "duration": 0.15}


def _late(cfg: dict[str, Any]) -> float:
    """Interrupt long after the run must have ended by itself (duration + slack + leave_session)."""
    return float(cfg.get("duration", 0)) * 60 + 200.25


def enum_cfgs(tier: str) -> list[tuple[str, dict[str, Any], dict[str, Any]]]:
    """(name, option values, ECU parameters besides the seed script)"""
    out: list[tuple[str, dict[str, Any], dict[str, Any]]] = [
        ("plain", dict(BASE), {}),
        ("sleep", dict(BASE, sleep=1.5), {}),
        ("reset0-check", dict(BASE, reset=0, check=True), {"reset": {"ans": "ok", "boot": 1.0}}),
        ("reset2-zk3", dict(BASE, reset=2, zk=3, duration=0.25), {"key": {"len": 3, "accept": False, "nrc": 0x35}}),
        ("zkauto", dict(BASE, zk=0, zkmax=4, duration=0.3), {"key": {"len": 2, "accept": False, "nrc": 0x35}}),
    ]
    if tier == "thorough":
        out += [
            ("check-tp", dict(BASE, check=True, tp=True, ping=True), {}),
            ("data-level", dict(BASE, session="0x03", level="0x61", data="aabb00"), {}),
            ("retries1", dict(BASE, retries=1, reset=3), {}),
            ("sleep-reset1", dict(BASE, sleep=0.5, reset=1), {}),
            ("zk1-sleep", dict(BASE, zk=1, sleep=2.0, duration=0.3), {"key": {"len": 1, "accept": False, "nrc": 0x35}}),
            ("zkauto-exhaust", dict(BASE, zk=0, zkmax=2, duration=0), {"key": {"len": 5, "accept": False, "nrc": 0x35}}),
            ("infinite", dict(BASE, duration=-1), {}),
        ]
    return out


def enumerated(tier: str) -> list[dict[str, Any]]:
    n = 3 if tier == "quick" else 4
    cases = []
    for name, cfg, ecu in enum_cfgs(tier):
        for script in itertools.product(range(len(ALPHA)), repeat=n):
            e = dict(ecu, seed=[ALPHA[i] for i in script], seed_tail=[["pos", 4]], lat=1.0)
            c = {"ecu": e, "cfg": cfg, "int": _late(cfg) if float(cfg["duration"]) > 0 else 14.25,
                 "origin": f"enum{n}-{name}"}
            cases.append(c)
    return cases


def seed_lengths(tier: str) -> list[dict[str, Any]]:
    top = 40 if tier == "quick" else 130
    cases = []
    for n in list(range(0, top)) + [255, 300, 1000]:
        e = {"seed_tail": [["pos", n]], "lat": 1.0}
        cases.append({"ecu": e, "cfg": dict(BASE, duration=0.05), "int": 100.25, "origin": "seedlen-const"})
    for n in range(1, top, 3):
        e = {"seed_tail": [["pos", n], ["pos", 1], ["pos", n + 2], ["neg", 0x37], ["pos", 0], ["pos", n // 2]], "lat": 0.5}
        cases.append({"ecu": e, "cfg": dict(BASE, duration=0.1), "int": 100.25, "origin": "seedlen-varying"})
    return cases


def interrupts(tier: str) -> list[dict[str, Any]]:
    cases = []
    step = 0.5 if tier == "quick" else 0.25
    for cfg, ecu in ((dict(BASE, duration=-0.5), {"seed_tail": [["pos", 3], ["neg", 0x37], ["pos", 2]], "lat": 1.0}),
                     (dict(BASE, duration=0, zk=2, sleep=0.5), {"seed_tail": [["pos", 3]], "lat": 0.75,
                                                                  "key": {"len": 2, "accept": False, "nrc": 0x35}}),
                     (dict(BASE, duration=0.1, reset=2, check=True), {"seed_tail": [["pos", 2], ["posdrop", 2]], "lat": 1.0,
                                                                      "reset": {"ans": "ok", "boot": 1.0}})):
        t = step
        while t <= 13.0:
            cases.append({"ecu": ecu, "cfg": cfg, "int": t, "origin": "interrupt-sweep"})
            t += step
    return cases


def _rand_script(r: random.Random, n: int) -> list[list[Any]]:
    out: list[list[Any]] = []
    for _ in range(n):
        k = r.choice(["pos", "pos", "pos", "same", "posdrop", "neg", "neg", "negdrop", "sil", "mis", "misneg"])
        if k in ("pos", "posdrop", "mis"):
            out.append([k, r.choice([0, 1, 2, 3, 4, 8, 16, 17])])
        elif k in ("neg", "negdrop"):
            out.append([k, r.choice(NRCS)])
        else:
            out.append([k])
    return out


def sampled(tier: str, seed: int) -> list[dict[str, Any]]:
    r = random.Random(seed * 7919 + 17)
    n = 500 if tier == "quick" else 9000
    cases = []
    for i in range(n):
        cfg: dict[str, Any] = {"session": r.choice(["2", "0x03", "3"]), "level": r.choice(["0x11", "1", "0x61", "5"]),
                               "duration": r.choice([0, 0, -2, 0.1, 0.2, 0.4])}
        if r.random() < 0.3:
            cfg["data"] = r.choice(["aa", "aabb", "00", "0102030405"])
        if r.random() < 0.4:
            cfg["check"] = True
        if r.random() < 0.4:
            cfg["zk"] = r.choice([0, 0, 1, 2, 3])
            cfg["zkmax"] = r.choice([2, 3, 5])
        if r.random() < 0.45:
            cfg["reset"] = r.choice([0, 0, 1, 2, 3])
        if r.random() < 0.4:
            cfg["sleep"] = r.choice([0.5, 1.0, 2.5, 11.0])
        cfg["retries"] = r.choice([0, 0, 1])
        cfg["tp"] = r.random() < 0.25
        cfg["ping"] = r.random() < 0.25
        ecu: dict[str, Any] = {"seed": _rand_script(r, r.randint(0, 6)),
                               "seed_tail": _rand_script(r, r.randint(1, 3)) if r.random() < 0.5 else [["pos", r.choice([1, 2, 4])]],
                               "lat": r.choice([0.25, 0.5, 1.0, 1.5])}
        if all(b[0] == "sil" for b in ecu["seed_tail"]) and cfg["duration"] <= 0:
            ecu["seed_tail"] = [["pos", 2]]
        ecu["key"] = {"len": r.choice([1, 2, 3, 4]), "accept": r.random() < 0.2, "nrc": r.choice([0x35, 0x35, 0x35, 0x36, 0x24]),
                      "sil": r.random() < 0.1, "drop": r.random() < 0.15}
        if r.random() < 0.3:
            ecu["prot"] = {"max": r.choice([1, 2, 3]), "on": r.choice(["seed", "key"]), "delay": r.choice([3.0, 6.0, 30.0])}
        ecu["reset"] = r.choice([{"ans": "ok", "boot": 0.0}, {"ans": "ok", "boot": 0.0}, {"ans": "ok", "boot": 2.0},
                                 {"ans": "ok", "boot": 1e6}, {"ans": "neg"}, {"ans": "sil", "boot": 1.0}])
        x = r.random()
        if x < 0.08:
            ecu["dsc"] = [r.choice([0x22, 0x12, 0x7E, "sil"])]
        elif x < 0.2:
            ecu["dsc"] = ["ok"] + [r.choice([0x22, "lazy", "sil"])] * r.choice([1, 2, 8])
        ecu["sess_read"] = r.choice(["ok", "ok", "ok", "nrc31", "sil"])
        if r.random() < 0.15:
            ecu["rd"] = [r.choice(["ok", "sil", "nrc31"]) for _ in range(r.randint(1, 4))]
        if float(cfg["duration"]) > 0 and r.random() < 0.7:
            interrupt = _late(cfg)
        else:
            interrupt = r.choice([r.randint(1, 60) * 0.25, r.randint(1, 30) * 0.5, 20.25, 45.0])
        cases.append({"ecu": ecu, "cfg": cfg, "int": interrupt, "origin": "sampled"})
    return cases


def inactivity(tier: str) -> list[dict[str, Any]]:
    """The virtual ECU's own 10 s inactivity reset makes it fall out of the session when --sleep is long."""
    cases = []
    for check in (False, True):
        for sleep in (9.0, 11.0, 12.5):
            for tp in (False, True):
                cfg = dict(BASE, duration=1.0, sleep=sleep, check=check, tp=tp)
                cases.append({"ecu": {"seed_tail": [["pos", 2], ["neg", 0x37]], "lat": 0.5}, "cfg": cfg, "int": _late(cfg),
                              "origin": "inactivity"})
    return cases


def build(tier: str, seed: int) -> list[dict[str, Any]]:
    return enumerated(tier) + seed_lengths(tier) + interrupts(tier) + inactivity(tier) + sampled(tier, seed)
