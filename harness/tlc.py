"""TLC runner: model checking, simulation and batched trace validation.

Every run gets its own temporary metadir (removed afterwards); nothing is written
into /verif/spec.  Exit status 2 of the calling check is reserved for machinery
failure: `TlcError` is raised when TLC itself fails (parse error, crash,
timeout), as opposed to reporting a property violation.
"""

from __future__ import annotations

import json
import os
import re
import shutil
import subprocess
import tempfile
import time
from dataclasses import dataclass, field
from pathlib import Path
from typing import Any

SPEC_DIR = Path(__file__).resolve().parent.parent / "spec"
JAR = "/opt/veriftools/tla/tla2tools.jar:/opt/veriftools/tla/CommunityModules-deps.jar"


class TlcError(Exception):
    pass


@dataclass
class TlcResult:
    rc: int
    out: str
    wall_s: float
    generated: int = 0
    distinct: int = 0
    depth: int = 0
    violated: str | None = None  # name of violated invariant / property, or "deadlock", ...
    prints: list[Any] = field(default_factory=list)
    coverage: dict[str, tuple[int, int]] = field(default_factory=dict)
    cex: list[str] = field(default_factory=list)

    @property
    def ok(self) -> bool:
        return self.violated is None


_RE_STATES = re.compile(r"(\d+) states generated, (\d+) distinct states found")
_RE_DEPTH = re.compile(r"The depth of the complete state graph search is (\d+)")
_RE_INV = re.compile(r"Error: Invariant (\S+) is violated")
_RE_PROP = re.compile(r"Error: (Action|Temporal) propert(y|ies) (\S+)? ?(is|were) violated")
_RE_COV = re.compile(r"^<(\w+) line \d+, col \d+ to line \d+, col \d+ of module \w+>: (\d+):(\d+)", re.M)


def parse_value(s: str) -> Any:
    """Parse the TLA+ values TLC prints (ints, strings, booleans, tuples, sets,
    records, functions written as (a :> b @@ ...)) into Python values."""
    pos = 0
    n = len(s)

    def ws() -> None:
        nonlocal pos
        while pos < n and s[pos] in " \t\r\n":
            pos += 1

    def val() -> Any:
        nonlocal pos
        ws()
        c = s[pos]
        if c == '"':
            j = pos + 1
            buf = []
            while s[j] != '"':
                if s[j] == "\\":
                    j += 1
                buf.append(s[j])
                j += 1
            pos = j + 1
            return "".join(buf)
        if s.startswith("<<", pos):
            pos += 2
            out = []
            ws()
            if s.startswith(">>", pos):
                pos += 2
                return out
            while True:
                out.append(val())
                ws()
                if s.startswith(">>", pos):
                    pos += 2
                    return out
                assert s[pos] == ",", s[pos:]
                pos += 1
        if c == "{":
            pos += 1
            out = []
            ws()
            if s[pos] == "}":
                pos += 1
                return {"$set": out}
            while True:
                out.append(val())
                ws()
                if s[pos] == "}":
                    pos += 1
                    return {"$set": out}
                assert s[pos] == ",", s[pos:]
                pos += 1
        if c == "[":
            pos += 1
            rec = {}
            while True:
                ws()
                m = re.match(r"\w+", s[pos:])
                assert m, s[pos:]
                k = m.group(0)
                pos += len(k)
                ws()
                assert s.startswith("|->", pos), s[pos:]
                pos += 3
                rec[k] = val()
                ws()
                if s[pos] == "]":
                    pos += 1
                    return rec
                assert s[pos] == ",", s[pos:]
                pos += 1
        if c == "(":
            pos += 1
            fn = []
            while True:
                k = val()
                ws()
                assert s.startswith(":>", pos), s[pos:]
                pos += 2
                v = val()
                fn.append((k, v))
                ws()
                if s.startswith("@@", pos):
                    pos += 2
                    continue
                assert s[pos] == ")", s[pos:]
                pos += 1
                return {"$fn": fn}
        m = re.match(r"-?\d+", s[pos:])
        if m:
            pos += len(m.group(0))
            return int(m.group(0))
        m = re.match(r"\w+", s[pos:])
        assert m, s[pos:]
        pos += len(m.group(0))
        w = m.group(0)
        if w == "TRUE":
            return True
        if w == "FALSE":
            return False
        return w

    v = val()
    return v


def _balanced_chunks(text: str) -> list[str]:
    """Split TLC stdout into top-level printed values that start with `<<` at
    the beginning of a line (PrintT output), by bracket matching."""
    out = []
    lines = text.split("\n")
    i = 0
    while i < len(lines):
        ln = lines[i]
        if ln.startswith("<<"):
            buf = ln
            depth = buf.count("<<") - buf.count(">>")
            while depth > 0 and i + 1 < len(lines):
                i += 1
                buf += "\n" + lines[i]
                depth = buf.count("<<") - buf.count(">>")
            out.append(buf)
        i += 1
    return out


def run_tlc(
    module: str,
    cfg: str | None = None,
    *,
    cfg_text: str | None = None,
    workers: int | str = "auto",
    env: dict[str, str] | None = None,
    timeout: float = 900,
    simulate: str | None = None,
    depth: int | None = None,
    seed: int | None = None,
    coverage: bool = False,
    dfs_queue: bool = False,
    deadlock: bool = True,
    extra: tuple[str, ...] = (),
    heap: str = "4g",
    parse_prints: bool = True,
    spec_dir: Path | None = None,
) -> TlcResult:
    sd = spec_dir or SPEC_DIR
    tmp = tempfile.mkdtemp(prefix="tlc-")
    try:
        if cfg_text is not None:
            cfgp = Path(tmp) / f"{module}.cfg"
            cfgp.write_text(cfg_text)
        else:
            cfgp = sd / (cfg or f"{module}.cfg")
        # TLC unpacks its standard modules into java.io.tmpdir: keep that inside the per-run directory
        jtmp = Path(tmp) / "jtmp"
        jtmp.mkdir(exist_ok=True)
        jopts = [f"-Xmx{heap}", "-XX:+UseParallelGC", f"-Djava.io.tmpdir={jtmp}"]
        if dfs_queue:
            jopts.append("-Dtlc2.tool.queue.IStateQueue=StateDeque")
        cmd = ["java", *jopts, "-cp", JAR, "tlc2.TLC", "-metadir", str(Path(tmp) / "meta"),
               "-noGenerateSpecTE", "-config", str(cfgp), "-workers", str(workers)]
        if not deadlock:
            cmd.append("-deadlock")  # TLC: -deadlock means *do not* check for deadlock
        if simulate is not None:
            cmd += ["-simulate", simulate]
        if depth is not None:
            cmd += ["-depth", str(depth)]
        if seed is not None:
            cmd += ["-seed", str(seed)]
        if coverage:
            cmd += ["-coverage", "1"]
        cmd += list(extra)
        cmd.append(str(sd / f"{module}.tla"))
        e = dict(os.environ)
        e.pop("JAVA_TOOL_OPTIONS", None)
        if env:
            e.update(env)
        t0 = time.time()
        try:
            p = subprocess.run(cmd, cwd=tmp, env=e, capture_output=True, text=True, timeout=timeout)
        except subprocess.TimeoutExpired as ex:
            # TLC 1.8 with several workers was seen to hang once in StateQueue.suspendAll on a model that normally takes
            # seconds: one more try, single worker (deterministic breadth-first search), before giving up
            if str(workers) == "1" or simulate is not None:
                raise TlcError(f"TLC timeout after {timeout}s on {module}") from ex
            cmd1 = list(cmd)
            cmd1[cmd1.index("-workers") + 1] = "1"
            shutil.rmtree(Path(tmp) / "meta", ignore_errors=True)
            try:
                p = subprocess.run(cmd1, cwd=tmp, env=e, capture_output=True, text=True, timeout=timeout)
            except subprocess.TimeoutExpired as ex2:
                raise TlcError(f"TLC timeout after {timeout}s on {module} (also with one worker)") from ex2
        wall = time.time() - t0
        out = p.stdout + ("\n" + p.stderr if p.stderr.strip() else "")
        res = TlcResult(rc=p.returncode, out=out, wall_s=wall)
        for m in _RE_STATES.finditer(out):
            res.generated, res.distinct = int(m.group(1)), int(m.group(2))
        m = _RE_DEPTH.search(out)
        if m:
            res.depth = int(m.group(1))
        m = _RE_INV.search(out)
        if m:
            res.violated = m.group(1)
        elif "Error: Deadlock reached" in out:
            res.violated = "deadlock"
        elif re.search(r"Error: Action property (\S+) is violated", out):
            res.violated = re.search(r"Error: Action property (\S+) is violated", out).group(1)  # type: ignore[union-attr]
        elif "Temporal properties were violated" in out:
            res.violated = "temporal"
        elif "Error: The postcondition" in out or "Postcondition" in out and "violated" in out:
            res.violated = "postcondition"
        elif "Error:" in out and p.returncode != 0:
            # parse / semantic / evaluation errors are machinery failures
            raise TlcError(f"TLC failed on {module} (rc={p.returncode}):\n{out[-4000:]}")
        elif p.returncode != 0 and simulate is None:
            raise TlcError(f"TLC rc={p.returncode} on {module}:\n{out[-4000:]}")
        if res.violated:
            res.cex = re.findall(r"^State \d+: .*$", out, re.M)
        if coverage:
            for m in _RE_COV.finditer(out):
                res.coverage[m.group(1)] = (int(m.group(2)), int(m.group(3)))
        if parse_prints:
            for ch in _balanced_chunks(p.stdout):
                try:
                    res.prints.append(parse_value(ch))
                except Exception:  # noqa: BLE001
                    pass
        return res
    finally:
        shutil.rmtree(tmp, ignore_errors=True)


def sany(module: str) -> None:
    p = subprocess.run(["java", "-cp", JAR, "tla2sany.SANY", str(SPEC_DIR / f"{module}.tla")],
                       cwd=SPEC_DIR, capture_output=True, text=True)
    if p.returncode != 0 or "Semantic errors" in p.stdout or "Parse Error" in p.stdout or "Fatal" in p.stdout:
        raise TlcError(f"SANY rejects {module}:\n{p.stdout[-3000:]}{p.stderr[-1000:]}")


def validate_batch(
    module: str,
    cfg: str | None,
    batch: Any,
    *,
    cfg_text: str | None = None,
    timeout: float = 900,
    env: dict[str, str] | None = None,
    dfs_queue: bool = False,
    workers: int | str = 1,
    heap: str = "4g",
) -> TlcResult:
    """Write `batch` as JSON, hand its path to the trace spec through
    IOEnv.TRACE_FILE, run TLC (one worker: verdict lines are PrintT output)."""
    fd, path = tempfile.mkstemp(prefix="trace-", suffix=".json")
    try:
        with os.fdopen(fd, "w") as f:
            json.dump(batch, f)
        e = {"TRACE_FILE": path}
        if env:
            e.update(env)
        return run_tlc(module, cfg, cfg_text=cfg_text, workers=workers, env=e, timeout=timeout,
                       deadlock=False, dfs_queue=dfs_queue, heap=heap)
    finally:
        try:
            os.unlink(path)
        except OSError:
            pass


def simulate_behaviours(
    module: str,
    cfg: str | None,
    *,
    cfg_text: str | None = None,
    num: int,
    depth: int,
    seed: int,
    timeout: float = 600,
    env: dict[str, str] | None = None,
) -> tuple[TlcResult, list[list[tuple[str, dict[str, Any]]]]]:
    """`tlc -simulate file=...,num=N`: returns the behaviours as lists of
    (action name, state) pairs; states are dicts var -> parsed value."""
    d = tempfile.mkdtemp(prefix="sim-")
    try:
        res = run_tlc(module, cfg, cfg_text=cfg_text, workers=1, env=env, timeout=timeout,
                      simulate=f"file={d}/b,num={num}", depth=depth, seed=seed, deadlock=False,
                      parse_prints=False)
        behs = []
        for fn in sorted(os.listdir(d)):
            behs.append(parse_sim_file(Path(d) / fn))
        return res, behs
    finally:
        shutil.rmtree(d, ignore_errors=True)


_RE_SIM_HDR = re.compile(r"^\\\* <?(\w+)[ >]?.*$")


def parse_sim_file(path: Path) -> list[tuple[str, dict[str, Any]]]:
    txt = path.read_text()
    out: list[tuple[str, dict[str, Any]]] = []
    # blocks: "\* <Action line ...>" or "\* Initial predicate" ; "STATE_n ==" ; "/\ v = value" lines
    blocks = re.split(r"^(?=STATE_\d+ ==)", txt, flags=re.M)
    hdrs = re.findall(r"^\\\* (.*)$", txt, re.M)
    actions = []
    for h in hdrs:
        m = re.match(r"<(\w+)(?:\(.*\))? line", h)
        if m:
            actions.append(m.group(1))
        elif h.startswith("Initial") or h.startswith("<Initial"):
            actions.append("Init")
        elif h.startswith("<"):
            actions.append("?")
    bi = 0
    for b in blocks:
        if not b.startswith("STATE_"):
            continue
        body = b.split("==", 1)[1]
        body = re.split(r"^\\\*", body, flags=re.M)[0]
        st: dict[str, Any] = {}
        parts = re.split(r"^/\\ ", body.strip(), flags=re.M)
        for p in parts:
            p = p.strip()
            if not p:
                continue
            m = re.match(r"(\w+) = (.*)$", p, re.S)
            if not m:
                continue
            try:
                st[m.group(1)] = parse_value(m.group(2).strip())
            except Exception:  # noqa: BLE001
                st[m.group(1)] = m.group(2).strip()
        act = actions[bi] if bi < len(actions) else "?"
        out.append((act, st))
        bi += 1
    return out


@dataclass
class ApalacheResult:
    rc: int
    out: str
    wall_s: float
    ok: bool          # "NoError" up to the requested length
    error: bool       # "Checker has found an error"


def run_apalache(module: str, *, init: str, inv: str, length: int, timeout: float = 900,
                 subdir: str = "apalache", cinit: str | None = None) -> ApalacheResult:
    """apalache-mc check --init=<init> --inv=<inv> --length=<length> on spec/<subdir>/<module>.tla.
    Used for inductive-invariant obligations (Init => Inv at length 0; IndInit /\\ Next => Inv' at length 1).
    Neither ok nor error (timeout, type error, crash) is a machinery failure: TlcError."""
    t0 = time.time()
    out_dir = tempfile.mkdtemp(prefix="apa-")
    try:
        cmd = ["apalache-mc", "check", f"--init={init}", f"--inv={inv}", f"--length={length}",
               f"--out-dir={out_dir}"] + ([f"--cinit={cinit}"] if cinit else []) + [f"{module}.tla"]
        e = dict(os.environ)
        e.setdefault("JVM_ARGS", "-Xmx4g")
        try:
            p = subprocess.run(cmd, cwd=str(SPEC_DIR / subdir), env=e, capture_output=True, text=True, timeout=timeout)
        except subprocess.TimeoutExpired as ex:
            raise TlcError(f"apalache timed out after {timeout}s on {module} {init}/{inv}") from ex
        out = p.stdout + p.stderr
        ok = "The outcome is: NoError" in out
        err = "Checker has found an error" in out
        if not ok and not err:
            raise TlcError(f"apalache failed on {module} --init={init} --inv={inv}:\n{out[-3000:]}")
        return ApalacheResult(p.returncode, out, time.time() - t0, ok, err)
    finally:
        shutil.rmtree(out_dir, ignore_errors=True)
