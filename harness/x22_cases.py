"""X22 schedules: the enumerated family for 1..3 processes and the translation of TLC's behaviours
(spec/LockFile.tla: Export / -simulate) into schedules for harness/x22_run.py.

A schedule = {"id", "procs": [{g, spell, hooks, how, n, mainat, prefail, bad}], "acts": [[op, p], ...]}.
The model knows two ways a run ends by itself (ret | err); the concrete flavour of "err" (exception in main /
setup / teardown, sys.exit(n), KeyboardInterrupt raised by the command), where inside setup/main/teardown a run
rests, the spelling of the lock file's path and a failing pre-hook are chosen here (seeded).
"""

from __future__ import annotations

import json
import random
from typing import Any

ERR_FLAVOURS = ["exc", "sysexit", "kbd", "setup-exc", "teardown-exc"]
BAD_KINDS = ["missing-dir", "under-file", "sys", "toolong"]
SPELLS = ["plain", "symlink", "relative"]
MAINAT = ["setup", "main", "teardown"]


def P(g: int = 1, **kw: Any) -> dict[str, Any]:
    d: dict[str, Any] = {"g": g, "spell": "plain", "hooks": True, "how": "ret", "n": 3, "mainat": "main",
                         "prefail": False, "bad": None}
    d.update(kw)
    return d


def go(p: int, k: int = 1) -> list[list[Any]]:
    return [["go", p]] * k


# ---------------------------------------------------------------------------- enumerated family
def family(tier: str) -> list[dict[str, Any]]:
    out: list[dict[str, Any]] = []

    def add(name: str, procs: list[dict[str, Any]], acts: list[list[Any]]) -> None:
        out.append({"id": f"F{len(out):03d}-{name}", "procs": procs, "acts": acts, "origin": "family"})

    stages = {"pre": 0, "main": 1, "post": 2}
    ends = [("ret", None), ("exc", None), ("sysexit", None), ("kbd", None), ("setup-exc", None), ("teardown-exc", None),
            ("ret", "int"), ("ret", "kill")]
    fates = ["proceeds", "int", "kill"]
    k = 0
    for stage, ngo in stages.items():
        for how, env in ends:
            for fate in fates:
                k += 1
                full = tier != "quick"
                # quick: a Latin-square style third of the product, every stage / end / fate still present
                if not full and (stages[stage] + ends.index((how, env)) + fates.index(fate)) % 3 != 0:
                    continue
                if env == "int" and stage != "main":
                    continue  # Ctrl-C is delivered inside setup/main/teardown only (hooks: not specified)
                procs = [P(1, how=how, mainat=MAINAT[k % 3] if how == "ret" else "main", prefail=(k % 5 == 0)),
                         P(1, spell=SPELLS[k % 3], how=["ret", "exc", "sysexit"][k % 3])]
                acts: list[list[Any]] = [["start", 1]] + go(1, ngo) + [["start", 2]]
                if fate == "int":
                    acts += [["int", 2]]
                elif fate == "kill":
                    acts += [["kill", 2]]
                if env == "int":
                    acts += [["int", 1]]
                elif env == "kill":
                    acts += [["kill", 1]]
                acts += go(1, 4 - ngo) + go(2, 4)
                add(f"{stage}-{how}-{env or 'self'}-{fate}", procs, acts)
    # the holder has returned from entry_point() but its process lives on: the waiter must get in meanwhile
    for how in (["ret", "exc"] if tier == "quick" else ["ret"] + ERR_FLAVOURS):
        add(f"linger-{how}", [P(1, how=how), P(1)], [["start", 1], ["go", 1], ["start", 2], ["go", 1], ["go", 1], ["go", 2],
                                                     ["go", 2], ["go", 1]])
    # different lock files / no lock file: nobody waits for anybody
    add("two-files", [P(1), P(2)], [["start", 1], ["go", 1], ["start", 2], ["go", 2], ["go", 2], ["go", 2], ["go", 2]])
    add("no-lock-second", [P(1), P(0)], [["start", 1], ["go", 1], ["start", 2], ["go", 2], ["go", 2], ["go", 2], ["go", 2]])
    add("no-lock-first", [P(0), P(1)], [["start", 1], ["go", 1], ["start", 2], ["go", 2], ["go", 2], ["go", 2], ["go", 2]])
    add("no-hooks", [P(1, hooks=False), P(1, hooks=False)], [["start", 1], ["start", 2], ["go", 1], ["go", 1]])
    add("no-hooks-int-waiter", [P(1, hooks=False), P(1, hooks=False)], [["start", 1], ["start", 2], ["int", 2], ["go", 1]])
    # a lock file that cannot be created / opened
    for bad in BAD_KINDS:
        add(f"bad-{bad}", [P(1), P(1, bad=bad)], [["start", 1], ["go", 1], ["start", 2], ["go", 2]])
        if tier != "quick":
            add(f"bad-alone-{bad}", [P(1, bad=bad)], [["start", 1]])
    # three runs
    add("three-queue", [P(1), P(1, spell="symlink"), P(1, spell="relative")],
        [["start", 1], ["go", 1], ["start", 2], ["start", 3]] + go(1, 3) + go(2, 4) + go(3, 4))
    add("three-int-one-waiter", [P(1), P(1), P(1)],
        [["start", 1], ["go", 1], ["start", 2], ["start", 3], ["int", 2]] + go(1, 3) + go(3, 4))
    add("three-kill-holder", [P(1), P(1), P(1, how="exc")],
        [["start", 1], ["go", 1], ["start", 2], ["start", 3], ["kill", 1]] + go(2, 4) + go(3, 4) + go(2, 4))
    add("three-other-file", [P(1), P(1), P(2)],
        [["start", 1], ["go", 1], ["start", 2], ["start", 3]] + go(3, 4) + [["int", 1]] + go(1, 3))
    if tier != "quick":
        add("three-kill-waiter", [P(1), P(1), P(1)],
            [["start", 1], ["start", 2], ["start", 3], ["kill", 2]] + go(1, 4) + go(3, 4))
        add("three-int-both-waiters", [P(1), P(1), P(1)],
            [["start", 1], ["go", 1], ["start", 2], ["start", 3], ["int", 2], ["int", 3]] + go(1, 3))
        add("three-int-holder", [P(1, mainat="setup"), P(1), P(1)],
            [["start", 1], ["go", 1], ["start", 2], ["start", 3], ["int", 1]] + go(1, 3) + go(2, 4) + go(3, 4))
    return out


# ---------------------------------------------------------------------------- from TLC
def from_tlc(acts: list[list[Any]], groups: list[int], tag: str, rng: random.Random) -> dict[str, Any]:
    procs = []
    for i, g in enumerate(groups, start=1):
        h = next((a[2] for a in acts if a[0] == "start" and int(a[1]) == i), "ret")
        how = "ret" if h == "ret" else rng.choice(ERR_FLAVOURS)
        hit = any(a[0] == "int" and int(a[1]) == i for a in acts)  # Ctrl-C in setup skips teardown: rest later
        procs.append(P(max(g, 0), spell=rng.choice(SPELLS), how=how, n=rng.choice([1, 3, 64, 130]),
                       mainat=rng.choice(MAINAT[1:] if hit else MAINAT) if how == "ret" else "main",
                       prefail=rng.random() < 0.15,
                       bad=rng.choice(BAD_KINDS) if g == -1 else None))
    return {"id": tag, "procs": procs, "acts": [[a[0], int(a[1])] for a in acts], "origin": "tlc",
            "model_how": [next((a[2] for a in acts if a[0] == "start" and int(a[1]) == i), None)
                          for i in range(1, len(groups) + 1)]}


def exported(prints: list[Any]) -> list[tuple[list[list[Any]], list[list[int]]]]:
    """(acts, summary) of every finished behaviour TLC printed: <<"S", acts, summary>>."""
    out, seen = [], set()
    for p in prints:
        if isinstance(p, list) and len(p) == 3 and p[0] == "S":
            k = json.dumps(p[1])
            if k not in seen:
                seen.add(k)
                out.append((p[1], p[2]))
    return out


def interesting(acts: list[list[Any]]) -> int:
    """Sort key for sampling TLC's behaviours: those in which the runs meet first."""
    ops = [a[0] for a in acts]
    first_two_started = [i for i, a in enumerate(acts) if a[0] == "start"]
    meet = len(first_two_started) > 1 and any(a[0] == "go" for a in acts[first_two_started[1]:])
    return (2 if "int" in ops else 0) + (1 if "kill" in ops else 0) + (2 if meet else 0)
