"""X05 — families of cases (ECU memory model x option values) for the real `scan uds memory`.

A case is plain JSON: {"ecu": model (see harness/x05_mem.py), "cfg": option values as a user would type them,
"den": what those values denote (written first; the strings are rendered from it), "origin": family}.
All generators are deterministic functions of (tier, seed).
"""

from __future__ import annotations

import itertools
import random
from typing import Any

POSITIVE, NONE, LATE, CRASH, ROOR = 0, 256, 257, 258, 0x31
SVCS = [0x23, 0x3D, 0x34, 0x35]
SVC_NAMES = {0x23: "ReadMemoryByAddress", 0x3D: "WriteMemoryByAddress", 0x34: "RequestDownload", 0x35: "RequestUpload"}
# negative response codes an ECU may give a memory request (not 0x21 / 0x78: resolved by the UDS client, C04)
NRCS = [0x33, 0x22, 0x72, 0x10, 0x13, 0x11, 0x7F, 0x12, 0x70, 0x24]
# byte boundaries of the address field
BOUNDARY = [0x00, 0x01, 0x7F, 0x80, 0xFF, 0x0100, 0x8000, 0xFF00, 0x010000, 0xFF0000, 0x01000000, 0xFF000000,
            0x0100000000, 0x8000000000, 0xFF00000000]
# addresses around them that answer in the model as well (whether the scan visits them is its business)
AROUND = [0x0101, 0x01FF, 0x0102, 0xFFFF, 0x010001, 0x10000000000, 0xFF00000001, 0xFFFFFFFFFF, 0x100]


def spell_service(svc: int, style: int) -> Any:
    return [hex(svc), str(svc), SVC_NAMES[svc], f"0x{svc:02X}"][style % 4]


def spell_int(v: int, style: int) -> Any:
    return [hex(v), str(v), f"0x{v:02x}", v][style % 4]


def make_case(ecu: dict[str, Any], svc: int, session: int, data: bytes | None, check: int | None,
              retries: int | None, style: int, origin: str, defaults: bool = False) -> dict[str, Any]:
    cfg: dict[str, Any] = {"service": spell_service(svc, style), "session": spell_int(session, style + 1),
                           "defaults": defaults}
    if data is not None:
        cfg["data"] = data.hex() if style % 2 == 0 else data.hex().upper()
    if check is not None:
        cfg["check"] = check
    if retries is not None:
        cfg["max_retries"] = retries
    # the documented default of --data is eight zero bytes (shown by --help)
    den_data = list(data) if data is not None else [0] * 8
    return {"ecu": dict(ecu, svc=svc), "cfg": cfg, "origin": origin,
            "den": {"session": session, "svc": svc, "data": den_data if svc == 0x3D else [], "check": check or 0}}


def ecu_model(session: int, mem: dict[int, int], *, dflt_in: int | None = None, other: int = 0x7F,
              drop: list[int] | None = None, sess_read: str = "ok", budget: int = -1, reset_ok: bool = True,
              sessions: list[int] | None = None) -> dict[str, Any]:
    sessions = sessions if sessions is not None else [1, 2, 3]
    dflt = {str(s): other for s in sessions if s != session}
    if dflt_in is not None:
        dflt[str(session)] = dflt_in
    return {"sessions": sessions, "dsc_budget": budget, "sess_read": sess_read, "reset_ok": reset_ok, "svc": 0,
            "mem": {str(session): {format(a, "x"): c for a, c in sorted(mem.items())}}, "dflt": dflt,
            "drop": [format(a, "x") for a in (drop or [])]}


def baseline_of(case: dict[str, Any]) -> dict[str, Any]:
    """Same options, an ECU that accepts every session change and answers requestOutOfRange everywhere."""
    ecu = {"sessions": case["ecu"]["sessions"], "dsc_budget": -1, "sess_read": "ok", "reset_ok": True,
           "svc": case["ecu"]["svc"], "mem": {}, "dflt": {}, "drop": []}
    return {"ecu": ecu, "cfg": case["cfg"], "den": case["den"], "origin": "baseline"}


DATA_BY_SVC = [bytes.fromhex("aabbcc"), bytes([0x5A]), bytes(range(255)), bytes(256), bytes(i & 0xFF for i in range(300)),
               bytes(8)]


def _opts(n: int) -> tuple[int, int, bytes | None, int | None]:
    """Rotating option values: (svc, session, data, retries)."""
    svc = SVCS[n % 4]
    session = [3, 2, 3, 3, 2, 3, 1][n % 7]
    data = DATA_BY_SVC[(n // 4) % len(DATA_BY_SVC)] if svc == 0x3D else None
    retries = [0, 1, None, 2][(n // 3) % 4]
    return svc, session, data, retries


# ------------------------------------------------------------------ abstract models: 5 classes on 5 marker addresses
ABS_MARKERS = [0x00, 0x02, 0xFF, 0x0100, 0xFF00000000]
ABS_CLASSES = [POSITIVE, 0x33, ROOR, NONE, LATE]


def abstract(tier: str) -> list[dict[str, Any]]:
    out = []
    step = 50 if tier == "quick" else 1
    for n, combo in enumerate(itertools.product(ABS_CLASSES, repeat=len(ABS_MARKERS))):
        if n % step != (7 if tier == "quick" else 0):
            continue
        svc, session, data, retries = _opts(n)
        mem = dict(zip(ABS_MARKERS, combo))
        mem[0x0101] = POSITIVE  # an address next to the boundary answers too
        out.append(make_case(ecu_model(session, mem), svc, session, data, None, retries, n, "abstract"))
    return out


# ------------------------------------------------------------------ session handling
DROPS: list[list[int]] = [[], [0x03], [0xFF], [0x0100], [0x00], [0x05, 0x0500]]
CHECKS: list[int | None] = [None, 1, 2, 7, 100, 256, 1000]
READS = ["ok", "unsupported", "silent", "othernrc"]
BUDGETS = [-1, 0, 1, 2, 3]


def session_family(tier: str) -> list[dict[str, Any]]:
    out = []
    n = 0
    for drop, check, read, budget, reset_ok in itertools.product(DROPS, CHECKS, READS, BUDGETS, (True, False)):
        n += 1
        if tier == "quick" and n % 31 != 5:
            continue
        if read == "silent" and check in (1, 2) and tier == "quick" and n % 3:
            continue  # four timed-out reads per address: slow, keep a few
        svc, session, data, retries = _opts(n)
        if session == 1:
            session = 3
        mem = {0x04: POSITIVE, 0x06: 0x33, 0x08: NONE, 0x0200: POSITIVE, 0xFE00: 0x22, 0x030000: LATE}
        out.append(make_case(ecu_model(session, mem, drop=drop, sess_read=read, budget=budget, reset_ok=reset_ok),
                             svc, session, data, check, retries, n, "session"))
    return out


# ------------------------------------------------------------------ layouts: every service x data record x spelling
def layout_family() -> list[dict[str, Any]]:
    out = []
    n = 0
    mem = {a: (POSITIVE if i % 2 == 0 else NRCS[i % len(NRCS)]) for i, a in enumerate(BOUNDARY + AROUND)}
    for svc in SVCS:
        datas: list[bytes | None] = [None]
        if svc == 0x3D:
            datas = [None, *DATA_BY_SVC, b""]
        for data in datas:
            for session in (3, 1):
                n += 1
                out.append(make_case(ecu_model(session, mem, other=0x7E), svc, session, data, [None, 64][n % 2],
                                     [None, 0, 1][n % 3], n, "layout"))
    return out


# ------------------------------------------------------------------ dense models, unknown session, defaults
def dense_family() -> list[dict[str, Any]]:
    out = []
    for n, (svc, d) in enumerate(itertools.product(SVCS, (POSITIVE, 0x33, NONE))):
        data = bytes.fromhex("0102") if svc == 0x3D else None
        out.append(make_case(ecu_model(3, {0x10: ROOR, 0x1100: ROOR}, dflt_in=d), svc, 3, data, [None, 50][n % 2],
                             0 if d == NONE else None, n, "dense"))
    out.append(make_case(ecu_model(3, {1: POSITIVE}), 0x23, 0x44, None, None, None, 0, "unknown-session"))
    out.append(make_case(ecu_model(2, {1: POSITIVE}, sessions=[1, 2]), 0x34, 3, None, 4, None, 1, "unknown-session"))
    for n, svc in enumerate(SVCS):
        mem = {0x01: POSITIVE, 0x09: NONE, 0xFF00: 0x33, 0x0100000000: LATE}
        out.append(make_case(ecu_model(3, mem, drop=[0x20] if n % 2 else []), svc, 3, None, [None, 16][n % 2], None,
                             n, "defaults", defaults=True))
    return out


# ------------------------------------------------------------------ the ECU crashes on a memory access
def crash_family() -> list[dict[str, Any]]:
    """No answer, connection closed, ECU back in the default session.  Only with client retries >= 1: the option
    help documents that reconnects are triggered by the retries ("If supported by the transport, this will
    trigger reconnects if required"); with max_retries 0 nothing reconnects and the sources are silent."""
    out = []
    n = 0
    for at, check, retries in itertools.product((0x05, 0xFF, 0x0100, 0x00), (None, 1, 7), (1, None)):
        n += 1
        svc, session, data, _ = _opts(n)
        if session == 1:
            session = 2
        mem = {at: CRASH, 0x06: POSITIVE, 0x0200: 0x33, 0xFF00: NONE}
        out.append(make_case(ecu_model(session, mem, sess_read="ok" if n % 5 else "unsupported",
                                       budget=1 if n % 7 == 3 else -1),
                             svc, session, data, check, retries, n, "crash"))
    return out


# ------------------------------------------------------------------ seeded random models
def random_family(tier: str, seed: int) -> list[dict[str, Any]]:
    rng = random.Random(seed * 7919 + 5)
    out = []
    for n in range(20 if tier == "quick" else 300):
        svc = rng.choice(SVCS)
        session = rng.choice([2, 3, 3, 1])
        pool = BOUNDARY + AROUND + [rng.randrange(256) << (8 * rng.randrange(5)) for _ in range(8)]
        mem = {}
        retries = rng.choice([None, 0, 1, 2])
        for a in rng.sample(pool, rng.randrange(1, 12)):
            mem[a] = rng.choice([POSITIVE, POSITIVE, NONE, LATE, ROOR] + NRCS + ([CRASH] if retries != 0 else []))
        drop = rng.sample(sorted(mem), 1) if rng.random() < 0.4 and session != 1 else []
        check = rng.choice([None, None, 1, 3, 10, 64, 255, 257])
        read = rng.choice(["ok", "ok", "ok", "unsupported", "silent"]) if check not in (1, 3) else "ok"
        data = bytes(rng.randrange(256) for _ in range(rng.choice([1, 2, 8, 17, 255, 256]))) if svc == 0x3D else None
        out.append(make_case(ecu_model(session, mem, other=rng.choice([0x7F, 0x31, 0x33, 0x11]), drop=drop,
                                       sess_read=read, budget=rng.choice([-1, -1, 1, 2]),
                                       reset_ok=rng.random() < 0.8),
                             svc, session, data, check, retries, n, "random"))
    return out


def build_cases(tier: str, seed: int) -> list[dict[str, Any]]:
    return (abstract(tier) + session_family(tier) + layout_family() + dense_family() + crash_family()
            + random_family(tier, seed))
