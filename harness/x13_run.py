"""X13 -- drive the REAL gallia XCP code on one case and record a trace.  Nothing is judged here.

Three kinds of cases (plain JSON, replayable):

  {"kind": "sess", "tr": "raw" | "can", "timeout": seconds, "master": id, "slave": id,
   "calls": [{"m": method, "arg": int | None, "ans": [answer, ...]}, ...]}
      raw: answer = {"d": hex} | "sil" | "empty" | "connerr" | "werr"; one answer per read() of the call,
           silence when the list is used up
      can: answer = {"at": ms after the command frame, "src": can id, "d": hex}
           | {"every": ms, "src": can id, "d": hex}   (periodic frames of another node, for ever)
      The real XCPService runs over harness.fakes.ScriptedTransport, the real CANXCPSerivce over FakeCan, a
      subclass of gallia's RawCANTransport whose sendto()/recvfrom() are scripted (the sandbox has no AF_CAN, the
      socket code of RawCANTransport itself cannot run here).
  {"kind": "prim", "answers": [answer x 4+], "accept": bool}
      the real SimpleTestXCP.run() (setup, main, teardown) over the real TCPTransport on in-memory streams
      (harness.streams); answer k is what the slave does with the k-th packet it receives:
      {"d": hex} | "sil" | "eof" (slave closes its side) | "reset"
  {"kind": "find", "udp": bool, "ports": [[port, class], ...]}
      the real TcpFindXCP.run() / UdpFindXCP.run() with the name `socket` of gallia.commands.discover.find_xcp bound to
      an in-memory network (FakeNet): classes closed, filtered, xcp, err, other, short, hdr, silent, eof

Observation points: the bytes at the transport / wire, the exception a call raises, the virtual time it takes, and the
client's own log records: a result-tagged record during a call = "reported OK", the `construct` Container (resp. the
raw bytes) it logs = the decoded fields.  Decoded values are normalised to integers (flags 0/1, enum members by value,
the dword `length` as 4 bytes most significant first) and renamed to the contract's names by FIELD_PREFIX.
"""

from __future__ import annotations

import asyncio
import contextlib
import logging
import re
import struct
from collections.abc import Iterator
from typing import Any

from gallia.transports.base import BaseTransport, TargetURI
from gallia.transports.can import RawCANConfig, RawCANTransport

from harness import vloop
from harness.c10_stack import setup_logging_once
from harness.fakes import ScriptedTransport, ScriptEnv
from harness.streams import Listener, Wire, patched_connections
from harness.vloop import now_ms

XCP_LOGGER = "gallia.services.xcp"
FIND_LOGGER = "gallia.commands.discover.find_xcp"
HORIZON_FACTOR = 60  # a call still pending after 60 request timeouts is reported as "hang"

FIELD_PREFIX = {
    "resource": "resource_",
    "commModeBasic": "comm_",
    "sessionStatus": "status_",
    "resourceProtectionStatus": "protection_",
    "commModeOptional": "optional_",
}


# ------------------------------------------------------------------ log observation
class _Capture(logging.Handler):
    def __init__(self) -> None:
        super().__init__(level=0)
        self.records: list[logging.LogRecord] = []

    def emit(self, record: logging.LogRecord) -> None:
        self.records.append(record)


@contextlib.contextmanager
def capture(logger_name: str) -> Iterator[_Capture]:
    setup_logging_once()
    lg = logging.getLogger(logger_name)
    old_level, old_prop = lg.level, lg.propagate
    h = _Capture()
    lg.setLevel(logging.INFO)
    lg.propagate = False
    lg.addHandler(h)
    try:
        yield h
    finally:
        lg.removeHandler(h)
        lg.setLevel(old_level)
        lg.propagate = old_prop


def _is_result(r: logging.LogRecord) -> bool:
    return "result" in (getattr(r, "tags", None) or [])


def _norm(key: str, v: Any) -> Any:
    if v is None:
        return None
    if isinstance(v, bool):
        return int(v)
    if hasattr(v, "intvalue"):  # construct EnumIntegerString
        return int(v.intvalue)
    if isinstance(v, int):
        if key == "length":
            return list(v.to_bytes(4, "big")) if 0 <= v < 2**32 else None
        return int(v) if -(2**31) < v < 2**31 else None
    if isinstance(v, (bytes, bytearray)):
        return list(v)
    if isinstance(v, (list, tuple)):
        return [int(x) for x in v]
    return None


def flatten(c: Any) -> dict[str, Any]:
    """construct Container -> {contract field name: integer | list of integers}"""
    out: dict[str, Any] = {}
    for k, v in dict(c).items():
        if str(k).startswith("_"):
            continue
        if hasattr(v, "items") and not isinstance(v, (bytes, str)):
            pfx = FIELD_PREFIX.get(k, f"{k}_")
            for k2, v2 in dict(v).items():
                if not str(k2).startswith("_"):
                    n = _norm(k2, v2)
                    if n is not None:
                        out[pfx + str(k2)] = n
        else:
            n = _norm(k, v)
            if n is not None:
                out[str(k)] = n
    return out


def decoded_of(records: list[logging.LogRecord]) -> tuple[bool, dict[str, Any]]:
    dec: dict[str, Any] | None = None
    for r in records:
        m = r.msg
        if isinstance(m, (bytes, bytearray)):
            dec = {"data": list(m)}
        elif hasattr(m, "items") and not isinstance(m, str):
            keys = [k for k in dict(m) if not str(k).startswith("_")]
            if keys == ["type"]:
                continue  # the packet identifier header
            dec = flatten(m)
    if dec is None:
        return False, {"_": 0}
    dec["_"] = 0
    return True, dec


def exc_names(e: BaseException) -> list[str]:
    out = []
    for c in type(e).__mro__:
        if c.__name__ in ("BaseException", "object"):
            break
        out.append(c.__name__)
    return out


# ------------------------------------------------------------------ raw transport slave
class RawSlave(ScriptEnv):
    def __init__(self, mutant: str | None = None) -> None:
        super().__init__()
        self.ans: list[Any] = []
        self.mutant = mutant

    def begin(self, ans: list[Any]) -> None:
        self.ans = list(ans)

    def on_write(self, data: bytes) -> str | None:
        if self.ans and self.ans[0] == "werr":
            self.ans.pop(0)
            return "WConnErr"
        return None

    def on_read(self, timeout: float | None) -> tuple[str, bytes | None]:
        a = self.ans.pop(0) if self.ans else "sil"
        if a == "sil":
            return ("Timeout", None)
        if a == "empty":
            return ("Empty", None)
        if a == "connerr":
            return ("ConnErr", None)
        return ("R", bytes.fromhex(a["d"]))


def _raw_events(log: list[dict[str, Any]]) -> list[dict[str, Any]]:
    out: list[dict[str, Any]] = []
    for e in log:
        k = e["e"]
        if k == "W":
            out.append({"e": "W", "d": list(bytes.fromhex(e["data"])), "to": -1})
        elif k == "WConnErr":
            out.append({"e": "WErr"})
        elif k == "R":
            out.append({"e": "R", "d": list(bytes.fromhex(e["data"])), "from": -1})
        elif k == "Timeout":
            out.append({"e": "T", "ms": int(e["d"])})
        elif k == "Empty":
            out.append({"e": "Empty"})
        elif k == "ConnErr":
            out.append({"e": "ConnErr"})
    return out


# ------------------------------------------------------------------ CAN bus
class CanBus:
    """Frames on the bus after the command frame of the current call, on a virtual time line."""

    def __init__(self) -> None:
        self.log: list[dict[str, Any]] = []
        self.once: list[tuple[int, int, bytes]] = []
        self.periodic: list[tuple[int, int, bytes, int]] = []  # (gap, src, data, next at)
        self.armed = False
        self.script: list[Any] = []

    def begin(self, ans: list[Any]) -> None:
        self.script = list(ans)
        self.armed = False
        self.once, self.periodic = [], []

    def sent(self) -> None:
        if self.armed:
            return
        self.armed = True
        t0 = now_ms()
        for a in self.script:
            if "every" in a:
                self.periodic.append((int(a["every"]), int(a["src"]), bytes.fromhex(a["d"]), t0 + int(a["every"])))
            else:
                self.once.append((t0 + int(a["at"]), int(a["src"]), bytes.fromhex(a["d"])))
        self.once.sort(key=lambda f: f[0])

    def peek_frame(self, deadline: int | None) -> tuple[int, int, bytes] | None:
        """The next frame on the bus if it arrives before `deadline`; it stays queued until take_frame()."""
        best: tuple[int, int, bytes] | None = None
        self._idx = -1
        if self.once:
            best = self.once[0]
        for i, (gap, src, data, at) in enumerate(self.periodic):
            if best is None or at < best[0]:
                best, self._idx = (at, src, data), i
        if best is None or (deadline is not None and best[0] > deadline):
            return None
        return best

    def take_frame(self) -> None:
        if self._idx >= 0:
            gap, src, data, at = self.periodic[self._idx]
            self.periodic[self._idx] = (gap, src, data, at + gap)
        else:
            self.once.pop(0)


class FakeCan(RawCANTransport, scheme="fake-can-raw"):
    """gallia's RawCANTransport with the two socket operations CANXCPSerivce uses replaced by the scripted bus."""

    def __init__(self, bus: CanBus, mutant: str | None = None) -> None:
        BaseTransport.__init__(self, TargetURI("can-raw://fake0"))
        self.config = RawCANConfig()
        self.bus = bus
        self.mutant = mutant

    async def sendto(self, data: bytes, dst: int, timeout: float | None = None, tags: list[str] | None = None) -> int:
        self.bus.log.append({"e": "W", "d": list(data), "to": int(dst)})
        self.bus.sent()
        return len(data)

    async def recvfrom(self, timeout: float | None = None, tags: list[str] | None = None) -> tuple[int, bytes]:
        t0 = now_ms()
        deadline = None if timeout is None else t0 + int(round(timeout * 1000))
        f = self.bus.peek_frame(deadline)
        try:
            if f is None:
                if timeout is None:
                    await asyncio.Event().wait()
                await asyncio.sleep(timeout or 0)
                self.bus.log.append({"e": "T", "ms": now_ms() - t0})
                raise TimeoutError("scripted bus: nothing received")
            at, src, data = f
            if at > t0:
                await asyncio.sleep((at - t0) / 1000.0)
        except asyncio.CancelledError:
            # the caller gave up (its own deadline): this receive ended without a frame, too
            self.bus.log.append({"e": "T", "ms": now_ms() - t0})
            raise
        self.bus.take_frame()
        self.bus.log.append({"e": "R", "d": list(data), "from": int(src)})
        return src, data

    async def close(self) -> None:
        self.is_closed = True


# ------------------------------------------------------------------ sessions
def run_session(case: dict[str, Any], mutant: str | None = None) -> dict[str, Any]:
    from gallia.services.xcp import CANXCPSerivce, XCPService

    timeout = float(case.get("timeout", 1.0))
    is_can = case["tr"] == "can"
    master, slave = int(case.get("master", -1)), int(case.get("slave", -1))
    calls_out: list[dict[str, Any]] = []

    async def go(cap: _Capture) -> None:
        if is_can:
            bus = CanBus()
            svc: Any = CANXCPSerivce(FakeCan(bus, mutant), master, slave, timeout)
            log = bus.log
        else:
            env = RawSlave(mutant)
            svc = XCPService(ScriptedTransport(env), timeout)
            log = env.log
        try:
            for c in case["calls"]:
                ans = c.get("ans", [])
                swapped = mutant == "fake-answers-other-byte-order" and not is_can and c["m"] == "connect"
                if swapped:
                    ans = [_swap_connect(a) for a in ans]
                (bus if is_can else env).begin(ans)
                n0, r0, t0 = len(log), len(cap.records), now_ms()
                rec: dict[str, Any] = {"m": c["m"], "arg": -1 if c.get("arg") is None else int(c["arg"]), "exc": [],
                                       "excmsg": ""}
                args = () if c.get("arg") is None else (c["arg"],)
                try:
                    async with asyncio.timeout(HORIZON_FACTOR * timeout) as cm:
                        await getattr(svc, c["m"])(*args)
                    rec["out"] = "ok"
                except Exception as e:  # noqa: BLE001
                    if cm.expired():
                        rec["out"] = "hang"
                    else:
                        rec["out"] = "exc"
                        rec["exc"] = exc_names(e)
                        rec["excmsg"] = repr(e)[:160]
                rec["ms"] = now_ms() - t0
                evs = log[n0:]
                rec["io"] = evs if is_can else _raw_events(evs)
                if swapped:
                    rec["io"] = [_unswap(e) for e in rec["io"]]
                recs = cap.records[r0:]
                rec["okline"] = any(_is_result(r) for r in recs)
                rec["hasdec"], rec["dec"] = decoded_of(recs)
                calls_out.append(rec)
                if rec["out"] == "hang":
                    break
        finally:
            if not is_can:
                env.dispose()

    with capture(XCP_LOGGER) as cap:
        vloop.run(go(cap))
    return {
        "kind": "sess",
        "cfg": {"kind": case["tr"], "master": master, "slave": slave, "timeoutMs": int(round(timeout * 1000))},
        "calls": calls_out,
        "origin": case.get("origin", ""),
    }


def _swap_connect(a: Any) -> Any:
    """mutant of the harness's own fake: a positive CONNECT response is delivered with the byte-order bit flipped
    (the record keeps the scripted bytes)"""
    if isinstance(a, dict) and "d" in a:
        b = bytearray(bytes.fromhex(a["d"]))
        if len(b) >= 8 and b[0] == 0xFF:
            b[2] ^= 1
            return {"d": bytes(b).hex(), "_orig": a["d"]}
    return a


def _unswap(e: dict[str, Any]) -> dict[str, Any]:
    if e.get("e") == "R" and len(e["d"]) >= 8 and e["d"][0] == 0xFF:
        d = list(e["d"])
        d[2] ^= 1
        return {**e, "d": d}
    return e


# ------------------------------------------------------------------ primitive xcp
def run_prim(case: dict[str, Any], mutant: str | None = None) -> dict[str, Any]:
    from gallia.commands.primitive.uds.xcp import SimpleTestXCP, SimpleTestXCPConfig

    answers = list(case["answers"])
    out: dict[str, Any] = {"pk": [], "done": "?"}
    lst = Listener()
    lst.accepting = bool(case.get("accept", True))
    closed: dict[int, int] = {}

    def accept(w: Wire) -> None:
        idx = len(lst.wires)  # 1-based: the wire has been appended already
        closed[idx] = 0

        def on_out(data: bytes, w: Wire = w, idx: int = idx) -> None:
            n = len(out["pk"])
            out["pk"].append({"c": idx, "d": list(data)})
            a = answers[n] if n < len(answers) else "sil"
            if a == "eof":
                w.eof()
            elif a == "reset":
                w.reset()
            elif isinstance(a, dict):
                w.feed(bytes.fromhex(a["d"]))

        def on_close(idx: int = idx) -> None:
            closed[idx] = 1

        w.on_out = on_out
        w.on_client_close = on_close

    lst.on_accept = accept

    async def go() -> None:
        with patched_connections(lst):
            try:
                cmd = SimpleTestXCP(SimpleTestXCPConfig(target="tcp://127.0.0.1:5555", dumpcap=False))
            except Exception as e:  # noqa: BLE001
                out["done"] = f"cfg:{type(e).__name__}"
                return
            try:
                rc = await cmd.run()
                out["done"] = "ok" if not rc else f"exit{rc}"
            except SystemExit as e:
                out["done"] = f"exit{e.code}"
            except Exception as e:  # noqa: BLE001
                out["done"] = f"exc:{type(e).__name__}"
                out["excmsg"] = repr(e)[:160]
            await asyncio.sleep(0)
            await asyncio.sleep(0)

    with capture(XCP_LOGGER):
        try:
            vloop.run(go(), horizon=600.0)
        except (TimeoutError, vloop.BlockedForever):
            out["done"] = "hang"
    return {
        "kind": "prim",
        "pk": out["pk"],
        "conns": [{"closed": closed[i]} for i in sorted(closed)],
        "accepted": 1 if lst.wires else 0,
        "done": out["done"],
        "excmsg": out.get("excmsg", ""),
        "origin": case.get("origin", ""),
    }


# ------------------------------------------------------------------ discover xcp tcp|udp: in-memory network
PORT_ANSWER = {
    "xcp": bytes([8, 0, 0, 0, 0xFF, 0x15, 0xC0, 8, 8, 0, 1, 1]),
    "xcp_min": bytes([1, 0, 0, 0, 0xFF]),
    "err": bytes([2, 0, 0, 0, 0xFE, 0x20]),
    "other": b"HTTP/1.1 400 Bad Request\r\n",
    "ff4": bytes([0xFF, 0xFF, 0xFF, 0xFF]),  # four bytes only: a header, no packet
    "short": bytes([0xFF, 0x00]),
    "short1": bytes([0xFF]),
    "hdr": bytes([0, 0, 0, 0]),
}


class _Port:
    def __init__(self, port: int, cls: str) -> None:
        self.port, self.cls = port, cls
        self.rx: list[bytes] = []
        self.alive = 1
        self.answered = 0
        self.answer = b""
        self.opened = 0
        self.closed = 0


class FakeNet:
    """Stands for the name `socket` inside gallia.commands.discover.find_xcp."""

    AF_INET, SOCK_STREAM, SOCK_DGRAM = 2, 1, 2
    IPPROTO_IP, IP_MULTICAST_IF, IP_MULTICAST_TTL = 0, 32, 33
    timeout = TimeoutError
    error = OSError

    def __init__(self, ports: list[tuple[int, str]], udp: bool, mutant: str | None = None) -> None:
        self.ports = {p: _Port(p, c) for p, c in ports}
        self.udp = udp
        self.mutant = mutant
        self.sockets = 0

    @staticmethod
    def inet_aton(a: str) -> bytes:
        return bytes(int(x) for x in a.split("."))

    def socket(self, family: int = 2, type: int = 1, proto: int = 0) -> "FakeSocket":  # noqa: A002
        self.sockets += 1
        return FakeSocket(self, type)

    def reply_of(self, p: _Port, data: bytes) -> bytes | None:
        """What the peer at this port answers to one message."""
        if p.cls in ("silent", "unbound", "filtered", "closed", "eof"):
            return None
        first = len(p.rx) == 1
        if p.cls in ("xcp", "xcp_min"):
            if first:
                return PORT_ANSWER[p.cls]
            return bytes([1, 0, 1, 0, 0xFF])  # positive answer to whatever follows (DISCONNECT)
        if p.cls == "other":
            return PORT_ANSWER["other"] if first else None
        return PORT_ANSWER[p.cls] if first else None


class FakeSocket:
    def __init__(self, net: FakeNet, kind: int) -> None:
        self.net, self.kind = net, kind
        self.peer: _Port | None = None
        self.queue: list[bytes] = []
        self.closed = False

    def settimeout(self, t: float | None) -> None:
        pass

    def setsockopt(self, *a: Any) -> None:
        pass

    def getsockname(self) -> tuple[str, int]:
        return ("127.0.0.1", 40000)

    def connect(self, addr: tuple[str, int]) -> None:
        if self.kind == FakeNet.SOCK_DGRAM:
            return
        p = self.net.ports.get(addr[1])
        if p is None or p.cls == "closed":
            raise ConnectionRefusedError(111, "Connection refused")
        if p.cls == "filtered":
            raise TimeoutError("timed out")
        p.opened += 1
        self.peer = p

    def _deliver(self, p: _Port, data: bytes) -> None:
        p.rx.append(bytes(data))
        r = self.net.reply_of(p, data)
        if r is not None:
            self.queue.append(r)

    def send(self, data: bytes) -> int:
        if self.closed:
            raise OSError(9, "Bad file descriptor")
        p = self.peer
        if p is None:
            raise OSError(107, "Transport endpoint is not connected")
        if p.cls == "eof":
            if p.alive == 0:
                raise BrokenPipeError(32, "Broken pipe")
            p.alive = 0  # the peer has closed: the first send still succeeds, later ones fail
            p.rx.append(bytes(data))
            return len(data)
        self._deliver(p, data)
        return len(data)

    def sendto(self, data: bytes, addr: tuple[str, int]) -> int:
        if self.kind == FakeNet.SOCK_STREAM:
            return self.send(data)  # address ignored on a connected stream socket (Linux)
        if self.closed:
            raise OSError(9, "Bad file descriptor")
        p = self.net.ports.get(addr[1]) if addr[0] == "127.0.0.1" else None  # multicast discovery: nobody answers
        if p is not None:
            self.peer = p
            self._deliver(p, data)
        return len(data)

    def recv(self, n: int) -> bytes:
        if self.closed:
            raise OSError(9, "Bad file descriptor")
        if self.queue:
            data = self.queue.pop(0)
            p = self.peer
            if p is not None and not p.answered:
                p.answered, p.answer = 1, data
            if self.net.mutant == "fake-net-delivers-other-bytes" and len(data) > 4:
                return data[:4] + bytes([data[4] ^ 1]) + data[5:]
            return data[:n]
        if self.kind == FakeNet.SOCK_STREAM and self.peer is not None and self.peer.cls == "eof":
            return b""
        raise TimeoutError("timed out")

    def recvfrom(self, n: int) -> tuple[bytes, tuple[str, int]]:
        return self.recv(n), ("127.0.0.1", self.peer.port if self.peer else 0)

    def close(self) -> None:
        if not self.closed:
            self.closed = True
            if self.peer is not None:
                self.peer.closed += 1


_RE_SLAVE = re.compile(r"XCP Slave on (TCP|UDP) port (\d+)", re.I)
_RE_FIN = re.compile(r"Found (\d+) XCP endpoints via (\w+)", re.I)


def run_find(case: dict[str, Any], mutant: str | None = None) -> dict[str, Any]:
    import gallia.commands.discover.find_xcp as mod

    udp = bool(case["udp"])
    ports = [(int(p), str(c)) for p, c in case["ports"]]
    net = FakeNet(ports, udp, mutant)
    out: dict[str, Any] = {"done": "?"}
    spec = ",".join(str(p) for p, _ in ports)

    async def go() -> None:
        try:
            if udp:
                cmd: Any = mod.UdpFindXCP(mod.UdpFindXCPConfig(xcp_ip="127.0.0.1", udp_ports=spec))
            else:
                cmd = mod.TcpFindXCP(mod.TcpFindXCPConfig(xcp_ip="127.0.0.1", tcp_ports=spec))
        except Exception as e:  # noqa: BLE001
            out["done"] = f"cfg:{type(e).__name__}"
            return
        try:
            rc = await cmd.run()
            out["done"] = "ok" if not rc else f"exit{rc}"
        except SystemExit as e:
            out["done"] = f"exit{e.code}"
        except Exception as e:  # noqa: BLE001
            out["done"] = f"exc:{type(e).__name__}"
            out["excmsg"] = repr(e)[:160]

    real = mod.socket
    mod.socket = net  # type: ignore[assignment]
    try:
        with capture(FIND_LOGGER) as cap:
            try:
                vloop.run(go(), horizon=600.0)
            except (TimeoutError, vloop.BlockedForever):
                out["done"] = "hang"
    finally:
        mod.socket = real  # type: ignore[assignment]
    reported: list[int] = []
    finished = -1
    results = []
    for r in cap.records:
        if not _is_result(r):
            continue
        msg = r.getMessage()
        results.append(msg[:100])
        m = _RE_SLAVE.search(msg)
        if m:
            reported.append(int(m.group(2)))
        m = _RE_FIN.search(msg)
        if m and m.group(2).lower() in ("tcp", "udp"):
            finished = int(m.group(1))
    prs = []
    for p, c in ports:
        x = net.ports[p]
        prs.append({"port": p, "cls": c, "open": 0 if (not udp and c in ("closed", "filtered")) else 1,
                    "alive": x.alive, "rx": [list(f) for f in x.rx], "answered": x.answered,
                    "answer": list(x.answer)})
    return {"kind": "find", "udp": 1 if udp else 0, "ports": prs, "reported": reported, "finished": finished,
            "done": out["done"], "excmsg": out.get("excmsg", ""), "results": results[:12],
            "origin": case.get("origin", "")}


def eth(pkt: bytes, ctr: int = 0) -> bytes:
    return struct.pack("<HH", len(pkt), ctr) + pkt


def run_case(case: dict[str, Any], mutant: str | None = None) -> dict[str, Any]:
    k = case["kind"]
    if k == "sess":
        return run_session(case, mutant)
    if k == "prim":
        return run_prim(case, mutant)
    return run_find(case, mutant)
