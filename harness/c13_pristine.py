"""Request classification in a pristine interpreter (C13 / C14 ground truth).

stdin: JSON {"pdus": [hex, ...]}  (classified in the given order)      stdout: JSON [0/1, ...]
1 = gallia's request codec parses the PDU into a typed request (not a RawRequest).

The harness process has parsed thousands of other requests before it classifies a PDU; a verdict taken there
would inherit whatever the code under test remembered from them.  This process has parsed nothing else, and the
caller runs it twice with opposite orders: a classification that depends on what was parsed before shows up as a
disagreement between the two.
"""
import json
import sys


def main() -> int:
    from gallia.services.uds.core import service

    job = json.load(sys.stdin)
    out = []
    for h in job["pdus"]:
        try:
            out.append(0 if isinstance(service.UDSRequest.parse_dynamic(bytes.fromhex(h)), service.RawRequest) else 1)
        except Exception:  # noqa: BLE001
            out.append(0)
    json.dump(out, sys.stdout)
    return 0


if __name__ == "__main__":
    sys.exit(main())
