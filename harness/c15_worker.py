"""C15 worker process (python -m harness.c15_worker <mode> <job.json> <out.json>).

modes
  ecu     serve gallia's RandomUDSServer on the unix socket named in the job (until killed)
  inproc  run every case of the job one after the other: asyncio.run(cmd.entry_point())
          in this process, observe the final state from outside, clean up.  A case with a
          "stock" scenario runs one of gallia's own commands instead (stock_case): a recorded
          run first, then `script rerun` on it / `discover doip`; two observations, one for the
          stock command's own run and one for the command it ran again
  cli     run ONE case exactly like gallia's CLI does
              sys.exit(asyncio.run(get_command(config).entry_point()))
          observe when asyncio.run() has ended, write the observation, then leave the
          process the way the CLI would (sys.exit(rc) / re-raise what escaped) so that
          the parent sees the real process exit status.  CtrlC cases: the test command
          reports through a FIFO that it is at the phase, the parent delivers a real SIGINT.

Contended lock file (contended_case): a separate process holds the lock file of the run (flock AND a POSIX record
lock) when entry_point() starts, so that the run has to wait for it.  Either the holder lets go after a while and the
run goes on as the case says (option "lockheld": seconds), or the run is interrupted WHILE it waits (case point
"LockWait": real SIGINT -- from the parent in cli mode, from a thread of this process otherwise -- or cancellation
of the task that runs entry_point(), option "intr": "cancel").

The observation is a plain measurement of files / flock / sqlite rows / hook output;
nothing in here judges the property (TLC does, see spec/Trace_RunLifecycle.tla).
"""

from __future__ import annotations

import asyncio
import fcntl
import importlib
import json
import logging
import os
import signal
import sqlite3
import subprocess
import sys
import threading
import time
from datetime import datetime
from pathlib import Path
from typing import Any

HOOK_SH = r"""#!/bin/sh
# $1 = output file, $2 = exit status of this hook
{
  printf '%s\n' "BEGIN"
  printf '%s\n' "HOOK=${GALLIA_HOOK-<unset>}"
  printf '%s\n' "EXIT=${GALLIA_EXIT_CODE-<unset>}"
  printf '%s\n' "ART=${GALLIA_ARTIFACTS_DIR-<unset>}"
  printf '%s\n' "META=${GALLIA_META-<unset>}"
  printf '%s\n' "END"
} >> "$1"
exit "$2"
"""


class Capture(logging.Handler):
    def __init__(self) -> None:
        super().__init__(level=1)
        self.records: list[tuple[int, str]] = []
        self.times: list[float] = []  # CLOCK_MONOTONIC of records[i]

    def emit(self, record: logging.LogRecord) -> None:
        self.times.append(time.monotonic())
        try:
            self.records.append((record.levelno, record.getMessage()))
        except Exception:  # noqa: BLE001
            self.records.append((record.levelno, str(record.msg)))

    def clear(self) -> None:
        self.records.clear()
        self.times.clear()


def setup_logging() -> Capture:
    # the CLI's setup_logging() sets level 1 on the logger it takes over; the console
    # handler is replaced by an in-memory one (stdout/stderr stay quiet)
    lg = logging.getLogger("gallia")
    lg.setLevel(1)
    cap = Capture()
    lg.addHandler(cap)
    logging.getLogger("asyncio").addHandler(logging.NullHandler())
    logging.getLogger("asyncio").propagate = False
    logging.getLogger("aiosqlite").addHandler(logging.NullHandler())
    logging.getLogger("aiosqlite").propagate = False
    return cap


# --------------------------------------------------------------------------- case -> config
def build(case: dict[str, Any], d: Path, job: dict[str, Any]) -> Any:
    from harness import c15_cmds

    c = case["c"]
    d.mkdir(parents=True, exist_ok=True)
    fail_pre = c["point"] == "PreHook" and c["how"] == "HookFails"
    fail_post = c["point"] == "PostHook" and c["how"] == "HookFails"
    db = None
    if c["db"]:
        if c["point"] == "DbOpen" and c["how"] == "DbFails":
            flavour = case.get("dbfail", "blocked")
            if flavour == "not-sqlite":
                # the file can be opened, the first statement fails (the sqlite connection object exists)
                (d / "db").mkdir(parents=True, exist_ok=True)
                db = d / "db" / "db.sqlite"
                db.write_bytes(b"this is not a sqlite database\n" * 40)
            elif flavour == "other-version":
                # a database written by another schema version: connect() fails in check_version()
                import sqlite3
                (d / "db").mkdir(parents=True, exist_ok=True)
                db = d / "db" / "db.sqlite"
                con = sqlite3.connect(db)
                con.execute("CREATE TABLE version (schema text unique, version text)")
                con.execute("INSERT INTO version VALUES('main', '1.0')")
                con.commit()
                con.close()
            else:
                (d / "blocker").write_text("a regular file where the database directory should be\n")
                db = d / "blocker" / "db.sqlite"
        else:
            db = d / "db" / "db.sqlite"
    inj: dict[str, Any] = {}
    if c["how"] != "Return" and c["point"] != "LockWait":  # (an interrupted waiter: nothing to do for the command)
        inj = {"point": c["point"], "how": c["how"], "n": c["n"], "where": c["where"]}
        if c["how"] == "CtrlC":
            inj["sync"] = case["sync"]
        if case.get("flavour"):
            inj["flavour"] = case["flavour"]
    if case.get("dbglitch"):
        inj = dict(inj or {"point": "-", "how": "Return", "n": 0, "where": "pre"}, pings=8)
    if case.get("nested") and c["kind"] == "Script":
        inj = dict(inj or {"point": "-", "how": "Return", "n": 0, "where": "pre"}, nested=str(d / "nart"))
    kw: dict[str, Any] = dict(
        artifacts_base=(d / "art") if c["art"] else None,
        db=db,
        lock_file=(d / "lock") if c["lock"] else None,
        hooks=bool(c["hooks"]),
        pre_hook=f"/bin/sh {job['hook']} {d / 'hook.log'} {1 if fail_pre else 0}",
        post_hook=f"/bin/sh {job['hook']} {d / 'hook.log'} {1 if fail_post else 0}",
        inject=json.dumps(inj, sort_keys=True) if inj else "",
    )
    if c["point"] == "DbClose" and c["how"] == "CtrlC":
        arm_ctrl_c_in_db_close(case["sync"])
        kw["inject"] = ""
    if c["point"] == "PreHook" and c["how"] == "CtrlC":
        # Ctrl-C while the pre-hook is running: the hook does its normal work, tells the parent, then lingers
        kw["pre_hook"] = f"/bin/sh {job['hook']} {d / 'hook.log'} 0 && echo ready > {case['sync']} && sleep 1.5"
        kw["inject"] = ""
    if case.get("mutant") == "post-hook-removes-meta":  # binding self-test of the harness (see c15.selftest)
        kw["post_hook"] = 'rm -f "$GALLIA_ARTIFACTS_DIR/META.json"'
    cls = c15_cmds.CLASSES[c["kind"]]
    if c["kind"] != "Script":
        kw.update(target=f"unix-lines://{job['sock']}", dumpcap=False)
    if c["kind"] == "UDSScanner":
        kw.update(ping=bool(case.get("ping", False)))
    return cls(cls.CONFIG_TYPE(**kw))


# --------------------------------------------------------------------------- observation
def probe_lock(path: Path) -> bool:
    if not path.exists():
        return True
    fd = os.open(path, os.O_RDONLY)
    try:
        fcntl.flock(fd, fcntl.LOCK_EX | fcntl.LOCK_NB)
        fcntl.flock(fd, fcntl.LOCK_UN)
        return True
    except BlockingIOError:
        return False
    finally:
        os.close(fd)


def read_log(path: Path) -> dict[str, Any]:
    import zstandard

    from gallia.log import PenlogReader
    from harness.c15_cmds import MARKER

    out: dict[str, Any] = {"present": path.exists(), "complete": False, "parsedAll": False, "markers": [],
                           "lines": 0, "parsed": 0}
    if not out["present"]:
        return out
    raw = path.read_bytes()
    data = b""
    complete = len(raw) > 0
    rest = raw
    try:
        while rest:
            o = zstandard.ZstdDecompressor().decompressobj()
            data += o.decompress(rest)
            if not o.eof:
                complete = False
                break
            rest = o.unused_data
    except zstandard.ZstdError:
        complete = False
    out["complete"] = complete
    if not complete:
        return out  # an unterminated frame is not read at all
    out["lines"] = len(data.splitlines())
    try:
        with PenlogReader(path) as r:
            for rec in r.records():
                out["parsed"] += 1
                if isinstance(rec.data, str) and rec.data.startswith(MARKER):
                    out["markers"].append(rec.data[len(MARKER):].strip())
    except Exception as e:  # noqa: BLE001
        out["error"] = repr(e)
    out["parsedAll"] = out["lines"] > 0 and out["parsed"] == out["lines"] and "error" not in out
    return out


def read_hooks(path: Path) -> list[dict[str, str]]:
    if not path.exists():
        return []
    entries: list[dict[str, str]] = []
    cur: dict[str, str] | None = None
    for ln in path.read_text().splitlines():
        if ln == "BEGIN":
            cur = {}
        elif ln == "END":
            if cur is not None:
                entries.append(cur)
            cur = None
        elif cur is not None and "META" in cur:
            cur["META"] += "\n" + ln  # META is printed last; its value (JSON) may span several lines
        elif cur is not None and "=" in ln:
            k, v = ln.split("=", 1)
            cur[k] = v
    return entries


def _int(x: Any) -> int:
    try:
        v = int(x)
    except (TypeError, ValueError):
        return -1
    return v if 0 <= v <= 255 else -1


def same_config(a: Any, b: Any) -> bool:
    """Field-wise equality of two config objects (TargetURI has no __eq__: compare its text)."""
    if type(a) is not type(b) or a.model_dump_json() != b.model_dump_json():
        return False
    for k in type(a).model_fields:
        x, y = getattr(a, k), getattr(b, k)
        if x != y and not (hasattr(x, "raw") and getattr(x, "raw") == getattr(y, "raw", None)):
            return False
    return True


def observe(case: dict[str, Any], d: Path, cmd: Any, status: tuple[str, Any], cap: Capture, *,
            run_dirs: list[Path] | None = None, script: str | None = None, min_row: int = 0,
            lock: Path | None = None, hooklog: Path | None = None, lock_free: bool | None = None) -> dict[str, Any]:
    """The final state of ONE run, read back from outside.  By default the run owns the scratch directory `d`; runs
    that share it (and the database) with other runs name their own artifacts directories (`run_dirs`), their
    run_meta row (`script`: the last row of that command with id > `min_row`), lock file and hook log."""
    from harness import c15_cmds

    c = case["c"]
    kind, val = status
    if kind == "return":
        esc, ex = "", _int(val)
    elif kind == "SystemExit":
        esc, ex = "", (_int(val) if val is not None else 0)
    elif kind in ("KeyboardInterrupt", "CancelledError"):
        esc, ex = "Interrupt", 128 + signal.SIGINT
    else:
        esc, ex = "Error", 1  # what an uncaught exception makes the interpreter exit with
    o: dict[str, Any] = {"exit": ex, "escaped": esc}
    # META.json
    if run_dirs is None:
        metas = sorted((d / "art").glob("*/run-*/META.json")) if c["art"] else []
    else:
        metas = [r / "META.json" for r in sorted(run_dirs) if (r / "META.json").exists()] if c["art"] else []
    meta = {"present": bool(metas), "exit": -1, "timesOk": False, "configOk": False}
    raw_meta = None
    if metas:
        try:
            raw_meta = json.loads(metas[-1].read_text())
            meta["exit"] = _int(raw_meta.get("exit_code"))
            try:
                t0 = datetime.fromisoformat(raw_meta["start_time"])
                t1 = datetime.fromisoformat(raw_meta["end_time"])
                meta["timesOk"] = t0 <= t1
            except (KeyError, ValueError, TypeError):
                meta["timesOk"] = False
            try:  # what gallia's rerun does
                parts = raw_meta["command"].split(".")
                cls = getattr(importlib.import_module(".".join(parts[:-1])), parts[-1])
                again = cls.CONFIG_TYPE(**raw_meta["config"])
                meta["configOk"] = cls is type(cmd) and same_config(again, cmd.config)
            except Exception:  # noqa: BLE001
                meta["configOk"] = False
        except (OSError, ValueError):
            meta["present"] = False
    o["meta"] = meta
    # an artifacts directory of this run exists at all
    if run_dirs is None:
        rds = [r for r in (d / "art").glob("*/run-*") if r.is_dir()] if c["art"] else []
    else:
        rds = [r for r in run_dirs if r.is_dir()] if c["art"] else []
    o["rundir"] = bool(rds)
    # log.json.zst
    if run_dirs is None:
        logs = sorted((d / "art").glob("*/run-*/log.json.zst")) if c["art"] else []
    else:
        logs = [r / "log.json.zst" for r in sorted(run_dirs) if (r / "log.json.zst").exists()] if c["art"] else []
    lg = read_log(logs[-1]) if logs else {"present": False, "complete": False, "parsedAll": False, "markers": []}
    o["log"] = {k: lg[k] for k in ("present", "complete", "parsedAll", "markers")}
    # flock
    if lock_free is not None:  # measured around the release of the process that held the lock (contended_case)
        o["lockFree"] = lock_free
    else:
        o["lockFree"] = probe_lock(lock if lock is not None else d / "lock") if c["lock"] else True
    # run_meta row
    db = {"present": False, "hasEnd": False, "exit": -1}
    dbp = cmd.config.db
    nrows = 0
    if dbp is not None and Path(dbp).is_file():
        try:
            con = sqlite3.connect(f"file:{dbp}?mode=ro", uri=True, timeout=5)
            try:
                if script is None:
                    rows = con.execute("SELECT start_time, end_time, exit_code FROM run_meta ORDER BY id").fetchall()
                else:
                    rows = con.execute("SELECT start_time, end_time, exit_code FROM run_meta WHERE script = ? "
                                       "AND id > ? ORDER BY id", (script, min_row)).fetchall()
            finally:
                con.close()
            nrows = len(rows)
            if rows:
                st, en, ec = rows[-1]
                db = {"present": True, "hasEnd": en is not None and (st is None or st <= en),
                      "exit": _int(ec) if ec is not None else -1}
        except sqlite3.Error as e:
            o.setdefault("_raw", {})["db_error"] = repr(e)
    o["db"] = db
    # hooks
    hk = read_hooks(hooklog if hooklog is not None else d / "hook.log")
    pre = [h for h in hk if h.get("HOOK") == "pre"]
    post = [h for h in hk if h.get("HOOK") == "post"]
    o["pre"] = min(len(pre), 9)
    pexit, pmeta = -1, -1
    if post:
        pexit = _int(post[-1].get("EXIT"))
        try:
            pmeta = _int(json.loads(post[-1].get("META", "")).get("exit_code"))
        except (ValueError, AttributeError):
            pmeta = -1
    o["post"] = {"ran": min(len(post), 9), "exit": pexit, "metaExit": pmeta}
    o["phases"] = list(c15_cmds.PHASES)
    o["reported"] = any(lv >= logging.WARNING and "hook" in msg.lower() for lv, msg in cap.records)
    raw = o.setdefault("_raw", {})
    raw.update(status=[kind, repr(val)], db_rows=nrows, log_lines=lg.get("lines"), log_error=lg.get("error"),
               hooks_other=len(hk) - len(pre) - len(post), n_records=len(cap.records),
               hook_art_ok=all((h.get("ART", "") != "None") == bool(c["art"]) for h in hk), run_dirs=len(rds))
    return o


def cleanup(cmd: Any) -> None:
    """Undo what a run that escaped entry_point() left behind in THIS process."""
    from gallia.log import remove_zst_log_handler

    while cmd.log_file_handlers:
        try:
            remove_zst_log_handler("gallia", cmd.log_file_handlers.pop())
        except Exception:  # noqa: BLE001
            pass
    fd = getattr(cmd, "_lock_file_fd", None)
    if fd is not None:
        try:
            os.close(fd)
        except OSError:
            pass


def arm_ctrl_c_in_db_close(sync: str) -> None:
    """Ctrl-C while the database is being closed (DBHandler.disconnect() waiting for the writer queue, "Syncing
    database..."): the wait tells the parent it has been reached and lasts a moment (CLI child only)."""
    from gallia.db.handler import DBHandler

    orig = DBHandler.disconnect

    async def disconnect(self: Any) -> None:
        q = getattr(self, "_execute_queue", None)
        if q is not None:
            real_join = q.join

            async def join() -> None:
                fd = os.open(sync, os.O_WRONLY)
                os.write(fd, b"ready\n")
                os.close(fd)
                await asyncio.sleep(3)  # the SIGINT normally ends this wait
                await real_join()

            q.join = join
        await orig(self)

    DBHandler.disconnect = disconnect  # type: ignore[method-assign]


def arm_db_glitch(k: int) -> None:
    """The run's messages are written by the database writer task; attempts 2 .. 1+k of its INSERTs into
    scan_result fail with sqlite's "database or disk is full" (a transient condition: the next attempt works)."""
    import aiosqlite
    from gallia.db.handler import DBHandler

    orig = DBHandler.connect
    seen = {"n": 0}

    async def connect(self: Any) -> None:
        await orig(self)
        conn = self.connection
        real_execute = conn.execute

        async def execute(sql: str, *a: Any, **kw: Any) -> Any:
            if "scan_result" in sql and "INSERT" in sql.upper():
                seen["n"] += 1
                if 2 <= seen["n"] <= 1 + k:
                    e = aiosqlite.OperationalError("database or disk is full")
                    e.sqlite_errorcode = 13  # type: ignore[attr-defined]
                    e.sqlite_errorname = "SQLITE_FULL"  # type: ignore[attr-defined]
                    raise e
            return await real_execute(sql, *a, **kw)

        conn.execute = execute  # type: ignore[method-assign]

    DBHandler.connect = connect  # type: ignore[method-assign]


WATCHDOG = {"fired": False}


def arm_hang_watchdog(seconds: float) -> None:
    """A run that does not end by itself is interrupted like a user would do it (Ctrl-C) so that it can still be
    observed; the case then shows up with the exit code of an interrupted run."""
    import threading

    def fire() -> None:
        WATCHDOG["fired"] = True
        os.kill(os.getpid(), signal.SIGINT)

    t = threading.Timer(seconds, fire)
    t.daemon = True
    t.start()
    WATCHDOG["timer"] = t  # type: ignore[assignment]


def run_entry_point(cmd: Any) -> tuple[str, Any]:
    try:
        return ("return", asyncio.run(cmd.entry_point()))
    except SystemExit as e:
        return ("SystemExit", e.code)
    except BaseException as e:  # noqa: BLE001
        return (type(e).__name__, e)


# --------------------------------------------------------------------------- a lock file held by somebody else
HOLDER_SRC = r"""
import fcntl, os, sys
fd = os.open(sys.argv[1], os.O_RDWR | os.O_CREAT, 0o644)
fcntl.flock(fd, fcntl.LOCK_EX)       # what gallia's FlockMixin contends with
fcntl.lockf(fd, fcntl.LOCK_EX)       # ... and an implementation with POSIX record locks would
sys.stdout.write("held\n")
sys.stdout.flush()
sys.stdin.read()                     # until the driver closes the pipe (or is gone)
"""
SETTLE_S = 1.0     # no sign of waiting in the log after this long: the run counts as waiting (it cannot have the lock)
FALLBACK_S = 6.0   # an interrupted waiter that has not ended after this long gets the lock (and is not judged)


class Holder:
    """Another process that holds the lock file (the `other run`)."""

    def __init__(self, path: Path) -> None:
        self.path = path
        self.p = subprocess.Popen([sys.executable, "-S", "-E", "-c", HOLDER_SRC, str(path)], stdin=subprocess.PIPE,
                                  stdout=subprocess.PIPE, stderr=subprocess.DEVNULL)
        assert self.p.stdout is not None
        if self.p.stdout.readline().strip() != b"held":
            self.p.kill()
            raise SystemExit(f"lock holder process did not get {path}")
        self.ino = os.stat(path).st_ino
        self.mtx = threading.Lock()
        self.released = False

    def intact(self) -> bool:
        """The holder still has its lock: alive, the path still names the file it locked, the file is locked."""
        try:
            same = os.stat(self.path).st_ino == self.ino
        except OSError:
            same = False
        return (not self.released) and self.p.poll() is None and same and not probe_lock(self.path)

    def release(self) -> None:
        with self.mtx:
            if self.released:
                return
            self.released = True
            try:
                assert self.p.stdin is not None
                self.p.stdin.close()
                self.p.wait(timeout=20)
            except Exception:  # noqa: BLE001
                self.p.kill()
                self.p.wait()
            assert self.p.stdout is not None
            self.p.stdout.close()


def contended_case(case: dict[str, Any], d: Path, cmd: Any, cap: Capture) -> tuple[dict[str, Any], tuple[str, Any]]:
    """The run's lock file is held by another process when entry_point() starts.

    A watcher thread decides when the run is `waiting`: a log record that mentions waiting has been seen (only a
    hint that saves time), or SETTLE_S have passed -- the run cannot have got the lock either way.  `wait_s` later the
    environment acts: the holder releases (the run goes on as the case says), or the run is interrupted (case point
    LockWait); the holder of an interrupted waiter keeps the lock until the run has ended."""
    from harness.c15_cmds import MARKER

    c = case["c"]
    waiter = c["point"] == "LockWait"
    wait_s = float(case.get("lockheld") or 0.2)
    how = "fifo" if case.get("sync") and waiter else (case.get("intr") or "sigint")
    holder = Holder(d / "lock")
    st: dict[str, Any] = {"done": False, "acted": None, "hint": False, "fallback": False}
    box: dict[str, Any] = {}
    mtx = threading.Lock()

    def fifo(msg: bytes) -> None:
        fd = os.open(case["sync"], os.O_WRONLY)
        os.write(fd, msg)
        os.close(fd)

    def watch() -> None:
        t0 = time.monotonic()
        hint_at = None
        while True:
            now = time.monotonic()
            if st["done"]:
                return
            if hint_at is None and any("wait" in m.lower() for _, m in list(cap.records)):
                hint_at = now
            if (hint_at is not None and now - hint_at >= wait_s) or now - t0 >= SETTLE_S + wait_s:
                break
            time.sleep(0.005)
        st["hint"] = hint_at is not None
        if not waiter:
            st["acted"] = time.monotonic()
            holder.release()
            return
        with mtx:
            if st["done"]:
                return
            st["acted"] = time.monotonic()
            if how == "fifo":
                fifo(b"ready\n")        # the parent process sends the SIGINT
            elif how == "cancel":
                try:
                    box["loop"].call_soon_threadsafe(box["task"].cancel)
                except (KeyError, RuntimeError):  # the run is over (loop closed): nobody was interrupted
                    st["acted"] = None
                    return
            else:
                os.kill(os.getpid(), signal.SIGINT)
        t1 = time.monotonic()
        while time.monotonic() - t1 < FALLBACK_S:
            if st["done"]:
                return
            time.sleep(0.02)
        st["fallback"] = True
        holder.release()

    async def go() -> Any:
        box["loop"] = asyncio.get_running_loop()
        box["task"] = asyncio.current_task()
        return await cmd.entry_point()

    prev = signal.signal(signal.SIGINT, signal.default_int_handler) if how == "sigint" and waiter else None
    th = threading.Thread(target=watch, daemon=True)
    try:
        th.start()
        try:
            status: tuple[str, Any] = ("return", asyncio.run(go()))
        except SystemExit as e:
            status = ("SystemExit", e.code)
        except BaseException as e:  # noqa: BLE001
            status = (type(e).__name__, e)
        with mtx:
            st["done"] = True
        th.join()
    finally:
        if prev is not None:
            signal.signal(signal.SIGINT, prev)
    lock_free = None
    if waiter:
        if st["acted"] is None:
            if how == "fifo":
                fifo(b"skip\n")   # the run has ended without having waited: no SIGINT, please
        elif not st["fallback"]:
            # the lock belongs to the other run: still in place now, and free once that run lets go
            intact = holder.intact()
            holder.release()
            lock_free = intact and probe_lock(d / "lock")
    holder.release()
    o = observe(case, d, cmd, status, cap, lock_free=lock_free)
    first = next((t for (_, m), t in zip(list(cap.records), list(cap.times)) if m.startswith(MARKER)), None)
    o["_raw"].update(lock_contended=True, wait_hint_seen=st["hint"], wait_s=wait_s, interrupt=how if waiter else None,
                     did_not_wait=waiter and st["acted"] is None, fallback_release=st["fallback"],
                     # (proceeding runs) the first phase of the command was entered after the holder had let go
                     entered_after_release=(None if waiter or first is None or st["acted"] is None
                                            else first >= st["acted"]))
    return o, status


def one_case(case: dict[str, Any], job: dict[str, Any], cap: Capture) -> tuple[dict[str, Any], tuple[str, Any]]:
    from harness import c15_cmds

    d = Path(job["root"]) / f"case-{case['id']}"
    c15_cmds.PHASES.clear()
    cap.clear()
    cmd = build(case, d, job)
    if case["c"]["lock"] and (case["c"]["point"] == "LockWait" or case.get("lockheld")):
        o, status = contended_case(case, d, cmd, cap)
        cleanup(cmd)
        return o, status
    if case.get("dbglitch"):
        arm_db_glitch(int(case["dbglitch"]))
        arm_hang_watchdog(25.0)
    status = run_entry_point(cmd)
    if "timer" in WATCHDOG:
        WATCHDOG["timer"].cancel()  # type: ignore[attr-defined]
    o = observe(case, d, cmd, status, cap)
    if case.get("dbglitch"):
        o.setdefault("_raw", {})["hang_watchdog_fired"] = WATCHDOG["fired"]
        if WATCHDOG["fired"]:
            o["escaped"] = "Hang"  # the run did not end within 25 s and was interrupted from outside
    cleanup(cmd)
    return o, status


# --------------------------------------------------------------------------- stock commands
# Commands of gallia itself that open / use / hand over the database connection of their own run (`script rerun`
# looks the recorded run up through it and runs a second command on the same file; `discover doip` writes its
# results through it), run through their real entry_point().  What the harness adds is measurement only:
#   * how the command's run() ended (returned / sys.exit(n) / raised) -- the statement maps kinds of ending to
#     exit codes, and for a stock command the kind of ending is the command's own business;
#   * what the entry_point() of the re-run command returned (there is no process status for a nested run).
def watch_run(cmd: Any) -> dict[str, Any]:
    end: dict[str, Any] = {}
    orig = cmd.run

    async def run() -> Any:
        try:
            r = await orig()
        except SystemExit as e:
            end.update(how="SystemExit", code=e.code)
            raise
        except BaseException as e:  # noqa: BLE001
            end.update(how=type(e).__name__)
            raise
        end.update(how="return", code=r)
        return r

    cmd.run = run
    return end


def ending_case(c: dict[str, Any], end: dict[str, Any]) -> dict[str, Any]:
    """The case of a stock command's own run: its resources + the way its run() was SEEN to end.  Anything but a
    plain return / sys.exit(0..255) stays "Stock": no exit code is demanded for it (the contract's OTHER branch)."""
    c = dict(c)
    if end.get("how") == "return" and end.get("code") in (0, None):
        c.update(how="Return", n=0)
    elif end.get("how") == "SystemExit" and isinstance(end.get("code"), int) and not isinstance(end.get("code"), bool) \
            and 0 <= end["code"] <= 255:
        c.update(how="SysExit", n=end["code"])
    else:
        c.update(how="Stock", n=0)
    return c


def watch_entry_point(cls: Any) -> tuple[list[tuple[str, Any, Any]], Any]:
    """Record (status kind, value, command object) of every entry_point() of `cls` from now on."""
    seen: list[tuple[str, Any, Any]] = []
    orig = cls.entry_point
    own = "entry_point" in cls.__dict__

    async def entry_point(self: Any) -> Any:
        try:
            rc = await orig(self)
        except SystemExit as e:
            seen.append(("SystemExit", e.code, self))
            raise
        except BaseException as e:  # noqa: BLE001
            seen.append((type(e).__name__, e, self))
            raise
        seen.append(("return", rc, self))
        return rc

    def restore() -> None:
        if own:
            cls.entry_point = orig
        else:
            del cls.entry_point

    cls.entry_point = entry_point
    return seen, restore


def run_dirs_of(cmd: Any) -> set[Path]:
    base = cmd.config.artifacts_base
    return set(Path(base).joinpath(cmd.id).glob("run-*")) if base is not None else set()


def max_row(dbp: Path | None) -> int:
    if dbp is None or not Path(dbp).is_file():
        return 0
    con = sqlite3.connect(f"file:{dbp}?mode=ro", uri=True, timeout=5)
    try:
        return int(con.execute("SELECT coalesce(max(id), 0) FROM run_meta").fetchone()[0])
    finally:
        con.close()


def command_name(cmd: Any) -> str:
    return f"{type(cmd).__module__}.{type(cmd).__name__}"


def base_kw(c: dict[str, Any], d: Path, job: dict[str, Any], tag: str) -> dict[str, Any]:
    return dict(
        artifacts_base=(d / "art") if c["art"] else None,
        db=(d / "db" / "db.sqlite") if c["db"] else None,
        lock_file=(d / f"lock{tag}") if c["lock"] else None,
        hooks=bool(c["hooks"]),
        pre_hook=f"/bin/sh {job['hook']} {d / f'hook{tag}.log'} 0",
        post_hook=f"/bin/sh {job['hook']} {d / f'hook{tag}.log'} 0",
    )


def build_recorded(rec: dict[str, Any], d: Path, job: dict[str, Any]) -> Any:
    """The command of the recorded run: one of the test commands, or a stock primitive against the virtual ECU."""
    if rec.get("prim") == "ping":
        from gallia.commands.primitive.uds.ping import PingPrimitive, PingPrimitiveConfig

        d.mkdir(parents=True, exist_ok=True)
        return PingPrimitive(PingPrimitiveConfig(**base_kw(rec["c"], d, job, ""), target=f"unix-lines://{job['sock']}",
                                                 dumpcap=False, ping=False, count=2, interval=0.0))
    return build({"c": rec["c"]}, d, job)


def stock_case(case: dict[str, Any], job: dict[str, Any], cap: Capture) -> dict[str, Any]:
    from harness import c15_cmds

    sc, c = case["stock"], case["c"]
    d = Path(job["root"]) / f"case-{case['id']}"
    d.mkdir(parents=True, exist_ok=True)
    # a run that does not end is interrupted like a user would do it (a non-interactive parent may have SIGINT ignored)
    prev_handler = signal.signal(signal.SIGINT, signal.default_int_handler)
    arm_hang_watchdog(240.0)
    WATCHDOG["fired"] = False
    nested = None
    try:
        kw = base_kw(c, d, job, "-outer")
        orig_cmd, n0, before, restore, seen = None, 0, set(), None, []
        if sc["cmd"] == "rerun":
            from gallia.commands.script.rerun import Rerunner, RerunnerConfig

            # history: the recorded run (judged by the other families; here it only has to exist)
            c15_cmds.PHASES.clear()
            orig_cmd = build_recorded(sc["rec"], d, job)
            run_entry_point(orig_cmd)
            cleanup(orig_cmd)
            n0 = max_row(orig_cmd.config.db)
            before = run_dirs_of(orig_cmd)
            (d / "hook.log").unlink(missing_ok=True)
            if sc["via"] == "file":
                metas = sorted(r / "META.json" for r in before)
                if not metas or not metas[-1].exists():
                    return {"id": case["id"], "skipped": "the recorded run left no META.json to re-run from"}
                kw["file"] = metas[-1]
            else:
                if n0 < 1:
                    return {"id": case["id"], "skipped": "the recorded run left no run_meta row to re-run from"}
                kw["id"] = n0 if sc["via"] == "id" else n0 + 1000
            cmd = Rerunner(RerunnerConfig(**kw))
            seen, restore = watch_entry_point(type(orig_cmd))
        elif sc["cmd"] == "doip":
            from gallia.commands.discover.doip import DoIPDiscoverer, DoIPDiscovererConfig

            target = ("http://127.0.0.1:1" if sc["target"] == "scheme"
                      else "doip://127.0.0.1:1?activation_type=0x00&src_addr=0x0e00")  # nothing listens on port 1
            cmd = DoIPDiscoverer(DoIPDiscovererConfig(**kw, target=target))
        else:
            raise SystemExit(f"unknown stock command {sc['cmd']}")
        c15_cmds.PHASES.clear()
        cap.clear()
        end = watch_run(cmd)
        try:
            status = run_entry_point(cmd)
        finally:
            if restore is not None:
                restore()
        WATCHDOG["timer"].cancel()  # type: ignore[attr-defined]
        oc = ending_case(c, end)
        o = observe({"c": oc}, d, cmd, status, cap, run_dirs=sorted(run_dirs_of(cmd)), script=command_name(cmd),
                    min_row=n0, lock=d / "lock-outer", hooklog=d / "hook-outer.log")
        # a stock command has no phase side channel: which marker records (of the command it runs) reach its own
        # log is not part of the statement; that every record of its log can be read back is
        o["phases"] = list(o["log"]["markers"])
        o["_raw"].update(ending=[end.get("how"), repr(end.get("code"))], nested_runs=len(seen),
                         hang_watchdog_fired=WATCHDOG["fired"])
        if WATCHDOG["fired"]:
            o["escaped"] = "Hang"
        if orig_cmd is not None and seen:
            # the command that was run again: judged as the run its OWN config describes
            kind, val, ncmd = seen[-1]
            nc = dict(sc["rec"]["c"], art=ncmd.config.artifacts_base is not None, db=ncmd.config.db is not None,
                      lock=ncmd.config.lock_file is not None, hooks=bool(ncmd.config.hooks))
            no = observe({"c": nc}, d, ncmd, (kind, val), cap, run_dirs=sorted(run_dirs_of(ncmd) - before),
                         script=command_name(ncmd), min_row=n0, lock=ncmd.config.lock_file, hooklog=d / "hook.log")
            no["_raw"].update(nested_runs=len(seen))
            nested = {"c": nc, "o": no}
            cleanup(ncmd)
        cleanup(cmd)
    finally:
        if "timer" in WATCHDOG:
            WATCHDOG["timer"].cancel()  # type: ignore[attr-defined]
        if prev_handler is not None:
            signal.signal(signal.SIGINT, prev_handler)
    return {"id": case["id"], "o": o, "c": oc, "nested": nested}


# --------------------------------------------------------------------------- modes
def mode_ecu(job: dict[str, Any]) -> None:
    from gallia.services.uds.server import RandomUDSServer, UnixUDSServerTransport
    from gallia.transports import TargetURI

    logging.disable(logging.CRITICAL)

    async def go() -> None:
        srv = RandomUDSServer(int(job.get("seed", 1)))
        await srv.setup()
        await UnixUDSServerTransport(srv, TargetURI(f"unix-lines://{job['sock']}")).run()

    asyncio.run(go())


def mode_inproc(job: dict[str, Any], outp: str) -> None:
    cap = setup_logging()
    res = []
    for case in job["cases"]:
        t0 = time.monotonic()
        if case.get("stock"):
            r = stock_case(case, job, cap)
            if "o" in r:
                r["o"]["_raw"]["wall_s"] = round(time.monotonic() - t0, 3)
            res.append(r)
            continue
        o, _ = one_case(case, job, cap)
        o["_raw"]["wall_s"] = round(time.monotonic() - t0, 3)
        res.append({"id": case["id"], "o": o})
    Path(outp).write_text(json.dumps(res, default=str))
    # this interpreter's own shutdown is not part of any observation (and a handler the code under
    # test left open could block logging.shutdown())
    sys.stdout.flush()
    os._exit(0)


def mode_cli(job: dict[str, Any], outp: str) -> None:
    # the state an interactive shell starts gallia in (a non-interactive parent may have SIGINT ignored)
    signal.signal(signal.SIGINT, signal.default_int_handler)
    cap = setup_logging()
    case = job["cases"][0]
    o, status = one_case(case, job, cap)
    tmp = Path(outp + ".tmp")
    tmp.write_text(json.dumps([{"id": case["id"], "o": o}], default=str))
    tmp.rename(outp)  # atomically: the parent starts its exit watchdog when the file appears
    sys.stdout.flush()
    kind, val = status
    if kind == "return":
        sys.exit(val)
    if kind == "SystemExit":
        sys.exit(val)
    logging.disable(logging.CRITICAL)
    sys.stderr = open(os.devnull, "w")  # the traceback of what escaped is not needed twice
    # re-raise: the interpreter turns it into its usual status (1; death by SIGINT for KeyboardInterrupt)
    raise val


def main() -> None:
    mode, jobp = sys.argv[1], sys.argv[2]
    job = json.loads(Path(jobp).read_text())
    if mode == "ecu":
        mode_ecu(job)
    elif mode == "inproc":
        mode_inproc(job, sys.argv[3])
    elif mode == "cli":
        mode_cli(job, sys.argv[3])
    else:
        raise SystemExit(f"unknown mode {mode}")


if __name__ == "__main__":
    main()
