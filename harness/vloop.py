"""Deterministic virtual-time asyncio loop.

`time()` is a counter.  When no callback is ready the selector, instead of
blocking, advances the clock to the next timer.  With no timer and no ready
callback the program is blocked forever: `BlockedForever` is raised out of
`run_until_complete` (that is an observation, not a machinery failure).

asyncio's ready queue is FIFO, so for a fixed environment script an execution
is reproducible bit for bit.
"""

from __future__ import annotations

import asyncio
import selectors
from collections.abc import Coroutine
from typing import Any


class BlockedForever(Exception):
    """No ready callback, no timer, no real I/O: nothing can ever happen again."""


class _VSelector(selectors.DefaultSelector):
    def __init__(self) -> None:
        super().__init__()
        self.loop: VirtualLoop | None = None

    def select(self, timeout: float | None = None):  # type: ignore[override]
        ev = super().select(0)
        if ev:
            return ev
        assert self.loop is not None
        if timeout is None:
            if self.loop.real_io:
                return super().select(self.loop.real_io_grace)
            raise BlockedForever()
        if timeout > 0:
            self.loop.vtime += timeout
        return []


class VirtualLoop(asyncio.SelectorEventLoop):
    def __init__(self) -> None:
        sel = _VSelector()
        super().__init__(sel)
        sel.loop = self
        self.vtime = 0.0
        self.real_io = False
        self.real_io_grace = 0.05
        self._clock_resolution = 1e-9

    def time(self) -> float:  # type: ignore[override]
        return self.vtime

    def ms(self) -> int:
        return int(round(self.vtime * 1000))


class Stuck(BaseException):
    """The code under test kept the event loop busy without ever suspending (e.g. `while True: await read()` on a
    stream at EOF, where read() returns at once): no virtual time passes, no horizon can fire.  Raised from a SIGALRM
    handler inside whatever frame is executing once `real_limit` seconds of REAL time are used up; a BaseException so
    that `except Exception` in the code under test does not swallow it."""


def run(coro: Coroutine[Any, Any, Any], *, horizon: float | None = None, real_limit: float | None = 900.0) -> Any:
    """Run `coro` to completion on a fresh virtual loop.

    `horizon` (virtual seconds) bounds the execution: reaching it raises
    TimeoutError from the outer wait (used to tell 'still pending after N
    virtual seconds' apart from 'blocked with no timer at all').
    `real_limit` (real seconds, main thread only, only if nobody else uses SIGALRM): watchdog against code that never
    yields, see `Stuck`."""
    import signal
    import threading

    armed = False
    if (real_limit and threading.current_thread() is threading.main_thread()
            and signal.getsignal(signal.SIGALRM) in (signal.SIG_DFL, None)
            and signal.getitimer(signal.ITIMER_REAL)[0] == 0.0):
        def _alarm(_signum: int, _frame: Any) -> None:
            raise Stuck(f"event loop busy for {real_limit} s of real time without suspending")

        signal.signal(signal.SIGALRM, _alarm)
        signal.setitimer(signal.ITIMER_REAL, real_limit)
        armed = True

    def disarm() -> None:
        nonlocal armed
        if armed:
            signal.setitimer(signal.ITIMER_REAL, 0)
            signal.signal(signal.SIGALRM, signal.SIG_DFL)
            armed = False

    loop = VirtualLoop()
    try:
        asyncio.set_event_loop(loop)
        if horizon is not None:

            async def bounded() -> Any:
                return await asyncio.wait_for(coro, horizon)

            return loop.run_until_complete(bounded())
        return loop.run_until_complete(coro)
    finally:
        disarm()
        try:
            _cancel_all(loop)
        finally:
            asyncio.set_event_loop(None)
            loop.close()


def _cancel_all(loop: asyncio.AbstractEventLoop) -> None:
    pending = [t for t in asyncio.all_tasks(loop) if not t.done()]
    for t in pending:
        t.cancel()
    if pending:
        try:
            loop.run_until_complete(asyncio.gather(*pending, return_exceptions=True))
        except BlockedForever:
            pass
        except BaseException:
            pass


def now_ms() -> int:
    loop = asyncio.get_running_loop()
    return int(round(loop.time() * 1000))
