"""C10 — in-memory ECU stack for the real service / identifier scanners.

Which stack: the FULL tcp-lines stack.  The scanner is constructed from a real
config object and run through `AsyncScript.run()` (setup -> main -> teardown), so
`load_transport`, `TCPLinesTransport.connect`, `load_ecu`, `ECU`, `UDSClient`,
the lines codec, `TCPUDSServerTransport.handle_client` and a `UDSServer`
subclass are all real gallia code.  Only `asyncio.open_connection` is replaced
(harness.streams.patched_connections) by an in-memory pipe whose server end is
handed to the real `handle_client`.

ECU realisations (all subclasses of gallia's UDSServer):
  * ModelServer      scripted service model: per (session, sid) a behaviour class,
                     answers depend on (ground-truth session, sid, payload length)
  * IdentServer      scripted identifier model: positive / abnormal / silent
                     identifier sets per (session, sub-function)
  * RecRandomServer  gallia's RandomUDSServer(seed), recording only
DiagnosticSessionControl, the session read (22 F1 86) and TesterPresent of the
scripted servers go through gallia's default response chain (UDSServer.respond).

Every request is recorded at the ECU as (ground-truth session BEFORE the request,
request bytes, response bytes | None), in the order the ECU saw them.
"""

from __future__ import annotations

import asyncio
import contextlib
import logging
from collections.abc import Iterator
from typing import Any

from gallia.services.uds.core import service
from gallia.services.uds.core.constants import UDSIsoServices
from gallia.services.uds.helpers import parse_pdu
from gallia.services.uds.server import RandomUDSServer, TCPUDSServerTransport, UDSServer
from gallia.transports import TargetURI

from harness.streams import Listener, Wire, patched_connections

TARGET = "tcp-lines://127.0.0.1:20162"

# response class codes shared with the TLA+ contract (ServiceScanContract / IdentScanContract)
SNS, SNSIAS, LEN, NONE, POS, NEG = 0, 1, 2, 3, 4, 5
CODE_NAMES = ["SNS", "SNSIAS", "LEN", "NONE", "POS", "NEG"]

NRC_SNS, NRC_SNSIAS, NRC_LEN = 0x11, 0x7F, 0x13
# "something else": negative response codes that are neither not-supported nor length errors
# (no busyRepeatRequest / responsePending: those are resolved by the UDS client, property C04)
OTHER_NRCS = [0x12, 0x31, 0x33, 0x22, 0x10, 0x7E, 0x24, 0x72, 0x21]  # incl. busyRepeatRequest: still an answer


def classify(resp: bytes | None) -> int:
    """Response bytes -> class code (ISO 14229-1 negative response layout 7F sid nrc)."""
    if resp is None:
        return NONE
    if len(resp) >= 3 and resp[0] == 0x7F:
        return {NRC_SNS: SNS, NRC_SNSIAS: SNSIAS, NRC_LEN: LEN}.get(resp[2], NEG)
    return POS


def _find_positive(sid: int) -> bytes | None:
    """A positive reply for `sid` that gallia's own parser accepts for a raw request
    (reply classes are produced by construction; classification is C03's subject)."""
    if sid & 0x40 or sid + 0x40 > 0xFF or sid + 0x40 == 0x7F:
        return None
    for k in range(0, 9):
        for fill in (0, 1):
            pdu = bytes([sid + 0x40]) + bytes([fill]) * k
            try:
                r = parse_pdu(pdu, service.RawRequest(bytes([sid, 0])))
            except Exception:  # noqa: BLE001
                continue
            if not isinstance(r, service.NegativeResponse):
                return pdu
    return None


POSITIVE: dict[int, bytes] = {}
for _sid in range(256):
    _p = _find_positive(_sid)
    if _p is not None:
        POSITIVE[_sid] = _p


class _Raw:
    """Minimal response object: UDSServerTransport.handle_request only reads `.pdu`."""

    def __init__(self, pdu: bytes) -> None:
        self.pdu = pdu


class _RecMixin:
    log: list[tuple[int, bytes, bytes | None]]

    def _rec(self, truth: int, req: bytes, resp: Any) -> None:
        self.log.append((truth, bytes(req), None if resp is None else bytes(resp.pdu)))

    async def _think(self) -> None:
        """model["latency"] = {"base": seconds, "jitter": [seconds, ...]}: an honest but SLOW ECU (or a gateway in
        front of it): every request -- probes, session changes, the session read, TesterPresent -- is answered
        correctly, but only after base + jitter[n mod len] seconds (n = number of the request on this ECU).
        Requests are served one after the other (handle_client), as on a real diagnostic channel."""
        lat = getattr(self, "model", {}).get("latency")
        if lat:
            n = self._nreq = getattr(self, "_nreq", -1) + 1
            jit = lat.get("jitter") or [0.0]
            await asyncio.sleep(max(0.0, lat["base"] + jit[n % len(jit)]))


def _is_dsc(pdu: bytes) -> bool:
    return len(pdu) == 2 and pdu[0] == 0x10 and (pdu[1] & 0x7F) != 0


# ------------------------------------------------------------------ service model
# class tuples: ("Absent",) ("AbsentHere",) ("LenErr",) ("Silent",)
#               ("Ans", k, "Pos"|"Neg", nrc, drop[, quiet])   answers from payload length k on;
#                                                    shorter: length error (quiet: no answer at all)


def class_answer(cls: tuple[Any, ...] | list[Any], sid: int, plen: int) -> tuple[int, bytes | None]:
    k = cls[0]
    if k == "Absent":
        return SNS, bytes([0x7F, sid, NRC_SNS])
    if k == "AbsentHere":
        return SNSIAS, bytes([0x7F, sid, NRC_SNSIAS])
    if k == "LenErr":
        return LEN, bytes([0x7F, sid, NRC_LEN])
    if k == "Silent":
        return NONE, None
    assert k == "Ans", cls
    if plen < cls[1]:
        if len(cls) > 5 and cls[5]:
            return NONE, None  # "quiet below": too short requests are ignored instead of rejected
        return LEN, bytes([0x7F, sid, NRC_LEN])
    if cls[2] == "Pos" and sid in POSITIVE:
        return POS, POSITIVE[sid]
    return NEG, bytes([0x7F, sid, cls[3]])


def class_impl(cls: tuple[Any, ...] | list[Any]) -> bool:
    return cls[0] not in ("Absent", "AbsentHere")


class ModelServer(_RecMixin, UDSServer):
    """model = {"sessions": [..], "sess_read": bool, "svc": {session: {sid: class tuple}}} (default Absent)"""

    def __init__(self, model: dict[str, Any], mutant: str | None = None) -> None:
        super().__init__()
        self.model = model
        self.sessions = sorted(model["sessions"])
        self.svc = {int(s): {int(sid): tuple(c) for sid, c in d.items()} for s, d in model["svc"].items()}
        self.sess_read = bool(model.get("sess_read", True))
        self.mutant = mutant
        self.log = []
        sup: dict[UDSIsoServices, list[int] | None] = {UDSIsoServices.DiagnosticSessionControl: self.sessions}
        if self.sess_read:
            sup[UDSIsoServices.ReadDataByIdentifier] = None
        self._sup = {s: dict(sup) for s in self.sessions}

    @property
    def supported_services(self) -> dict[int, dict[UDSIsoServices, list[int] | None]]:
        return self._sup

    def cls(self, session: int, sid: int) -> tuple[Any, ...]:
        return self.svc.get(session, {}).get(sid, ("Absent",))

    async def respond_after_default(self, request: service.UDSRequest) -> service.UDSResponse | None:
        return None

    async def respond(self, request: service.UDSRequest) -> Any:
        pdu = request.pdu
        rs = self.model.get("reset")
        if rs:
            # model["reset"] = {"level", "delay", "latency"}: every answer takes `latency` seconds; ECUReset <level>
            # is acknowledged at once and performed `delay` seconds later (< 0.5 s), the ECU answers in between
            await asyncio.sleep(rs["latency"])
        await self._think()
        truth = self.state.session
        if rs and pdu == bytes([0x11, rs["level"]]):
            asyncio.get_running_loop().call_later(rs["delay"], self.state.reset)
            resp = _Raw(bytes([0x51, rs["level"]]))
            self._rec(truth, pdu, resp)
            return resp
        if _is_dsc(pdu) or (self.sess_read and pdu == b"\x22\xf1\x86"):
            resp = await super().respond(request)  # gallia's default chain + state update
            self._rec(truth, pdu, resp)
            return resp
        sid = pdu[0]
        c = self.cls(truth, sid)
        code, raw = class_answer(c, sid, len(pdu) - 1)
        if pdu == b"\x22\xf1\x86" and class_impl(c):
            # no readable session: an ECU that has 0x22 does not know this identifier
            code, raw = NEG, bytes([0x7F, 0x22, 0x31])
        if self.mutant == "fake-swaps-len-and-sns" and code == LEN:
            raw = bytes([0x7F, sid, NRC_SNS])
        if pdu == b"\x3e\x80" and code == POS:
            raw = None  # ISO 14229-1 suppressPosRspMsgIndicationBit: a keep-alive sent this way gets no answer
        if c[0] == "Ans" and c[4] and code in (POS, NEG):
            self.state.reset()  # the ECU falls back to its default session by itself
        if self.model.get("drop_after", {}).get(str(truth), {}).get(str(sid)) == len(pdu) - 1:
            # ... or reboots on a probe it does not answer / rejects (crash, watchdog): model["drop_after"]
            # = {session: {sid: payload length of the probe after which the session is gone}}
            self.state.reset()
        resp = None if raw is None else _Raw(raw)
        self._rec(truth, pdu, resp)
        return resp


# ------------------------------------------------------------------ identifier model
IDENT_HDR = {0x22: 3, 0x2E: 3, 0x31: 4, 0x27: 2}


def ident_positive(svc: int, sf: int, ident: int) -> bytes:
    if svc == 0x22:
        return bytes([0x62, ident >> 8, ident & 0xFF, 0xAA])
    if svc == 0x2E:
        return bytes([0x6E, ident >> 8, ident & 0xFF])
    if svc == 0x31:
        return bytes([0x71, sf, ident >> 8, ident & 0xFF])
    if svc == 0x27:
        return bytes([0x67, ident, 0x12, 0x34]) if ident % 2 == 1 else bytes([0x67, ident])
    raise AssertionError(svc)


def ident_decode(svc: int, pdu: bytes) -> tuple[int, int] | None:
    """ISO 14229-1 request layouts: (sub-function, identifier) or None if too short."""
    if len(pdu) < IDENT_HDR[svc]:
        return None
    if svc in (0x22, 0x2E):
        return 0, (pdu[1] << 8) | pdu[2]
    if svc == 0x31:
        return pdu[1], (pdu[2] << 8) | pdu[3]
    return 0, pdu[1]


class IdentServer(_RecMixin, UDSServer):
    """model = {"sessions": [..], "sess_read": bool, "service": svc, "reset_ok": bool,
                "absent": {session: "SNS"|"SNSIAS"},                 service missing in that session
                "pos"|"abn"|"sil"|"drop": {session: {sf: [ids]}}}    everything else: requestOutOfRange"""

    def __init__(self, model: dict[str, Any], mutant: str | None = None) -> None:
        super().__init__()
        self.model = model
        self.svc_id = int(model["service"])
        self.sessions = sorted(model["sessions"])
        self.sess_read = bool(model.get("sess_read", True))
        self.reset_ok = bool(model.get("reset_ok", True))
        self.mutant = mutant
        self.log = []

        def sets(key: str) -> dict[tuple[int, int], set[int]]:
            return {(int(s), int(sf)): set(ids) for s, d in model.get(key, {}).items() for sf, ids in d.items()}

        self.pos, self.abn, self.sil, self.drop = sets("pos"), sets("abn"), sets("sil"), sets("drop")
        self.wrongecho = sets("wrongecho")
        self.absent = {int(s): v for s, v in model.get("absent", {}).items()}
        sup: dict[UDSIsoServices, list[int] | None] = {UDSIsoServices.DiagnosticSessionControl: self.sessions}
        if self.sess_read:
            sup[UDSIsoServices.ReadDataByIdentifier] = None
        self._sup = {s: dict(sup) for s in self.sessions}

    @property
    def supported_services(self) -> dict[int, dict[UDSIsoServices, list[int] | None]]:
        return self._sup

    async def respond_after_default(self, request: service.UDSRequest) -> service.UDSResponse | None:
        return None

    def answer(self, truth: int, pdu: bytes) -> tuple[bytes | None, bool]:
        svc = self.svc_id
        if truth in self.absent:
            return bytes([0x7F, svc, NRC_SNS if self.absent[truth] == "SNS" else NRC_SNSIAS]), False
        d = ident_decode(svc, pdu)
        if d is None:
            return bytes([0x7F, svc, NRC_LEN]), False
        sf, ident = d
        if svc == 0x27 and ident & 0x80:
            # suppressPosRspMsgIndicationBit set: positive answers are suppressed
            return (None if (ident & 0x7F) in self.pos.get((truth, 0), ()) else bytes([0x7F, svc, 0x12])), False
        key = (truth, sf)
        if self.mutant == "fake-answers-positive-outside-model" and ident not in self.pos.get(key, ()):
            return ident_positive(svc, sf, ident), False
        if ident in self.pos.get(key, ()):
            return ident_positive(svc, sf, ident), ident in self.drop.get(key, ())
        if ident in self.wrongecho.get(key, ()):
            other = (ident + 1) % (0x80 if svc == 0x27 else 0x10000)
            if svc == 0x27 and other % 2 != ident % 2:
                other = (ident + 2) % 0x80
            return ident_positive(svc, sf, other), False
        if ident in self.abn.get(key, ()):
            # securityAccessDenied / conditionsNotCorrect / busyRepeatRequest (every attempt): all are answers
            return bytes([0x7F, svc, (0x33, 0x22, 0x21)[ident % 3]]), False
        if ident in self.sil.get(key, ()):
            return None, False
        return bytes([0x7F, svc, 0x12 if svc == 0x27 else 0x31]), False

    async def respond(self, request: service.UDSRequest) -> Any:
        pdu = request.pdu
        await self._think()
        truth = self.state.session
        if _is_dsc(pdu) or (self.sess_read and pdu == b"\x22\xf1\x86"):
            resp = await super().respond(request)
        elif pdu[0] == 0x3E and len(pdu) == 2:
            resp = None if pdu[1] & 0x80 else _Raw(b"\x7e\x00")
        elif pdu[0] == 0x11 and len(pdu) == 2:
            if self.reset_ok:
                self.state.reset()
                resp = _Raw(bytes([0x51, pdu[1]]))
            else:
                resp = _Raw(b"\x7f\x11\x22")
        elif pdu[0] == self.svc_id:
            raw, drop = self.answer(truth, pdu)
            if drop:
                self.state.reset()
            resp = None if raw is None else _Raw(raw)
        else:
            resp = _Raw(bytes([0x7F, pdu[0], NRC_SNS]))
        self._rec(truth, pdu, resp)
        return resp


# ------------------------------------------------------------------ RandomUDSServer, recording
class RecRandomServer(_RecMixin, RandomUDSServer):
    def __init__(self, seed: int, params: Any = None) -> None:
        super().__init__(seed, params)
        self.log = []

    async def respond(self, request: service.UDSRequest) -> Any:
        truth = self.state.session
        resp = await super().respond(request)
        self._rec(truth, request.pdu, resp)
        return resp


async def ask_directly(server: RandomUDSServer, session: int, pdu: bytes) -> bytes | None:
    """Ground truth of a RandomUDSServer twin: its answer to `pdu` in `session` (state restored)."""
    server.state.reset()
    server.state.session = session
    resp = await server.respond(service.UDSRequest.parse_dynamic(pdu))
    server.state.reset()
    return None if resp is None else bytes(resp.pdu)


# ------------------------------------------------------------------ plumbing
class _SrvWriter:
    def __init__(self, wire: Wire) -> None:
        self.wire = wire

    def write(self, data: bytes) -> None:
        self.wire.feed(data)

    async def drain(self) -> None:
        await asyncio.sleep(0)

    def close(self) -> None:
        self.wire.eof()

    async def wait_closed(self) -> None:
        return None


@contextlib.contextmanager
def serving(server: UDSServer) -> Iterator[Listener]:
    """Every (re)connection of the client is served by the real handle_client."""
    tr = TCPUDSServerTransport(server, TargetURI(TARGET))
    lst = Listener()
    tasks: list[asyncio.Future[Any]] = []

    def accept(wire: Wire) -> None:
        rd = asyncio.StreamReader(limit=2**20)
        wire.on_out = rd.feed_data
        wire.on_client_close = rd.feed_eof
        t = asyncio.ensure_future(tr.handle_client(rd, _SrvWriter(wire)))  # type: ignore[arg-type]
        t.add_done_callback(lambda f: f.cancelled() or f.exception())  # avg-time division on idle connections
        tasks.append(t)

    lst.on_accept = accept
    with patched_connections(lst):
        yield lst
    for t in tasks:
        if not t.done():
            t.cancel()


class ResultCapture(logging.Handler):
    """Collects gallia's result-tagged log records (logger.result) in order; a callback lets the
    harness interleave them with the requests observed at the ECU."""

    def __init__(self, sink: Any) -> None:
        super().__init__(level=0)
        self.sink = sink

    def emit(self, record: logging.LogRecord) -> None:
        if "result" in (getattr(record, "tags", None) or []):
            try:
                self.sink(record.getMessage())
            except Exception:  # noqa: BLE001
                pass


def cache_entry_points() -> None:
    """gallia rescans the installed distributions' metadata (importlib.metadata.entry_points) three
    times per scanner run (~50 ms); the installed distributions do not change during a check, so the
    harness process memoises that scan.  gallia's own plugin selection logic still runs every time."""
    import functools

    import gallia.plugins.plugin as plug

    if not getattr(plug.entry_points, "_c10_cached", False):
        orig = plug.entry_points

        @functools.lru_cache(maxsize=None)
        def cached(**kw: Any) -> Any:
            return tuple(orig(**kw))

        cached._c10_cached = True  # type: ignore[attr-defined]
        plug.entry_points = cached  # type: ignore[assignment]


_installed = False


def setup_logging_once() -> None:
    """Instead of quiet_gallia_logging(): result records must reach our handler, nothing may
    reach stdout/stderr."""
    global _installed
    if _installed:
        return
    _installed = True
    cache_entry_points()
    logging.getLogger().addHandler(logging.NullHandler())
    lg = logging.getLogger("gallia")
    lg.propagate = False
    lg.setLevel(25)  # NOTICE: level of logger.result()
    lg.addHandler(logging.NullHandler())


@contextlib.contextmanager
def capture_results(sink: Any) -> Iterator[None]:
    setup_logging_once()
    h = ResultCapture(sink)
    lg = logging.getLogger("gallia")
    lg.addHandler(h)
    try:
        yield
    finally:
        lg.removeHandler(h)
