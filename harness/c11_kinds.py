"""C11 helper: simple valid instances of every UDS request kind (reflection over
gallia.services.uds.core.service) and, per instance, reply bytes of every
outcome class.

The outcome class of a reply is only a *coverage label* here (the contract of
C11 looks at what the call did -- returned / raised -- and at the bytes), so the
replies are found by construction + search: candidate byte strings are offered
to the real `parse_pdu` and sorted by what it does with them.
"""

from __future__ import annotations

import inspect
from typing import Any

from gallia.services.uds.core import service
from gallia.services.uds.core.exception import MalformedResponse, RequestResponseMismatch
from gallia.services.uds.helpers import parse_pdu

INT_BY_NAME = {
    "diagnostic_session_type": [3, 2, 1],
    "reset_type": [1],
    "control_type": [0],
    "communication_type": [1],
    "dtc_setting_type": [1],
    "data_identifier": [0x1234, 0xF186],
    "data_identifiers": [0x1234, 0xF186],
    "dynamically_defined_data_identifier": [0xF300],
    "source_data_identifiers": [0x1234],
    "positions_in_source_data_record": [1],
    "memory_sizes": [2],
    "memory_addresses": [0x2000],
    "memory_address": [0x1000],
    "memory_size": [4],
    "group_of_dtc": [0xFFFFFF],
    "dtc_status_mask": [0xFF],
    "dtc_mask_record": [0x123456, 0x000000],
    "dtc_ext_data_record_number": [1],
    "routine_identifier": [0x0203],
    "block_sequence_counter": [1],
    "compression_method": [0],
    "encryption_method": [0],
}
BYTES_BY_NAME = {
    "security_key": [b"\xde\xad"],
    "data_record": [b"\x01\x02\x03\x04"],
    "control_option_record": [b"\x03\x40"],
    "control_states": [b"\x40"],
}


def request_classes() -> list[type[service.UDSRequest]]:
    out = []
    for name, c in vars(service).items():
        if inspect.isclass(c) and issubclass(c, service.UDSRequest) and not inspect.isabstract(c) \
                and not name.startswith("_"):
            out.append(c)
    return out


def _enc(v: Any) -> Any:
    if isinstance(v, (bytes, bytearray)):
        return {"$b": bytes(v).hex()}
    return v


def _dec(v: Any) -> Any:
    if isinstance(v, dict) and "$b" in v:
        return bytes.fromhex(v["$b"])
    return v


def build(spec: dict[str, Any]) -> service.UDSRequest:
    """spec = {"cls": class name, "kw": {...}} (JSON-able; bytes as {"$b": hex})."""
    cls = getattr(service, spec["cls"])
    return cls(**{k: _dec(v) for k, v in spec["kw"].items()})


def _kwargs_variants(cls: type[service.UDSRequest]) -> list[dict[str, Any]]:
    """A base instance plus a few variations (other identifier, suppress bit, optional records)."""
    sig = inspect.signature(cls.__init__)
    params = list(sig.parameters.values())[1:]
    base: dict[str, Any] = {}
    alts: list[dict[str, Any]] = []
    for p in params:
        ann = str(p.annotation)
        if p.name == "security_access_type":
            base[p.name] = 1 if cls.__name__ == "RequestSeedRequest" else 2
            alts.append({p.name: 3 if cls.__name__ == "RequestSeedRequest" else 4})
        elif p.name == "pdu":
            base[p.name] = b"\x22\x12\x34"
            alts.append({p.name: b"\xba\x01\x02"})
            alts.append({p.name: b"\x10\x03"})
            # raw requests that are near misses of a typed layout (what the fuzzer / identifier scanner / pdu
            # primitive send): the row must hold the bytes that went out, whatever a parser makes of them
            for raw in (b"\x22\x24\x14\x12", b"\x2c\x03\x01", b"\x19\x02", b"\x31\x01\xff", b"\x22",
                        b"\x2e\xf1\x90", b"\x27\x01\x00", b"\x3e"):
                alts.append({p.name: raw})
        elif p.name == "suppress_response":
            alts.append({p.name: True})
        elif p.name in INT_BY_NAME:
            vals = INT_BY_NAME[p.name]
            base[p.name] = vals[0]
            for v in vals[1:]:
                alts.append({p.name: v})
        elif "bytes" in ann and "int" not in ann:
            if p.name in BYTES_BY_NAME:
                base[p.name] = BYTES_BY_NAME[p.name][0]
            elif p.default is inspect.Parameter.empty:
                base[p.name] = b"\xaa\xbb"
            else:
                alts.append({p.name: b"\xaa\xbb"})
        elif p.default is inspect.Parameter.empty:
            raise TypeError(f"no value rule for parameter {cls.__name__}.{p.name}: {ann}")
    out = [base] + [{**base, **a} for a in alts]
    return out


def request_specs() -> list[dict[str, Any]]:
    """Every request kind, a few instances each: [{"cls", "kw", "pdu"}]; instances whose
    construction or .pdu raises are returned with "broken": repr(exception)."""
    specs = []
    for cls in request_classes():
        for kw in _kwargs_variants(cls):
            spec: dict[str, Any] = {"cls": cls.__name__, "kw": {k: _enc(v) for k, v in kw.items()}}
            try:
                req = build(spec)
                spec["pdu"] = req.pdu.hex()
            except Exception as e:  # noqa: BLE001
                spec["broken"] = repr(e)
            specs.append(spec)
    return specs


_EXTRAS = [b"", b"\x00", b"\x01", b"\x2f", b"\x00\x01", b"\x01\x02\x03", b"\x00\x19\x01\xf4",
           b"\x12\x34\x56\x2f", b"\x01\x12\x34\x56\x2f", b"\xff\x12\x34\x56\x2f\x01\xaa\xbb",
           b"\x12\x34\x56\x2f\x12\x34\x56\x2f", b"\x12\x34\x56\x2f\x65\x43\x21\x08",
           b"\x20\x00\x10", b"\x11\x22", b"\x00\x00\x00\x00\x00\x00", b"\x00\x00\x00\x2f\x01\xaa\xbb"]


def classify(raw: bytes, req: service.UDSRequest) -> tuple[str, str]:
    """What the real parse_pdu does with `raw`: (class label, response class name)."""
    try:
        resp = parse_pdu(raw, req)
    except RequestResponseMismatch:
        return "Mismatch", ""
    except MalformedResponse:
        return "Malformed", ""
    except Exception as e:  # noqa: BLE001
        return "Other:" + type(e).__name__, ""
    if isinstance(resp, service.NegativeResponse):
        return "Neg", type(resp).__name__
    return "Pos", type(resp).__name__


def replies_for(req: service.UDSRequest) -> dict[str, list[tuple[bytes, str]]]:
    """Reply bytes per outcome class for this request: {"Pos": [(bytes, response class)], "Neg": ...,
    "Mismatch": ..., "Malformed": ...}.  Positive replies: up to 4 accepted candidates of
    different shapes (shortest, longest, others), preferring the declared RESPONSE_TYPE."""
    p = req.pdu
    sid = p[0]
    cands: list[bytes] = []
    for k in range(1, len(p) + 1):
        for x in _EXTRAS:
            c = bytes([(sid + 0x40) & 0xFF]) + bytes([b & 0x7F if i == 0 and len(p) > 1 else b
                                                       for i, b in enumerate(p[1:k])]) + x
            if c not in cands:
                cands.append(c)
            c2 = bytes([(sid + 0x40) & 0xFF]) + p[1:k] + x
            if c2 not in cands:
                cands.append(c2)
    out: dict[str, list[tuple[bytes, str]]] = {"Pos": [], "Neg": [], "Mismatch": [], "Malformed": []}
    pos_all: list[tuple[bytes, str]] = []
    for c in cands:
        lab, cls = classify(c, req)
        if lab == "Pos":
            pos_all.append((c, cls))
        elif lab in ("Mismatch", "Malformed") and len(out[lab]) < 2:
            out[lab].append((c, ""))
    want = type(req).RESPONSE_TYPE.__name__
    pref = [x for x in pos_all if x[1] == want] or pos_all
    pref.sort(key=lambda x: (len(x[0]), x[0]))
    if pref:
        pick = [pref[0], pref[-1]]
        mid = pref[len(pref) // 2]
        for x in (mid, pref[len(pref) // 3]):
            if x not in pick:
                pick.append(x)
        seen: list[tuple[bytes, str]] = []
        for x in pick:
            if x not in seen:
                seen.append(x)
        out["Pos"] = seen
    for nrc in (0x31, 0x33, 0x11, 0x7E):
        c = bytes([0x7F, sid, nrc])
        lab, cls = classify(c, req)
        if lab == "Neg":
            out["Neg"].append((c, cls))
    for c in (bytes([0x7F, sid ^ 0x01, 0x31]), bytes([(sid + 0x41) & 0xFF, 0x00, 0x01]),
              bytes.fromhex("5003001901f4") if sid != 0x10 else bytes.fromhex("62123400")):
        lab, _ = classify(c, req)
        if lab == "Mismatch" and len(out["Mismatch"]) < 3:
            out["Mismatch"].append((c, ""))
    for c in (bytes([(sid + 0x40) & 0xFF]), bytes([0x7F, sid]), bytes([(sid + 0x40) & 0xFF]) + p[1:2]):
        lab, _ = classify(c, req)
        if lab == "Malformed" and len(out["Malformed"]) < 3 and (c, "") not in out["Malformed"]:
            out["Malformed"].append((c, ""))
    return out
