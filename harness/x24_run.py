"""X24 helpers: drivers that run ONE case on the real gallia code and return its event list (harness/props/x24.py).

  call    ECU.ping / read_session / read_dtc / clear_dtc / read_vin / properties / set_session_pre / set_session_post
          on harness.fakes.ScriptedTransport under virtual time; the scripted ECU answers the successive reads of the
          one exchange with the byte strings of the case (an empty one = silence for that read)
  stack   the same calls through the full in-memory tcp-lines stack of harness/c10_stack.py (real TCPLinesTransport,
          real TCPUDSServerTransport.handle_client, gallia's RandomUDSServer as ECU; ground truth = the server's log)
  sugg / exc / cls / mm / state / json   the helpers of services/uds/helpers.py, core/exception.py, ECUState,
          ECUProperties.to_json evaluated on constructed objects
  life    start / stop_cyclic_tester_present, wait_for_ecu and foreground requests against an ECU whose answer mode
          changes (answer / silent / connerr / nrc), background TesterPresent requests recorded with their virtual time

Python never judges: the event lists go to TLC (spec/Trace_EcuHelpers.tla).
"""

from __future__ import annotations

import asyncio
import enum
import json
from dataclasses import field, make_dataclass
from typing import Any

from gallia.services.uds.core import service
from gallia.services.uds.core.client import UDSRequestConfig
from gallia.services.uds.core.constants import UDSErrorCodes
from gallia.services.uds.core.exception import (
    IllegalResponse,
    RequestResponseMismatch,
    ResponseException,
    UDSException,
    UnexpectedNegativeResponse,
)
from gallia.services.uds import helpers
from gallia.services.uds.ecu import ECU, ECUProperties, ECUState

from harness import vloop
from harness.fakes import ScriptedTransport, ScriptEnv, task_name
from harness.vloop import now_ms

MAIN = "x24-main"
OBS_MS = 4130      # observation window after every life-cycle step (no multiple of the intervals / timeouts used)
SYNC_CAP_MS = 3000
WAIT_S = 2.0
INTERVALS = {"s1": 1000, "s2": 1500}
MODES = {"eA": "answer", "eS": "silent", "eC": "connerr", "eN": "nrc"}
WIRE_METHODS = ("ping", "read_session", "read_dtc", "clear_dtc", "read_vin")
METHOD_ATTR = {"pre": "set_session_pre", "post": "set_session_post"}

X0: dict[str, Any] = {"unr": False, "rexc": False, "illegal": False, "mismatch": False, "udsx": False, "tmo": False,
                      "valerr": False, "rc": -1, "hasreq": False, "req": [], "hasresp": False, "resp": [], "hasmsg": False}


def project_exc(e: BaseException, msg: str | None = None) -> dict[str, Any]:
    x = dict(X0)
    x["unr"] = isinstance(e, UnexpectedNegativeResponse)
    x["rexc"] = isinstance(e, ResponseException)
    x["illegal"] = isinstance(e, IllegalResponse)
    x["mismatch"] = isinstance(e, RequestResponseMismatch)
    x["udsx"] = isinstance(e, UDSException)
    x["tmo"] = isinstance(e, TimeoutError)
    x["valerr"] = isinstance(e, ValueError)
    rc = getattr(type(e), "RESPONSE_CODE", None)
    x["rc"] = int(rc) if isinstance(rc, int) else -1
    rq = getattr(e, "request", None)
    if isinstance(rq, service.UDSRequest):
        x["hasreq"], x["req"] = True, list(rq.pdu)
    rs = getattr(e, "response", None)
    if isinstance(rs, service.UDSResponse):
        x["hasresp"], x["resp"] = True, list(rs.pdu)
    x["hasmsg"] = msg is not None and msg in str(e)
    return x


def _sec(ecu: ECU) -> int:
    lv = ecu.state.security_access_level
    return -1 if lv is None else int(lv)


def _ret(r: Any) -> dict[str, Any]:
    out: dict[str, Any] = {"e": "Ret", "how": "other", "neg": False, "b": [], "rc": -1, "v": -1, "x": dict(X0)}
    if isinstance(r, service.NegativeResponse):
        out.update(how="resp", neg=True, b=list(r.pdu), rc=int(r.response_code))
    elif isinstance(r, service.UDSResponse):
        out.update(how="resp", b=list(r.pdu))
    elif isinstance(r, bool):
        out.update(how="bool", v=1 if r else 0)
    elif isinstance(r, int):
        out.update(how="int", v=r if 0 <= r < 2**30 else 2**30)
    elif isinstance(r, ECUProperties):
        try:
            ok = isinstance(json.loads(r.to_json()), dict) and isinstance(json.loads(r.to_json(indent=4)), dict)
        except Exception:  # noqa: BLE001
            ok = False
        out.update(how="props", v=1 if ok else 0)
    return out


# ------------------------------------------------------------------ convenience calls on a scripted transport
class CallEnv(ScriptEnv):
    def __init__(self, answers: list[list[int]]) -> None:
        super().__init__()
        self.answers = [bytes(a) for a in answers]
        self.ev: list[dict[str, Any]] = []

    def on_write(self, data: bytes) -> str | None:
        self.ev.append({"e": "Req", "b": list(data)})
        return None

    def on_read(self, timeout: float | None) -> tuple[str, bytes | None]:
        a = self.answers.pop(0) if self.answers else b""
        self.ev.append({"e": "Ans", "b": list(a)})
        if not a:
            return "Timeout", None
        return "Final", a


async def _invoke(ecu: ECU, m: str, cfg_ms: int) -> Any:
    cfg = UDSRequestConfig(timeout=cfg_ms / 1000) if cfg_ms >= 0 else None
    if m in METHOD_ATTR:
        return await getattr(ecu, METHOD_ATTR[m])(3, config=cfg) if cfg is not None else await getattr(ecu, METHOD_ATTR[m])(3)
    if m == "properties":
        return await ecu.properties(True, config=cfg) if cfg is not None else await ecu.properties()
    return await getattr(ecu, m)(config=cfg) if cfg is not None else await getattr(ecu, m)()


def run_call(case: dict[str, Any]) -> dict[str, Any]:
    env = CallEnv(case["ans"])
    m = case["m"]
    box: dict[str, Any] = {}
    env.ev.append({"e": "Start", "kind": "call", "m": m, "s0": int(case["s0"]), "sec0": int(case["sec0"]),
                   "tmo": int(case["tmo"]), "cfg": int(case["cfg"])})

    async def main() -> None:
        ecu = ECU(ScriptedTransport(env), timeout=case["tmo"] / 1000, max_retry=0)
        ecu.state.session = int(case["s0"])
        ecu.state.security_access_level = None if case["sec0"] < 0 else int(case["sec0"])
        box["ecu"] = ecu
        t0 = now_ms()
        try:
            r = _ret(await _invoke(ecu, m, int(case["cfg"])))
        except Exception as e:  # noqa: BLE001
            r = _ret(None)
            r.update(how="raise", x=project_exc(e))
            box["exc"] = repr(e)[:160]
        r["dur"] = now_ms() - t0
        box["r"] = r

    try:
        vloop.run(main(), horizon=900)
    except (TimeoutError, vloop.BlockedForever):
        box["r"] = dict(_ret(None), how="hang", dur=0)
    r = box["r"]
    ecu = box.get("ecu")
    r["sess"] = int(ecu.state.session) if ecu is not None and 0 <= int(ecu.state.session) < 2**30 else -1
    r["sec"] = _sec(ecu) if ecu is not None else -1
    env.ev.append(r)
    env.dispose()
    return {"ev": env.ev, "exc": box.get("exc")}


# ------------------------------------------------------------------ the same calls through the real tcp-lines stack
def run_stack(case: dict[str, Any]) -> dict[str, Any]:
    from gallia.transports.tcp import TCPLinesTransport

    import gallia.services.uds.server as server_mod
    from harness.c10_stack import TARGET, RecRandomServer, serving

    m = case["m"]
    ev: list[dict[str, Any]] = [{"e": "Start", "kind": "call", "m": m, "s0": 1, "sec0": -1, "tmo": 2000, "cfg": -1}]
    box: dict[str, Any] = {}

    async def main() -> None:
        server = RecRandomServer(int(case["seed"]))
        await server.setup()
        with serving(server):
            tr = await TCPLinesTransport.connect(TARGET)
            ecu = ECU(tr, timeout=2.0, max_retry=0)
            box["ecu"] = ecu
            n0 = len(server.log)
            t0 = now_ms()
            try:
                r = _ret(await _invoke(ecu, m, -1))
            except Exception as e:  # noqa: BLE001
                r = _ret(None)
                r.update(how="raise", x=project_exc(e))
                box["exc"] = repr(e)[:160]
            r["dur"] = now_ms() - t0
            for _truth, req, resp in server.log[n0:]:
                ev.append({"e": "Req", "b": list(req)})
                ev.append({"e": "Ans", "b": list(resp) if resp is not None else []})
            box["r"] = r
            await tr.close()

    real_time = server_mod.time
    server_mod.time = lambda: asyncio.get_event_loop().time()  # type: ignore[assignment]
    try:
        vloop.run(main(), horizon=900)
    except (TimeoutError, vloop.BlockedForever):
        box["r"] = dict(_ret(None), how="hang", dur=0)
    finally:
        server_mod.time = real_time  # type: ignore[assignment]
    r = box["r"]
    ecu = box.get("ecu")
    r["sess"] = int(ecu.state.session) if ecu is not None else -1
    r["sec"] = _sec(ecu) if ecu is not None else -1
    ev.append(r)
    return {"ev": ev, "exc": box.get("exc")}


# ------------------------------------------------------------------ helpers
def _wire_request(m: str) -> service.UDSRequest:
    return {
        "ping": service.TesterPresentRequest(False),
        "read_session": service.ReadDataByIdentifierRequest(0xF186),
        "read_dtc": service.ReportDTCByStatusMaskRequest(0xFF),
        "clear_dtc": service.ClearDiagnosticInformationRequest(0xFFFFFF),
        "read_vin": service.ReadDataByIdentifierRequest(0xF190),
    }[m]


SUGG = {"service": "suggests_service_not_supported", "subfunc": "suggests_sub_function_not_supported",
        "ident": "suggests_identifier_not_supported"}


def run_sugg(case: dict[str, Any]) -> dict[str, Any]:
    fn = getattr(helpers, SUGG[case["fn"]])
    nrc = int(case["nrc"])
    exc = None
    try:
        if case["form"] == "pos":
            arg: Any = service.UDSResponse.parse_dynamic(bytes([0x7E, 0x00]))
        elif case["form"] == "neg":
            arg = service.UDSResponse.parse_dynamic(bytes([0x7F, 0x22, nrc]))
        else:
            arg = UDSErrorCodes(nrc)
        r = fn(arg)
        out = "true" if r is True else "false" if r is False else "other"
    except Exception as e:  # noqa: BLE001
        out, exc = "raise", repr(e)[:160]
    return {"ev": [{"e": "Start", "kind": "sugg"},
                   {"e": "Sugg", "fn": case["fn"], "form": case["form"], "nrc": nrc, "out": out}, {"e": "End"}], "exc": exc}


def run_exc(case: dict[str, Any]) -> dict[str, Any]:
    m = case.get("m", "read_session")
    req = _wire_request(m)
    nrc = int(case["nrc"])
    msg = "x24 says hello" if case["msg"] else None
    resp: Any
    if case["pos"]:
        resp = service.UDSResponse.parse_dynamic(bytes([0x62, 0xF1, 0x86, 0x01]))
    else:
        resp = service.NegativeResponse(req.service_id, UDSErrorCodes(nrc))
    if case["trig"]:
        resp.trigger_request = req
    out, x, exc = "none", dict(X0), None
    try:
        if case["fn"] == "raise_for_error":
            r = helpers.raise_for_error(resp, msg) if msg is not None else helpers.raise_for_error(resp)
        elif case["fn"] == "as_exception":
            r = helpers.as_exception(resp, msg) if msg is not None else helpers.as_exception(resp)
        else:
            r = UnexpectedNegativeResponse.parse_dynamic(req, resp, msg)
        if isinstance(r, BaseException):
            out, x = "ret", project_exc(r, msg)
        elif r is not None:
            out = "other"
    except Exception as e:  # noqa: BLE001
        out, x, exc = "raise", project_exc(e, msg), repr(e)[:160]
    return {"ev": [{"e": "Start", "kind": "exc"},
                   {"e": "Exc", "fn": case["fn"], "pos": bool(case["pos"]), "nrc": nrc, "trig": bool(case["trig"]),
                    "msg": bool(case["msg"]), "out": out, "x": x, "reqb": list(req.pdu), "respb": list(resp.pdu)},
                   {"e": "End"}], "exc": exc}


def run_cls(case: dict[str, Any]) -> dict[str, Any]:
    req = _wire_request("ping")
    ev: list[dict[str, Any]] = [{"e": "Start", "kind": "cls"}]
    for c in range(256):
        rec = {"e": "Cls", "nrc": c, "known": False, "name": "", "rc": -1}
        try:
            code = UDSErrorCodes(c)
            rec["known"] = True
            e = UnexpectedNegativeResponse.parse_dynamic(req, service.NegativeResponse(req.service_id, code))
            rec["name"] = f"{type(e).__module__}.{type(e).__qualname__}"
            rc = getattr(type(e), "RESPONSE_CODE", None)
            rec["rc"] = int(rc) if isinstance(rc, int) else -1
        except Exception:  # noqa: BLE001
            pass
        ev.append(rec)
    ev.append({"e": "End"})
    return {"ev": ev, "exc": None}


def run_mm(case: dict[str, Any]) -> dict[str, Any] | None:
    req = _wire_request(case["m"])
    try:
        resp = service.UDSResponse.parse_dynamic(bytes(case["respb"]))
    except Exception:  # noqa: BLE001  (no response object can be built from these bytes: not a case for this helper)
        return None
    out, x, exc = "none", dict(X0), None
    try:
        helpers.raise_for_mismatch(req, resp, "x24 says hello")
    except Exception as e:  # noqa: BLE001
        out, x, exc = "raise", project_exc(e, "x24 says hello"), repr(e)[:160]
        if x["hasreq"] and getattr(e, "request", None) is not req:
            x["hasreq"] = False
    return {"ev": [{"e": "Start", "kind": "mm"},
                   {"e": "Mm", "m": case["m"], "respb": list(case["respb"]), "out": out, "x": x}, {"e": "End"}], "exc": exc}


def run_state(case: dict[str, Any]) -> dict[str, Any]:
    st = ECUState()
    s, sec = int(case["s"]), int(case["sec"])
    exc = None

    def snap() -> tuple[int, int]:
        lv = st.security_access_level
        return int(st.session), -1 if lv is None else int(lv)

    if case["op"] == "new":
        s, sec = 0, -1
        s2, sec2 = snap()
    else:
        st.session = s
        st.security_access_level = None if sec < 0 else sec
        if case["op"] == "reset":
            st.reset()
            s2, sec2 = snap()
        else:
            try:
                d = json.loads(json.dumps(st.__dict__))
                s2 = int(d["session"])
                sec2 = -1 if d["security_access_level"] is None else int(d["security_access_level"])
            except Exception as e:  # noqa: BLE001
                s2, sec2, exc = -2, -2, repr(e)[:160]
    return {"ev": [{"e": "Start", "kind": "state"},
                   {"e": "St", "op": case["op"], "s": s, "sec": sec, "s2": s2, "sec2": sec2}, {"e": "End"}], "exc": exc}


class _Colour(enum.Enum):
    RED = "red"
    DEEP = "deep-blue"


class _Num(enum.Enum):
    SEVEN = 7
    ZERO = 0


def _field_value(f: dict[str, Any]) -> Any:
    t = f["t"]
    if t == "int":
        return int(f["i"])
    if t == "str":
        return str(f["s"])
    if t == "bytes":
        return bytes(f["b"])
    if t == "lbytes":
        return [bytes(x) for x in f["l"]]
    if t == "enumi":
        return _Num(int(f["i"]))
    if t == "enums":
        return _Colour(str(f["s"]))
    return None


def run_json(case: dict[str, Any]) -> dict[str, Any]:
    """A vendor ECUProperties subclass (the documented extension point) with the fields of the case."""
    fields = [{"k": f["k"], "t": f["t"], "i": int(f.get("i", 0)), "s": str(f.get("s", "")), "b": list(f.get("b", [])),
               "l": [list(x) for x in f.get("l", [])]} for f in case["fields"]]
    cls = make_dataclass("X24Properties", [(f["k"], Any, field(default=None)) for f in fields], bases=(ECUProperties,))
    obj = cls(**{f["k"]: _field_value(f) for f in fields})
    indent = None if case["indent"] < 0 else int(case["indent"])
    valid, okeys, dec, exc = False, [], [], None
    try:
        text = obj.to_json(indent=indent) if indent is not None else obj.to_json()
        pairs = json.loads(text, object_pairs_hook=lambda p: p)
        valid = isinstance(pairs, list)
        for k, v in pairs if valid else []:
            okeys.append([ord(ch) for ch in k])
            d: dict[str, Any] = {"k": k, "t": "other", "i": 0, "s": "", "ls": []}
            if v is None:
                d["t"] = "null"
            elif isinstance(v, bool):
                pass
            elif isinstance(v, int) and abs(v) < 2**30:
                d.update(t="int", i=v)
            elif isinstance(v, str):
                d.update(t="str", s=v)
            elif isinstance(v, list) and all(isinstance(x, str) for x in v):
                d.update(t="lstr", ls=list(v))
            dec.append(d)
    except Exception as e:  # noqa: BLE001
        exc = repr(e)[:160]
    return {"ev": [{"e": "Start", "kind": "json"},
                   {"e": "Js", "valid": valid, "okeys": okeys, "fields": fields, "dec": dec}, {"e": "End"}], "exc": exc}


# ------------------------------------------------------------------ cyclic tester present
class LifeEnv(ScriptEnv):
    def __init__(self, mode: str) -> None:
        super().__init__()
        self.mode = mode
        self.cur = "answer"
        self.ev: list[dict[str, Any]] = []
        self.bg = asyncio.Event()

    def on_write(self, data: bytes) -> str | None:
        self.cur = self.mode
        if data[:1] == b"\x3e" and task_name() != MAIN:
            self.ev.append({"e": "Bg", "t": now_ms()})
            self.bg.set()
        return "WConnErr" if self.cur == "connerr" else None

    def on_read(self, timeout: float | None) -> tuple[str, bytes | None]:
        if self.cur == "answer":
            return "Final", bytes([0x7E, 0x00])
        if self.cur == "nrc":
            return "Final", bytes([0x7F, 0x3E, 0x22])
        return "Timeout", None


async def _guard(coro: Any, cap: float) -> tuple[str, Any]:
    try:
        return "ok", await asyncio.wait_for(coro, cap)
    except TimeoutError as e:
        if isinstance(e, UDSException):
            return "raise", e
        return "hang", None
    except Exception as e:  # noqa: BLE001
        return "raise", e


def run_life(case: dict[str, Any]) -> dict[str, Any]:
    tmo = int(case.get("tmo", 500))
    box: dict[str, Any] = {"ev": [], "exc": None}

    async def body() -> None:
        env = LifeEnv(case["init"])
        box["env"] = env
        ev = env.ev
        ev.append({"e": "Start", "kind": "life", "tmo": tmo})
        ev.append({"e": "Env", "mode": case["init"], "t": now_ms()})
        ecu = ECU(ScriptedTransport(env), timeout=tmo / 1000, max_retry=0)

        async def step(op: str) -> None:
            t0 = now_ms()
            if op in MODES:
                env.mode = MODES[op]
                ev.append({"e": "Env", "mode": env.mode, "t": t0})
                return
            i, ret = 0, "ok"
            if op in INTERVALS:
                i = INTERVALS[op]
                how, r = await _guard(ecu.start_cyclic_tester_present(i / 1000), 30)
                ret, name = how, "start"
            elif op == "stop":
                how, r = await _guard(ecu.stop_cyclic_tester_present(), 30)
                ret, name = how, "stop"
            elif op == "wait":
                how, r = await _guard(ecu.wait_for_ecu(WAIT_S), 120)
                ret, name = ("true" if r else "false") if how == "ok" else how, "wait"
            elif op == "fg":
                how, r = await _guard(ecu.ping(), 60)
                ret, name = "resp" if how == "ok" else how, "fg"
            else:
                env.bg.clear()
                try:
                    await asyncio.wait_for(env.bg.wait(), SYNC_CAP_MS / 1000)
                    ret = "ok"
                except TimeoutError:
                    ret = "none"
                r, name = None, "sync"
            if isinstance(r, BaseException) and box["exc"] is None:
                box["exc"] = f"{op}: {r!r}"[:160]
            ev.append({"e": "Op", "op": name, "i": i, "ret": ret, "t0": t0, "t1": now_ms()})

        async def obs() -> None:
            t0 = now_ms()
            await asyncio.sleep(OBS_MS / 1000)
            ev.append({"e": "Obs", "t0": t0, "t1": now_ms()})

        for op in case["script"]:
            await step(op)
            if op != "sync":
                await obs()
        await step("fg")
        await obs()
        ev.append({"e": "Ret"})

    async def main() -> None:
        await asyncio.create_task(body(), name=MAIN)

    try:
        vloop.run(main(), horizon=3600)
    except (TimeoutError, vloop.BlockedForever):
        box["exc"] = "hang"
    env = box.get("env")
    ev = env.ev if env is not None else [{"e": "Start", "kind": "life", "tmo": tmo}]
    if env is not None:
        env.dispose()
    return {"ev": ev, "exc": box["exc"]}


RUNNERS = {"call": run_call, "stack": run_stack, "sugg": run_sugg, "exc": run_exc, "cls": run_cls, "mm": run_mm,
           "state": run_state, "json": run_json, "life": run_life}


def run_case(case: dict[str, Any]) -> dict[str, Any] | None:
    return RUNNERS[case["kind"]](case)
