"""X18: drive the REAL gallia.cli.cursed_hr.CursedHR with a scripted user on a fake terminal (harness/x18_fake.py),
on log files written by gallia's own writer (harness.c17_penlog.write_log, reused by import), and project what the
user sees after every key onto the records the harness wrote (ground truth = what the harness logged, never read
back from the viewer).  Nothing in here judges the property.
"""

from __future__ import annotations

import random
import re
import shutil
import signal
import tempfile
import traceback
import unicodedata
from pathlib import Path
from typing import Any

from harness import c17_penlog as P
from harness import x18_fake as F
from harness.common import Machinery

# ---------------------------------------------------------------------------------------------------------------
# payload alphabet: narrow, printable letters, every character used at most once per log => a non-empty piece of a
# message shown on the screen names its record, line and offset
_RANGES = [(0x100, 0x24F), (0x400, 0x52F), (0x531, 0x556), (0x561, 0x586), (0x10A0, 0x10FF), (0x1200, 0x137F),
           (0x1400, 0x167F), (0x1E00, 0x1EFF), (0xA500, 0xA62B), (0x12000, 0x12399), (0x13000, 0x1342E),
           (0x14400, 0x14646), (0x16800, 0x16A38)]


def _alphabet() -> list[str]:
    out = []
    for lo, hi in _RANGES:
        for cp in range(lo, hi + 1):
            ch = chr(cp)
            if (unicodedata.category(ch) in ("Lu", "Ll", "Lo") and unicodedata.east_asian_width(ch) in ("N", "Na")
                    and len(ch.splitlines()) == 1 and ch.splitlines()[0] == ch and not ch.isspace()
                    and unicodedata.combining(ch) == 0 and len(ch.lower()) == 1 and len(ch.upper()) == 1):
                out.append(ch)
    return out


ALPHABET = _alphabet()
_PAYLOAD = set(ALPHABET) | {P.MARK_L, P.MARK_R}
MODULE = P.LOGGER

# ---------------------------------------------------------------------------------------------------------------
# log specifications: {"kind": "x18", "recs": [{"level": name, "lines": [len, ...], "tags": None | [str]}], "name": str}
_orig_records_of = P.records_of


def _records_of(spec: dict[str, Any]) -> list[dict[str, Any]]:
    if spec.get("kind") != "x18":
        return _orig_records_of(spec)
    recs = []
    k = 0
    for r in spec["recs"]:
        lines = []
        for n in r["lines"]:
            if k + n > len(ALPHABET):
                raise Machinery("x18: log needs more distinct characters than the payload alphabet has")
            lines.append("".join(ALPHABET[k:k + n]))
            k += n
        recs.append({"level": r["level"], "msg": "\n".join(lines), "args": None, "tags": r.get("tags"), "exc": None,
                     "dt_us": int(r.get("dt_us", 1000 + 37 * len(recs)))})
    return recs


P.records_of = _records_of  # reuse write_log unchanged with one more spec kind (this process only)


class Log:
    """a log written by the real writer + the harness's ground truth about it"""

    def __init__(self, spec: dict[str, Any], directory: Path) -> None:
        self.spec = spec
        self.w = P.write_log(spec, directory, spec.get("name", "log"))
        self.path = self.w.zst
        self.n = self.w.n
        self.prio = [P.LEVELS[s["level"]][1] for s in self.w.seen]
        self.tags = [s["tags"] for s in self.w.seen]
        self.text = [s["text"] for s in self.w.seen]
        self.lines = [t.split("\n") for t in self.text]
        if spec.get("container") == "plain":
            p = directory / (spec.get("name", "log") + ".json")
            p.write_bytes(self.w.raw)
            self.path = p
        elif spec.get("container") == "gz":
            import gzip

            p = directory / (spec.get("name", "log") + ".json.gz")
            with gzip.open(p, "wb") as f:
                f.write(self.w.raw)
            self.path = p

    def ground(self) -> list[dict[str, Any]]:
        """per record (file order, ids 1..N): priority, tags, lengths of its message lines"""
        return [{"id": i + 1, "prio": self.prio[i], "tags": self.tags[i] or [], "tagged": self.tags[i] is not None,
                 "lens": [len(x) for x in self.lines[i]]} for i in range(self.n)]

    # ---- naming a piece of text shown on the screen
    def candidates(self, chunk: str) -> list[tuple[int, int, int]]:
        """all (record id, line index, offset) at which `chunk` occurs in a message line"""
        out = []
        for i, ls in enumerate(self.lines):
            for l, s in enumerate(ls):
                if chunk == "":
                    if s == "":
                        out.append((i + 1, l, 0))
                    continue
                a = s.find(chunk)
                while a >= 0:
                    out.append((i + 1, l, a))
                    a = s.find(chunk, a + 1)
        return out


def chunk_of(row: str) -> str | None:
    """the piece of a message in a screen line (after the prefix), None if the line shows no message text"""
    idx = next((j for j, ch in enumerate(row) if ch in _PAYLOAD), None)
    if idx is None:
        return None
    if row[idx] == P.MARK_R:
        while idx > 0 and row[idx - 1].isdigit():
            idx -= 1
    return row[idx:]


NO_ENTRIES = "No entries found"


def project(log: Log, snap: dict[str, Any]) -> dict[str, Any]:
    """what the user sees -> rows named by the harness's ground truth.
    rows: [{r, l, a, b}] for the screen lines above the status line that show message text (top to bottom);
    kind: 'log' | 'none' (the no-entries message) | 'other' (help text, loading message, ...)"""
    h, _w = snap["size"]
    body = snap["lines"][: h - 1]
    status = snap["lines"][h - 1] if h >= 1 else ""
    rows: list[dict[str, Any]] = []
    other = 0
    screen_rows: list[int] = []
    prev: tuple[int, int, int] | None = None
    pending: list[tuple[int, list[tuple[int, int, int]], int]] = []
    for y, text in enumerate(body):
        if text == "":
            continue
        ch = chunk_of(text)
        if ch is None:
            other += 1
            continue
        cands = log.candidates(ch)
        if not cands:
            # marker digits only, or text the harness did not write
            cands = log.candidates(ch.strip())
        if not cands:
            other += 1
            continue
        pending.append((y, cands, len(ch)))
    # contextual choice among candidates (ambiguous only for pieces made of marker digits)
    for k, (y, cands, n) in enumerate(pending):
        pick = None
        if prev is not None:
            for c in cands:
                if c == prev:
                    pick = c
                    break
        if pick is None and len(cands) > 1 and k + 1 < len(pending):
            nxt = pending[k + 1][1]
            for c in cands:
                r, l, a = c
                end = a + n
                cont = (r, l, end) if end < len(log.lines[r - 1][l]) else (r, l + 1, 0)
                if cont in nxt or (cont[1] >= len(log.lines[r - 1]) and any(x[1] == 0 and x[2] == 0 for x in nxt)):
                    pick = c
                    break
        if pick is None:
            pick = cands[0]
        r, l, a = pick
        b = a + n
        rows.append({"r": r, "l": l, "a": a, "b": b})
        screen_rows.append(y)
        prev = (r, l, b) if b < len(log.lines[r - 1][l]) else (r, l + 1, 0)
    joined = "\n".join(body)
    kind = "log" if rows else ("none" if NO_ENTRIES in joined else "other")
    cy, cx = snap["cur"]
    cur = screen_rows.index(cy) + 1 if cy in screen_rows else 0
    return {"kind": kind, "rows": rows, "cur": cur, "cy": cy, "cx": cx, "other": other, "status": status,
            "h": h, "w": _w, "marked": [i + 1 for i, y in enumerate(screen_rows) if snap["rev"][y]]}


# ---------------------------------------------------------------------------------------------------------------
# one session of the real viewer

class _Watch:
    def __init__(self, cpu_seconds: float) -> None:
        self.s = cpu_seconds

    def __enter__(self) -> None:
        def fire(_sig: int, _frm: Any) -> None:
            raise F.Hang()

        self.old = signal.signal(signal.SIGVTALRM, fire)
        signal.setitimer(signal.ITIMER_VIRTUAL, self.s)

    def __exit__(self, *a: Any) -> None:
        signal.setitimer(signal.ITIMER_VIRTUAL, 0)
        signal.signal(signal.SIGVTALRM, self.old)


def _where(tb: Any) -> dict[str, Any]:
    """innermost frame inside cursed_hr.py: function name + source line (text, not number)"""
    frames = traceback.extract_tb(tb)
    own = [f for f in frames if f.filename.endswith("cursed_hr.py")]
    f = own[-1] if own else frames[-1]
    return {"func": f.name, "code": (f.line or "").strip()[:120]}


def run_session(path: Path, script: list[Any], size: tuple[int, int], *, priority: str | None = None,
                filters: list[str] | None = None, prefix: bool = True, relative: bool = False,
                cpu_budget: float = 20.0, mutant: str | None = None) -> dict[str, Any]:
    """Run CursedHR on `path` with the scripted keys.  Returns the snapshots taken each time the program waited for a
    key (snaps[0] = first screen, snaps[i] = screen after the i-th key was handled) and how the session ended."""
    from gallia.cli import cursed_hr as CH
    from gallia.log import PenlogPriority

    snaps: list[dict[str, Any]] = []

    def on_key(win: F.FakeWindow) -> None:
        snaps.append({"lines": win.lines(), "cur": (win.y, win.x), "rev": win.reversed_lines(), "size": (win.h, win.w)})

    win = F.FakeWindow(size, script, on_key)
    win.mutant = mutant
    fake = F.FakeCurses(win)
    real_curses = CH.curses
    real_debug = CH.CursedHR.debug_log
    CH.curses = fake  # type: ignore[assignment]
    CH.CursedHR.debug_log = lambda self, msg: None  # type: ignore[method-assign]  (writes /tmp/cursed_log)
    end: dict[str, Any]
    try:
        with _Watch(cpu_budget):
            try:
                CH.CursedHR(Path(path), PenlogPriority.from_str(priority) if priority else PenlogPriority.DEBUG,
                            list(filters) if filters else None, prefix, relative)
                end = {"how": "quit"}
            except F.EndOfScript:
                end = {"how": "end"}
            except F.Hang:
                end = {"how": "hang"}
            except Exception as e:  # noqa: BLE001  (recorded, judged by TLC)
                end = {"how": "crash", "exc": type(e).__name__, "msg": str(e)[:200], **_where(e.__traceback__)}
    finally:
        CH.curses = real_curses
        CH.CursedHR.debug_log = real_debug  # type: ignore[method-assign]
    end["keys_used"] = win.pos
    end["curses_ended"] = fake.ended
    return {"snaps": snaps, "end": end}


# ---------------------------------------------------------------------------------------------------------------
def workdir() -> Path:
    return Path(tempfile.mkdtemp(prefix="x18-"))


def cleanup(d: Path) -> None:
    shutil.rmtree(d, ignore_errors=True)


LEVEL_OF_KEY = {"c": "CRITICAL", "e": "ERROR", "w": "WARNING", "n": "NOTICE", "i": "INFO", "d": "DEBUG", "t": "TRACE",
                "m": "EMERGENCY", "a": "ALERT"}
PRIO_OF_KEY = {"m": 0, "a": 1, "c": 2, "e": 3, "w": 4, "n": 5, "i": 6, "d": 7, "t": 8}


def gen_log_spec(rnd: random.Random, n: int, *, name: str, maxlines: int = 3, longline: int = 0,
                 levels: list[str] | None = None) -> dict[str, Any]:
    levels = levels or ["ERROR", "WARNING", "NOTICE", "INFO", "INFO", "DEBUG", "DEBUG", "TRACE"]
    recs = []
    for _ in range(n):
        nl = 1 if rnd.random() < 0.5 else rnd.randint(1, maxlines)
        lens = [rnd.randint(3, 9) for _ in range(nl)]
        if longline and rnd.random() < 0.3:
            lens[rnd.randrange(nl)] = rnd.randint(longline // 2, longline)
        k = rnd.random()
        tags = None if k < 0.45 else (["ta"] if k < 0.7 else ["tb"] if k < 0.85 else ["ta", "tb"])
        recs.append({"level": rnd.choice(levels), "lines": lens, "tags": tags})
    return {"kind": "x18", "recs": recs, "name": name}
