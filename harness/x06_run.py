"""X06 — run the REAL ResetScanner (`gallia scan uds reset`) on one case and record the trace.

Stack: ResetScanner.run() (setup -> main -> teardown, config object built from option STRINGS)
  -> ECU / UDSClient (real; wait_for_ecu, check_and_set_session, leave_session, power_cycle are gallia's)
  -> TCPLinesTransport over harness.streams (only asyncio.open_connection is replaced)
  -> TCPUDSServerTransport.handle_client (real) -> ResetServer (scripted UDSServer subclass, below).
Virtual time (harness.vloop): the 0.5 s ping period, the 2 s request timeout, the 10 s wait cost nothing.
There is NO power supply (power_supply=None): ECU.power_cycle() returns False, `--power-cycle` cannot be
configured (the config class refuses it without a power supply URI).

A case is plain JSON (replayable):
  {"ecu": model, "cfg": {option values as typed}, "den": {what the option strings denote}, "origin": str}
ECU model:
  {"sessions": [..]            sessions the ECU has; every one can be entered from every one
   "sess_read": bool           22 F1 86 readable (else requestOutOfRange)
   "fallback": bool            a reset brings the ECU back to the default session
   "down": ms                  silence after a positive reset response (requests are dropped, not queued)
   "drop": "no"|"fin"|"rst"    the connection is closed by the ECU right after the positive reset response
   "refuse": ms                after a drop, new connections are refused for that long
   "cls": {session: {sf: ["POS"] | ["POS", down, drop, refuse] | ["NS", nrc] | ["NEG", nrc] | ["SIL"] | ["SIL", drop, refuse]}}
                               (everything else: ["NS", 0x12] subFunctionNotSupported)}
Nothing is judged here.
"""

from __future__ import annotations

import asyncio
import re
from typing import Any

from gallia.services.uds.core import service
from gallia.services.uds.core.constants import UDSIsoServices
from gallia.services.uds.server import UDSServer

from harness import vloop
from harness.c10_stack import TARGET, _Raw, capture_results, serving
from harness.streams import call_at_ms
from harness.vloop import now_ms

# response classes shared with spec/ResetScanContract.tla
NS, NEG, NONE, POS = 0, 1, 3, 4
NS_NRCS = [0x12, 0x7E, 0x11, 0x7F]  # the documented "not supported" family for sub-functions
NEG_NRCS = [0x22, 0x33, 0x31, 0x13, 0x10, 0x24, 0x72]  # anything else (no busy 0x21 / pending 0x78: C04's subject)
DEFAULT_CLS = ["NS", 0x12]


def classify(resp: bytes | None) -> tuple[int, int]:
    if resp is None:
        return NONE, 0
    if len(resp) >= 3 and resp[0] == 0x7F:
        return (NS if resp[2] in NS_NRCS else NEG), resp[2]
    return POS, 0


def cls_of(model: dict[str, Any], session: int, sf: int) -> list[Any]:
    return list(model["cls"].get(str(session), {}).get(str(sf), DEFAULT_CLS))


def cls_code(c: list[Any]) -> tuple[int, int]:
    k = c[0]
    if k == "POS":
        return POS, 0
    if k == "SIL":
        return NONE, 0
    return (NS if k == "NS" else NEG), int(c[1])


class ResetServer(UDSServer):
    """Scripted ECU; DiagnosticSessionControl goes through gallia's default chain, the rest is the model's."""

    def __init__(self, model: dict[str, Any], mutant: str | None = None) -> None:
        super().__init__()
        self.model = model
        self.sessions = sorted(model["sessions"])
        self.sess_read = bool(model.get("sess_read", True))
        self.mutant = mutant
        self.log: list[dict[str, Any]] = []
        self.up_at = 0  # virtual ms from which the ECU answers again
        self.down_total = 0
        self.listener: Any = None
        self.refused_until = 0
        self._sup = {s: {UDSIsoServices.DiagnosticSessionControl: self.sessions} for s in self.sessions}

    @property
    def supported_services(self) -> dict[int, dict[UDSIsoServices, list[int] | None]]:
        return self._sup

    async def respond_after_default(self, request: service.UDSRequest) -> service.UDSResponse | None:
        return None

    # ---- connection handling of the model
    def _drop_connections(self, how: str, refuse: int) -> None:
        lst = self.listener
        if lst is None:
            return
        if refuse > 0:
            lst.accepting = False
            self.refused_until = now_ms() + refuse
            call_at_ms(self.refused_until, self._accept_again)
        for w in lst.wires:
            if w.eof_sent or w.broken or w.writer.is_closing():
                continue
            w.on_out = None  # bytes written by the client after the close go nowhere
            if how == "rst":
                w.reset()
            else:
                w.eof()
            if w.on_client_close is not None:
                w.on_client_close()  # the server side's reader sees EOF: handle_client ends

    def _accept_again(self) -> None:
        if self.listener is not None:
            self.listener.accepting = True

    def _rec(self, truth: int, pdu: bytes, resp: Any, w: int, d: int) -> None:
        r, nrc = classify(None if resp is None else bytes(resp.pdu))
        self.log.append({"ms": now_ms(), "t": truth, "p": list(pdu[:3]), "n": len(pdu), "r": r, "c": nrc,
                         "w": w, "d": d})

    async def respond(self, request: service.UDSRequest) -> Any:
        pdu = bytes(request.pdu)
        truth = self.state.session
        now = now_ms()
        if now < self.up_at:
            self._rec(truth, pdu, None, self.down_total, 0)  # rebooting: the request is lost
            return None
        d = 0
        if len(pdu) == 2 and pdu[0] == 0x10 and (pdu[1] & 0x7F) != 0:
            resp = await super().respond(request)
        elif pdu == b"\x22\xf1\x86":
            resp = _Raw(bytes([0x62, 0xF1, 0x86, truth])) if self.sess_read else _Raw(b"\x7f\x22\x31")
        elif pdu[0] == 0x3E and len(pdu) == 2:
            resp = None if pdu[1] & 0x80 else _Raw(b"\x7e\x00")
        elif pdu[0] == 0x11 and len(pdu) == 2 and 1 <= pdu[1] <= 0x7F:
            sf = pdu[1]
            c = cls_of(self.model, truth, sf)
            if self.mutant == "fake-answers-positive-outside-model" and c[0] == "NS" and sf == 2:
                c = ["POS"]
            k = c[0]
            if k == "POS":
                d = int(c[1]) if len(c) > 1 else int(self.model.get("down", 0))
                how = str(c[2]) if len(c) > 2 else str(self.model.get("drop", "no"))
                refuse = int(c[3]) if len(c) > 3 else int(self.model.get("refuse", 0))
                resp = _Raw(bytes([0x51, sf]))
                if self.model.get("fallback", True):
                    self.state.reset()
                self.up_at, self.down_total = now + d, d
                if how != "no":
                    # after handle_client has written the response (it runs on synchronously after respond())
                    asyncio.get_running_loop().call_soon(self._drop_connections, how, refuse)
            elif k == "SIL":
                resp = None
                if len(c) > 1 and c[1] != "no":  # resets without answering and drops the line
                    asyncio.get_running_loop().call_soon(self._drop_connections, str(c[1]), int(c[2]) if len(c) > 2 else 0)
            else:
                resp = _Raw(bytes([0x7F, 0x11, int(c[1])]))
        else:
            resp = _Raw(bytes([0x7F, pdu[0], 0x11]))
        self._rec(truth, pdu, resp, 0, d)
        return resp


_RE_OK = re.compile(r"^\s*ok\s*:\s*\[(.*)\]\s*$", re.I)
_RE_TO = re.compile(r"^\s*timeout\s*:\s*\[(.*)\]\s*$", re.I)
_RE_ERR = re.compile(r"^\s*with error\s*:\s*\[(.*)\]\s*$", re.I)
_RE_PAIR = re.compile(r"\{\s*(\d+)\s*:\s*(?:<[^:>]*:\s*(\d+)\s*>|(\d+))\s*\}")


def _ints(body: str) -> list[int] | None:
    body = body.strip()
    if not body:
        return []
    try:
        return [int(x.strip(), 0) for x in body.split(",")]
    except ValueError:
        return None


def parse_report(msg: str) -> dict[str, Any] | None:
    """The three result-tagged summary records are the scanner's report.  None: not a summary record;
    {"k": "?"}: looks like one but is not understood (machinery failure in the driver, never a verdict)."""
    m = _RE_OK.match(msg)
    if m:
        v = _ints(m.group(1))
        return {"k": "?", "msg": msg} if v is None else {"k": "ok", "l": v}
    m = _RE_TO.match(msg)
    if m:
        v = _ints(m.group(1))
        return {"k": "?", "msg": msg} if v is None else {"k": "to", "l": v}
    m = _RE_ERR.match(msg)
    if m:
        body = m.group(1).strip()
        pairs = [[int(a), int(b or c)] for a, b, c in _RE_PAIR.findall(body)]
        if body and len(pairs) != body.count("{"):
            return {"k": "?", "msg": msg}
        return {"k": "err", "l": pairs}
    return None


def run_case(case: dict[str, Any], mutant: str | None = None) -> dict[str, Any]:
    from gallia.commands.scan.uds.reset import ResetScanner, ResetScannerConfig
    import gallia.services.uds.server as server_mod

    ecu, cfg, den = case["ecu"], case["cfg"], case["den"]
    out: dict[str, Any] = {"ev": []}
    holder: dict[str, Any] = {"n": 0}

    def flush() -> None:
        srv = holder.get("server")
        if srv is None:
            return
        for e in srv.log[holder["n"]:]:
            out["ev"].append({"k": "q", **e})
        holder["n"] = len(srv.log)

    def sink(msg: str) -> None:
        flush()  # requests seen by the ECU before this record was emitted
        r = parse_report(msg)
        if r is not None:
            out["ev"].append(r)

    async def go() -> None:
        server = ResetServer(ecu, mutant=mutant)
        holder["server"] = server
        kw: dict[str, Any] = dict(target=TARGET, ping=bool(cfg.get("ping", True)),
                                  tester_present=bool(cfg.get("tp", False)), properties=bool(cfg.get("props", False)),
                                  skip_check_session=bool(cfg.get("skip_check", False)))
        if cfg.get("sessions") is not None:
            kw["sessions"] = cfg["sessions"]
        if cfg.get("skip"):
            kw["skip"] = cfg["skip"]
        for k in ("timeout", "max_retries"):
            if cfg.get(k) is not None:
                kw[k] = cfg[k]
        with serving(server) as lst:
            server.listener = lst
            sc = ResetScanner(ResetScannerConfig(**kw))
            try:
                await sc.run()
                out["done"] = "ok"
            except SystemExit as e:
                out["done"] = f"exit{e.code}"
            except Exception as e:  # noqa: BLE001
                out["done"] = f"exc:{type(e).__name__}"
            out["parsed"] = {"sessions": sc.config.sessions, "skip": sc.config.skip}
        flush()

    real_time = server_mod.time
    server_mod.time = lambda: 0.0  # type: ignore[assignment]  # no inactivity reset of the ECU state (not modelled)
    try:
        with capture_results(sink):
            try:
                vloop.run(go(), horizon=float(cfg.get("horizon", 1e6)))
            except (TimeoutError, vloop.BlockedForever):
                flush()
                out["done"] = "hang"
            except SystemExit as e:  # raised inside a task
                flush()
                out.setdefault("done", f"exit{e.code}")
    finally:
        server_mod.time = real_time  # type: ignore[assignment]
    sessions = sorted(ecu["sessions"])
    tab = []
    for s in sessions:
        row = []
        for sf in range(1, 0x80):
            r, nrc = cls_code(cls_of(ecu, s, sf))
            row.append(r * 256 + nrc)
        tab.append([s, row])
    has = den["sessions"] is not None
    return {
        "C": {"has": has, "req": den["sessions"] or [], "skipAll": den["skip_all"],
              "skip": [[s, i] for s, i in den["skip"]], "check": not bool(cfg.get("skip_check", False)),
              "start": 1},
        "E": {"tab": tab, "refuse": _max_refuse(ecu)},
        "ev": out["ev"],
        "done": out.get("done", "?"),
        "origin": case.get("origin", ""),
    }


def _max_refuse(ecu: dict[str, Any]) -> int:
    """Longest refusal window the model can produce (0 if no positive reset drops the connection)."""
    m = 0
    for d in ecu["cls"].values():
        for c in d.values():
            if c[0] == "POS":
                how = c[2] if len(c) > 2 else ecu.get("drop", "no")
                ref = c[3] if len(c) > 3 else ecu.get("refuse", 0)
                if how != "no":
                    m = max(m, int(ref))
    return m
