"""X09 — run the REAL `fuzz uds pdu` command (PDUFuzzer, through AsyncScript.run(): setup, main, teardown)
on one case and record the trace.  Nothing is judged here.

A case is plain JSON (replayable):
  {"ecu": {FuzzServer model}, "seed": RNG seed,
   "cfg": {option values as the user would type them (strings go through gallia's own parsers)},
   "den": {what those strings denote: service, dids, sessions, min, max, iterations, prefix}}

RNG: the command documents no seed option; its payloads come from the module-level `random` functions.
The harness calls `random.seed(case["seed"])` in the harness process immediately before the run.

Trace events, in the order they happened (ECU side and the command's result-tagged log records interleaved):
  {"k":"q", "t": ground-truth session before, "c": connection number, "p": request bytes,
   "r": "pos"|"neg"|"sil"|"mis"|"mal"|"drop", "nrc": n, "fb" / "ib": the ECU fell back to its default session
   by itself after / before this request}
  {"k":"start","s"}  {"k":"end","s"}  {"k":"nrc","code","n"}  {"k":"pos","n"}  {"k":"tmo","n"}
  {"k":"ill","n"}  {"k":"fc","n"}
"""

from __future__ import annotations

import asyncio
import random
import re
from typing import Any

from gallia.services.uds.core.constants import UDSErrorCodes

from harness import vloop
from harness.c10_stack import TARGET, capture_results, serving
from harness.x09_ecu import FuzzServer

_RE_START = re.compile(r"^\s*starting scan in session\W*(0x[0-9a-f]+|\d+)\s*$", re.I)
_RE_END = re.compile(r"^\s*scan in session\W*(0x[0-9a-f]+|\d+)\s+is complete\W*$", re.I)
_RE_POS = re.compile(r"^\s*positive\D*?(\d+)\s*$", re.I)
_RE_TMO = re.compile(r"^\s*timeouts?\D*?(\d+)\s*$", re.I)
_RE_ILL = re.compile(r"^\s*illegal\D*?(\d+)\s*$", re.I)
_RE_FC = re.compile(r"^\s*flow control\D*?(\d+)\s*$", re.I)
_RE_NRC = re.compile(r"^\s*([A-Za-z_]\w*)\s*:\s*(\d+)\s*$")


def parse_record(msg: str) -> dict[str, Any] | None:
    m = _RE_START.match(msg)
    if m:
        return {"k": "start", "s": int(m.group(1), 0)}
    m = _RE_END.match(msg)
    if m:
        return {"k": "end", "s": int(m.group(1), 0)}
    for rx, k in ((_RE_POS, "pos"), (_RE_TMO, "tmo"), (_RE_ILL, "ill"), (_RE_FC, "fc")):
        m = rx.match(msg)
        if m:
            return {"k": k, "n": int(m.group(1))}
    m = _RE_NRC.match(msg)
    if m and m.group(1) in UDSErrorCodes.__members__:
        return {"k": "nrc", "code": int(UDSErrorCodes[m.group(1)]), "n": int(m.group(2))}
    return None


def run_case(case: dict[str, Any], mutant: str | None = None) -> dict[str, Any]:
    from gallia.commands.fuzz.uds.pdu import PDUFuzzer, PDUFuzzerConfig

    ecu, cfg, den = case["ecu"], case["cfg"], case["den"]
    out: dict[str, Any] = {"ev": [], "other": []}
    holder: dict[str, Any] = {"n": 0}

    def flush() -> None:
        srv = holder.get("server")
        if srv is None:
            return
        for e in srv.log[holder["n"]:]:
            out["ev"].append({"k": "q", "t": e["t"], "c": e["c"], "p": e["p"], "r": e["r"], "nrc": e["nrc"],
                              "fb": e["fb"], "ib": e["ib"]})
        holder["n"] = len(srv.log)

    def sink(msg: str) -> None:
        flush()  # requests seen by the ECU before this record was emitted
        r = parse_record(msg)
        if r is not None:
            out["ev"].append(r)
        else:
            out["other"].append(msg[:80])

    async def go() -> None:
        server = FuzzServer(ecu, mutant=mutant)
        holder["server"] = server
        kw: dict[str, Any] = dict(target=TARGET, dids=cfg["dids"], power_cycle_sleep=0.0)
        for k in ("sessions", "service", "min_length", "max_length", "iterations", "prefixed_payload",
                  "tester_present", "ping", "properties", "timeout", "max_retries"):
            if cfg.get(k) is not None:
                kw[k] = cfg[k]
        with serving(server) as lst:
            inner = lst.on_accept

            def accept(wire: Any) -> None:
                server.conn += 1
                assert inner is not None
                inner(wire)

                def drop(wire: Any = wire) -> None:
                    # the ECU closes the connection: the client sees EOF, nothing the client writes
                    # afterwards is served, the server loop of this connection ends
                    wire.eof()
                    wire.on_out = lambda data: None
                    if wire.on_client_close is not None:
                        wire.on_client_close()
                        wire.on_client_close = None
                    holder["refuse_left"] = int(ecu.get("refuse_next", 0))
                    down = ecu.get("down_after_drop")
                    if down:
                        # the ECU is unreachable for `down` (virtual) seconds: connection attempts are refused
                        lst.accepting = False
                        asyncio.get_running_loop().call_later(float(down), lambda: setattr(lst, "accepting", True))

                server.drop_connection = drop

            lst.on_accept = accept
            # "refuse_next": k -- after a drop the next k connection attempts are refused (count based)
            listener_open = asyncio.open_connection

            async def opener(*a: Any, **k: Any) -> Any:
                if holder.get("refuse_left", 0) > 0:
                    holder["refuse_left"] -= 1
                    lst.refused += 1
                    await asyncio.sleep(0)
                    raise ConnectionRefusedError("fake: connection refused")
                return await listener_open(*a, **k)

            asyncio.open_connection = opener  # type: ignore[assignment]
            try:
                fz = PDUFuzzer(PDUFuzzerConfig(**kw))
            except Exception as e:  # noqa: BLE001
                out["done"] = f"cfg:{type(e).__name__}"
                asyncio.open_connection = listener_open  # type: ignore[assignment]
                return
            random.seed(case["seed"])
            try:
                rc = await fz.run()
                out["done"] = "ok" if not rc else f"exit{rc}"
            except SystemExit as e:
                out["done"] = f"exit{e.code}"
            except Exception as e:  # noqa: BLE001
                out["done"] = f"exc:{type(e).__name__}"
                out["exc"] = repr(e)[:200]
            finally:
                asyncio.open_connection = listener_open  # type: ignore[assignment]
            # let pending callbacks of the server side run
            await asyncio.sleep(0)
            out["refused"] = lst.refused
        flush()

    # the server loop's inactivity reset (10 s without a request) reads time.time(): give it the virtual clock
    import gallia.services.uds.server as server_mod

    real_time = server_mod.time
    server_mod.time = lambda: asyncio.get_event_loop().time()  # type: ignore[assignment]
    st = random.getstate()
    with capture_results(sink):
        try:
            vloop.run(go(), horizon=1e7)
        except (TimeoutError, vloop.BlockedForever):
            flush()
            out["done"] = "hang"
        except SystemExit as e:  # raised inside a task
            flush()
            out["done"] = f"exit{e.code}"
        finally:
            server_mod.time = real_time  # type: ignore[assignment]
            random.setstate(st)
    return {
        "C": {"svc": int(den["service"]), "dids": sorted(den["dids"]), "sessions": sorted(den["sessions"]),
              "min": int(den["min"]), "max": int(den["max"]), "iter": int(den["iterations"]),
              "prefix": list(bytes.fromhex(den["prefix"]))},
        "ev": out["ev"],
        "done": out.get("done", "?"),
        "refused": int(out.get("refused", 0)),
        "exc": out.get("exc", ""),
        "other": out["other"][:5],
        "origin": case.get("origin", ""),
    }


def run_prim(case: dict[str, Any], mutant: str | None = None) -> dict[str, Any]:
    """One run of a primitive command: case = {"prim": "rdbi"|"pdu", "ecu": {FuzzServer model, "service" = service
    id of the request}, "cfg": {"data_identifier"| "pdu", "session"}, "den": {"want": hex, "session": int (0 = none)}}."""
    from gallia.commands.primitive.uds.pdu import SendPDUPrimitive, SendPDUPrimitiveConfig
    from gallia.commands.primitive.uds.rdbi import ReadByIdentifierPrimitive, ReadByIdentifierPrimitiveConfig

    ecu, cfg, den = case["ecu"], case["cfg"], case["den"]
    out: dict[str, Any] = {"ev": []}
    holder: dict[str, Any] = {}

    async def go() -> None:
        server = FuzzServer(ecu, mutant=mutant)
        holder["server"] = server
        kw: dict[str, Any] = dict(target=TARGET)
        for k in ("data_identifier", "pdu", "session", "tester_present", "ping", "max_retry"):
            if cfg.get(k) is not None:
                kw[k] = cfg[k]
        with serving(server) as lst:
            inner = lst.on_accept

            def accept(wire: Any) -> None:
                server.conn += 1
                assert inner is not None
                inner(wire)

            lst.on_accept = accept
            try:
                if case["prim"] == "rdbi":
                    cmd: Any = ReadByIdentifierPrimitive(ReadByIdentifierPrimitiveConfig(**kw))
                else:
                    cmd = SendPDUPrimitive(SendPDUPrimitiveConfig(**kw))
            except Exception as e:  # noqa: BLE001
                out["done"] = f"cfg:{type(e).__name__}"
                return
            try:
                rc = await cmd.run()
                out["done"] = "ok" if not rc else f"exit{rc}"
            except SystemExit as e:
                out["done"] = f"exit{e.code}"
            except Exception as e:  # noqa: BLE001
                out["done"] = f"exc:{type(e).__name__}"
            if case["prim"] == "rdbi":
                out["result"] = None if cmd.result is None else list(cmd.result)
            await asyncio.sleep(0)

    import gallia.services.uds.server as server_mod

    real_time = server_mod.time
    server_mod.time = lambda: asyncio.get_event_loop().time()  # type: ignore[assignment]
    with capture_results(lambda m: None):
        try:
            vloop.run(go(), horizon=1e6)
        except (TimeoutError, vloop.BlockedForever):
            out["done"] = "hang"
        except SystemExit as e:
            out["done"] = f"exit{e.code}"
        finally:
            server_mod.time = real_time  # type: ignore[assignment]
    srv = holder.get("server")
    ev = [{"k": "q", "t": e["t"], "c": e["c"], "p": e["p"], "r": e["r"], "nrc": e["nrc"], "fb": e["fb"], "ib": e["ib"]}
          for e in (srv.log if srv is not None else [])]
    return {"kind": "prim", "prim": case["prim"], "want": list(bytes.fromhex(den["want"])),
            "session": int(den["session"]), "ev": ev, "done": out.get("done", "?"),
            "result": out.get("result"), "origin": case.get("origin", "")}
