"""X23 -- families of cases for harness.x23_run.run_case (plain JSON).  Nothing here knows what the transports should
do: the cases only script what the application calls and what is on the bus."""

from __future__ import annotations

import errno
import itertools
import random
from typing import Any

FD_LENS = [0, 1, 2, 3, 4, 5, 6, 7, 8, 12, 16, 20, 24, 32, 48, 64]
SFF_IDS = [0x000, 0x001, 0x123, 0x7DF, 0x7FF]
EFF_IDS = [0x000, 0x001, 0x7FF, 0x800, 0x923, 0x18DA00F1, 0x1FFFFFFF]


def data(i: int, n: int) -> str:
    return bytes((i + 16 * k) % 256 for k in range(1, n + 1)).hex()


# ------------------------------------------------------------------ URIs
def raw_uri(xid: bool | None, fd: bool | None, dst: int | None, spell: str = "hex", iface: str = "vcan0") -> str:
    q = []
    if xid is not None:
        q.append(f"is_extended={'true' if xid else 'false'}")
    if fd is not None:
        q.append(f"is_fd={'true' if fd else 'false'}")
    if dst is not None:
        q.append("dst_id=" + (hex(dst) if spell == "hex" else str(dst)))
    return f"can-raw://{iface}" + ("?" + "&".join(q) if q else "")


def raw_case(xid: bool, fd: bool, dst: int | None, ops: list[dict[str, Any]], origin: str, spell: str = "hex",
             explicit: bool = False, iface: str = "vcan0") -> dict[str, Any]:
    uri = raw_uri(xid if (xid or explicit) else None, fd if (fd or explicit) else None, dst, spell, iface)
    return {"kind": "raw", "uri": uri, "cfg": {"iface": iface, "xid": xid, "fd": fd, "dst": -1 if dst is None else dst,
                                               "valid": True}, "ops": ops, "origin": origin}


def fr(i: int, n: int = 2, eff: bool = False, fd: bool = False, **kw: Any) -> dict[str, Any]:
    return {"id": i, "eff": eff, "fd": fd, "d": data(i, n), **kw}


def bus(i: int, n: int = 2, eff: bool = False, fd: bool = False, **kw: Any) -> dict[str, Any]:
    return {"op": "bus", **fr(i, n, eff, fd, **kw)}


def later(ms: int, i: int, n: int = 2, eff: bool = False, fd: bool = False, **kw: Any) -> dict[str, Any]:
    return {"op": "later", "ms": ms, **fr(i, n, eff, fd, **kw)}


def recv(timeout: int = 100) -> dict[str, Any]:
    return {"op": "recv", "timeout": timeout}


def drain(n: int, timeout: int = 50) -> list[dict[str, Any]]:
    return [recv(timeout) for _ in range(n)]


# ------------------------------------------------------------------ raw: filters
def fam_filter(tier: str) -> list[dict[str, Any]]:
    """Every pair (first set_filter call, second set_filter call) over none / three id lists x inverted or not, then a
    burst of frames of every id of the probe set; both identifier widths, with and without CAN FD."""
    out = []
    for xid, fd in itertools.product((False, True), (False, True)):
        a, b, c, d = (0x18DA00F1, 0x18DA00F2, 0x0F1, 0x18DA08F1) if xid else (0x100, 0x200, 0x300, 0x7FF)
        lists = [[a], [a, b], [b, c, a]]
        calls: list[Any] = [None] + [(ids, inv) for ids in lists for inv in (False, True)]
        probes = [a, b, c, d] + ([0x18DA00F1 & 0x7FF, 0x1FFFFFFF, 0x8F1] if xid else [0x000, 0x101])
        for first, second in itertools.product(calls, calls):
            if first is None and second is not None:
                continue                       # same as (second, None)
            if tier == "quick" and fd and (first, second) != (calls[4], calls[1]) and (second is not None):
                continue
            ops: list[dict[str, Any]] = []
            for call in (first, second):
                if call is not None:
                    ops.append({"op": "filter", "ids": call[0], "inv": call[1]})
            for p in probes:
                ops.append(bus(p, 2, eff=xid))
            if fd:
                ops.append(bus(a, 12, eff=xid, fd=True))
                ops.append(bus(d, 64, eff=xid, fd=True))
            ops += drain(len(probes) + 3)
            tag = "/".join("none" if cl is None else f"{len(cl[0])}{'i' if cl[1] else 'p'}" for cl in (first, second))
            out.append(raw_case(xid, fd, None, ops, f"filter[xid={int(xid)};fd={int(fd)};{tag}]"))
    return out


def fam_filter_queue(tier: str) -> list[dict[str, Any]]:
    """Frames queued before a filter is installed, filters installed between frames, empty lists, mixed widths, RTR."""
    out = []
    for xid in (False, True):
        a, b = (0x18DA00F1, 0x18DA00F2) if xid else (0x100, 0x200)
        for inv in (False, True):
            ops = [bus(a, 1, eff=xid), bus(b, 1, eff=xid), {"op": "filter", "ids": [a], "inv": inv}, bus(a, 2, eff=xid),
                   bus(b, 2, eff=xid), *drain(5)]
            out.append(raw_case(xid, False, None, ops, f"filterq[xid={int(xid)};inv={int(inv)}]"))
            ops = [{"op": "filter", "ids": [], "inv": inv}, bus(a, 1, eff=xid), bus(b, 1, eff=xid), *drain(3)]
            out.append(raw_case(xid, False, None, ops, f"filter-empty[xid={int(xid)};inv={int(inv)}]"))
            other = (a & 0x7FF, b & 0x7FF) if xid else (a, a | 0x10000)     # valid identifiers of the other width
            ops = [{"op": "filter", "ids": [a], "inv": inv}, bus(other[0], 1, eff=not xid), bus(other[1], 1, eff=not xid),
                   bus(a, 0, eff=xid, rtr=True, len=4), bus(a, 3, eff=xid), bus(b, 3, eff=xid), *drain(6)]
            out.append(raw_case(xid, False, None, ops, f"filter-mixed[xid={int(xid)};inv={int(inv)}]"))
        ops = [{"op": "filter", "ids": [0x900], "inv": False}, bus(0x100, 1, eff=xid), *drain(2)]
        out.append(raw_case(xid, False, None, ops, f"filter-wide-id[xid={int(xid)}]"))
    return out


# ------------------------------------------------------------------ raw: order, time-outs
def fam_timing(tier: str) -> list[dict[str, Any]]:
    out = []
    delays = [0, 1, 30, 99, 101, 150, 250] if tier == "quick" else [0, 1, 5, 30, 60, 99, 101, 120, 150, 199, 201, 250, 400]
    for xid in (False, True):
        i, j = (0x18DA00F1, 0x18DAF100) if xid else (0x123, 0x321)
        for d1, d2 in itertools.product(delays, delays):
            if tier == "quick" and xid and (d1 + d2) % 3:
                continue
            ops: list[dict[str, Any]] = []
            ops.append(bus(i, 1, eff=xid) if d1 == 0 else later(d1, i, 1, eff=xid))
            ops.append(bus(j, 8, eff=xid) if d2 == 0 else later(d2, j, 8, eff=xid))
            ops += [recv(100), recv(100), recv(100), {"op": "sleep", "ms": 300}, recv(20), recv(20)]
            out.append(raw_case(xid, False, None, ops, f"timing[xid={int(xid)};{d1};{d2}]"))
    # a burst, read one by one with pauses; no time-out at all (waits until the frame comes)
    for n in (1, 5, 40):
        ops = [bus(0x100 + k, k % 9) for k in range(n)] + [x for k in range(n) for x in (recv(10), {"op": "sleep", "ms": 7})]
        ops += [recv(10)]
        out.append(raw_case(False, False, None, ops, f"burst[{n}]"))
    out.append(raw_case(False, False, None, [later(700, 0x155, 3), {"op": "recv", "timeout": -1}, recv(10)], "no-timeout"))
    return out


# ------------------------------------------------------------------ raw: sending
def fam_send(tier: str) -> list[dict[str, Any]]:
    out = []
    for xid, fd in itertools.product((False, True), (False, True)):
        ids = EFF_IDS if xid else SFF_IDS
        lens = FD_LENS if fd else list(range(9))
        for dst in ids:
            ops: list[dict[str, Any]] = []
            for n in lens:
                ops.append({"op": "sendto", "dst": dst, "d": data(dst, n), "timeout": 100})
            out.append(raw_case(xid, fd, None, ops, f"sendto[xid={int(xid)};fd={int(fd)};dst={dst:x}]"))
        for dst, spell in itertools.product([None] + ids, ("hex", "dec")):
            if dst is None and spell == "dec":
                continue
            ops = [{"op": "write", "d": data(7, n)} for n in (lens if tier == "thorough" else lens[:3] + lens[-2:])]
            ops.append({"op": "read", "timeout": 10})
            out.append(raw_case(xid, fd, dst, ops, f"write[xid={int(xid)};fd={int(fd)};dst={'none' if dst is None else hex(dst)};{spell}]",
                                spell=spell, explicit=(spell == "dec")))
        # outside the documented domain: counted as unspecified
        far = {"op": "sendto", "dst": ids[-1] + 1, "d": "00", "timeout": 100}
        long = {"op": "sendto", "dst": ids[1], "d": data(1, 65 if fd else 9), "timeout": 100}
        odd = {"op": "sendto", "dst": ids[1], "d": data(1, 9), "timeout": 100}
        out.append(raw_case(xid, fd, None, [far, long, odd], f"send-outside[xid={int(xid)};fd={int(fd)}]"))
    return out


# ------------------------------------------------------------------ raw: idle traffic
def fam_idle(tier: str) -> list[dict[str, Any]]:
    out = []
    sniffs = [0, 500, 1000, 1500, 2000] if tier == "quick" else [0, 1, 300, 500, 999, 1000, 1001, 1500, 2000, 2500, 3000]
    scheds: list[list[tuple[int, int]]] = [
        [], [(10, 0x100)], [(10, 0x100), (20, 0x100), (30, 0x200)], [(450, 0x300), (950, 0x100), (1450, 0x200)],
        [(10, 0x7FF), (1210, 0x001), (1790, 0x002)], [(k * 97 + 3, 0x100 + (k % 5)) for k in range(30)],
        [(2900, 0x111)], [(k * 333 + 7, 0x400 + k) for k in range(9)],
    ]
    for xid in (False, True):
        for sn, (si, sch) in itertools.product(sniffs, enumerate(scheds)):
            if tier == "quick" and xid and (si + sn // 500) % 2:
                continue
            up = 0x18DA0000 if xid else 0
            ops: list[dict[str, Any]] = [bus(up + 0x050, 1, eff=xid)] if si % 2 else []
            ops += [later(ms, up + i, 2, eff=xid) for ms, i in sch if ms not in (sn, sn + 1000)]
            ops.append({"op": "idle", "sniff": sn})
            ops.append({"op": "sleep", "ms": 3200})
            ops += drain(3, 5)
            out.append(raw_case(xid, False, None, ops, f"idle[xid={int(xid)};sniff={sn};s{si}]"))
    # the documented use: the idle list becomes the deny list
    for xid in (False, True):
        up = 0x18DA0000 if xid else 0
        for ids in ([0x100], [0x100, 0x200], [0x100, 0x200, 0x300, 0x7FE]):
            ops = [later(50 + 40 * k, up + i, 2, eff=xid) for k, i in enumerate(ids)]
            ops += [{"op": "idle", "sniff": 1000}, {"op": "idle_filter"}]
            ops += [bus(up + i, 3, eff=xid) for i in ids] + [bus(up + 0x555, 3, eff=xid), bus(up + 0x101, 3, eff=xid)]
            ops += drain(len(ids) + 3, 20)
            out.append(raw_case(xid, False, None, ops, f"idle-deny[xid={int(xid)};{len(ids)}]"))
    return out


# ------------------------------------------------------------------ raw: connect / close
def fam_life(tier: str) -> list[dict[str, Any]]:
    out = []
    for xid, fd, dst, spell, explicit in itertools.product((False, True), (False, True), (None, 0x6F1), ("hex", "dec"),
                                                            (False, True)):
        for iface in ("vcan0", "can1"):
            ops = [bus(0x111, 2, eff=xid), recv(10), {"op": "close"}, bus(0x112, 2, eff=xid), recv(10)]
            out.append(raw_case(xid, fd, dst, ops, f"life[{int(xid)}{int(fd)};{dst};{spell};{int(explicit)};{iface}]", spell=spell,
                                explicit=explicit, iface=iface))
    out.append(raw_case(False, False, None, [{"op": "close"}, {"op": "close"}], "close-twice"))
    return out


# ------------------------------------------------------------------ raw: seeded sessions
def fam_random_raw(tier: str, seed: int) -> list[dict[str, Any]]:
    rng = random.Random(seed * 7919 + 23)
    out = []
    for k in range(60 if tier == "quick" else 600):
        xid, fd = rng.random() < 0.5, rng.random() < 0.4
        pool = rng.sample(EFF_IDS if xid else SFF_IDS + [0x100, 0x200, 0x300], 4)
        dst = rng.choice([None, pool[0], 0])
        ops: list[dict[str, Any]] = []
        used: set[int] = set()
        for _ in range(rng.randint(3, 14)):
            r = rng.random()
            if r < 0.35:
                n = rng.choice(FD_LENS if (fd and rng.random() < 0.5) else list(range(9)))
                i = rng.choice(pool)
                if rng.random() < 0.6:
                    ops.append(bus(i, n, eff=xid, fd=n > 8 or (fd and rng.random() < 0.3)))
                else:
                    ms = rng.choice([x for x in range(3, 400, 2) if x not in used])
                    used.add(ms)
                    ops.append(later(ms, i, n, eff=xid, fd=n > 8))
            elif r < 0.6:
                ops.append(recv(rng.choice([10, 50, 120, 500])))
            elif r < 0.72:
                ops.append({"op": "filter", "ids": rng.sample(pool, rng.randint(1, 3)), "inv": rng.random() < 0.5})
            elif r < 0.84:
                n = rng.choice(FD_LENS if fd else list(range(9)))
                ops.append({"op": "sendto", "dst": rng.choice(pool), "d": data(k, n), "timeout": 100})
            elif r < 0.92:
                ops.append({"op": "write", "d": data(k, rng.randint(0, 8))})
            elif r < 0.97:
                ops.append({"op": "idle", "sniff": rng.choice([0, 400, 1000, 1600])})
            else:
                ops.append({"op": "sleep", "ms": rng.choice([10, 100, 1000])})
        ops += [{"op": "sleep", "ms": 500}] + drain(3, 10) + [{"op": "close"}]
        out.append(raw_case(xid, fd, dst, ops, f"random-raw[{k}]"))
    return out


# ------------------------------------------------------------------ ISO-TP
def iso_uri(c: dict[str, Any], hexs: bool) -> str:
    def num(v: int) -> str:
        return hex(v) if hexs else str(v)

    q = [f"src_addr={num(c['src'])}", f"dst_addr={num(c['dst'])}"]
    if c["xid"] or c.get("explicit"):
        q.append(f"is_extended={'true' if c['xid'] else 'false'}")
    if c["fd"] or c.get("explicit"):
        q.append(f"is_fd={'true' if c['fd'] else 'false'}")
    for key, name in (("txtime", "frame_txtime"), ("ea", "ext_address"), ("rea", "rx_ext_address"), ("txpad", "tx_padding"),
                      ("rxpad", "rx_padding"), ("txdl", "tx_dl")):
        if c[key] >= 0:
            q.append(f"{name}={num(c[key])}")
    return f"isotp://{c['iface']}?" + "&".join(q)


def iso_cfg(src: int = 0x6F4, dst: int = 0x654, xid: bool = False, fd: bool = False, txtime: int = -1, ea: int = -1, rea: int = -1,
            txpad: int = -1, rxpad: int = -1, txdl: int = -1, iface: str = "can0") -> dict[str, Any]:
    return {"iface": iface, "src": src, "dst": dst, "xid": xid, "fd": fd, "txtime": txtime, "ea": ea, "rea": rea, "txpad": txpad,
            "rxpad": rxpad, "txdl": txdl, "valid": True}


def iso_case(c: dict[str, Any], hexs: bool, ops: list[dict[str, Any]], origin: str) -> dict[str, Any]:
    cfg = {k: v for k, v in c.items() if k != "explicit"}
    cfg["hex"] = bool(hexs)
    return {"kind": "iso", "uri": iso_uri(c, hexs), "cfg": cfg, "ops": ops, "origin": origin}


def fam_iso_connect(tier: str) -> list[dict[str, Any]]:
    """URI parameters x spellings beyond the design layer's export: identifier ranges, padding / address bytes at both
    ends, every CAN FD tx_dl, frame_txtime values, interface names, the example of docs/transports.md."""
    out = []
    for xid in (False, True):
        ids = [(0x000, 0x001), (0x7FF, 0x7FE), (0x6F4, 0x654)] + ([(0x18DA00F1, 0x18DAF100), (0x1FFFFFFF, 0x800)] if xid else [])
        for (s, d), hexs in itertools.product(ids, (False, True)):
            out.append(iso_case(iso_cfg(s, d, xid), hexs, [], f"isoconn-ids[{int(xid)};{s:x};{d:x};{int(hexs)}]"))
    for v, hexs in itertools.product((0, 1, 0x7F, 0x80, 0xFF), (False, True)):
        out.append(iso_case(iso_cfg(ea=v, rea=255 - v, txpad=v, rxpad=255 - v), hexs, [], f"isoconn-bytes[{v};{int(hexs)}]"))
    for dl, hexs in itertools.product((8, 12, 16, 20, 24, 32, 48, 64), (False, True)):
        out.append(iso_case(iso_cfg(fd=True, txdl=dl), hexs, [], f"isoconn-txdl[{dl};{int(hexs)}]"))
    for tt, hexs in itertools.product((0, 1, 10, 50, 1000, 2147), (False, True)):
        out.append(iso_case(iso_cfg(txtime=tt), hexs, [], f"isoconn-txtime[{tt};{int(hexs)}]"))
    for iface in ("can0", "vcan1", "slcan0"):
        c = iso_cfg(iface=iface)
        c["explicit"] = True
        out.append(iso_case(c, True, [], f"isoconn-iface[{iface}]"))
    doc = iso_cfg(0x6F4, 0x654, rea=0xF4, ea=0x54)
    case = iso_case(doc, True, [], "isoconn-docs-example")
    case["uri"] = "isotp://can0?src_addr=0x6f4&dst_addr=0x654&rx_ext_address=0xf4&ext_address=0x54&is_fd=false"
    out.append(case)
    return out


ERRNOS = [errno.ECOMM, errno.EILSEQ, errno.ETIMEDOUT, errno.ENETDOWN, errno.ENOBUFS, errno.EBADMSG, errno.EIO, errno.ENODEV,
          errno.EPIPE, errno.ECONNRESET]


def pdu(n: int, salt: int = 0) -> str:
    return bytes((7 * k + n + salt) % 256 for k in range(1, n + 1)).hex()


def fam_iso_io(tier: str) -> list[dict[str, Any]]:
    out = []
    base = iso_cfg()
    lens = [1, 2, 7, 8, 62, 4095, 4096, 8191, 8192, 8193, 8300] if tier == "quick" else \
        [1, 2, 3, 6, 7, 8, 9, 61, 62, 63, 64, 100, 4094, 4095, 4096, 5000, 8191, 8192, 8193, 8299, 8300]
    for n in lens:
        ops = [{"op": "write", "d": pdu(n)}, {"op": "pdu", "d": pdu(n, 1)}, {"op": "read", "timeout": 100},
               {"op": "read", "timeout": 50}]
        out.append(iso_case(base, True, ops, f"isoio-len[{n}]"))
    out.append(iso_case(base, True, [{"op": "pdu", "d": pdu(9000)}, {"op": "read", "timeout": 100}], "isoio-len[9000]"))
    for e in ERRNOS:
        for pos in ("now", "waiting", "behind"):
            ops = []
            if pos == "now":
                ops += [{"op": "err", "errno": e}, {"op": "read", "timeout": 100}]
            elif pos == "waiting":
                ops += [{"op": "err_later", "ms": 30, "errno": e}, {"op": "read", "timeout": 100}]
            else:
                ops += [{"op": "pdu", "d": pdu(3)}, {"op": "err", "errno": e}, {"op": "read", "timeout": 100},
                        {"op": "read", "timeout": 100}]
            ops += [{"op": "pdu", "d": pdu(4)}, {"op": "read", "timeout": 100}, {"op": "read", "timeout": 20}]
            out.append(iso_case(base, True, ops, f"isoio-errno[{errno.errorcode.get(e, e)};{pos}]"))
    delays = [0, 1, 30, 99, 101, 150, 250]
    for d1, d2 in itertools.product(delays, delays):
        ops = [{"op": "pdu", "d": pdu(5)} if d1 == 0 else {"op": "pdu_later", "ms": d1, "d": pdu(5)},
               {"op": "pdu", "d": pdu(6)} if d2 == 0 else {"op": "pdu_later", "ms": d2, "d": pdu(6)},
               {"op": "read", "timeout": 100}, {"op": "read", "timeout": 100}, {"op": "read", "timeout": 100},
               {"op": "sleep", "ms": 300}, {"op": "read", "timeout": 20}, {"op": "read", "timeout": 20}]
        out.append(iso_case(base, True, ops, f"isoio-timing[{d1};{d2}]"))
    for c in (iso_cfg(), iso_cfg(0x18DA00F1, 0x18DAF100, xid=True, fd=True, txdl=64, txpad=0xAA, rxpad=0xAA)):
        ops = [{"op": "write", "d": "1003"}, {"op": "pdu", "d": "5003003201f4"}, {"op": "read", "timeout": 100}, {"op": "close"},
               {"op": "close"}]
        out.append(iso_case(c, True, ops, f"isoio-life[{int(c['xid'])}]"))
    return out


def fam_random_iso(tier: str, seed: int) -> list[dict[str, Any]]:
    rng = random.Random(seed * 104729 + 5)
    out = []
    for k in range(40 if tier == "quick" else 400):
        xid, fd = rng.random() < 0.5, rng.random() < 0.5
        c = iso_cfg(rng.choice(EFF_IDS if xid else SFF_IDS), rng.choice(EFF_IDS if xid else SFF_IDS), xid, fd,
                    txtime=rng.choice([-1, 0, 10, 300]), ea=rng.choice([-1, 0, 0x54, 0xFF]), rea=rng.choice([-1, 0, 0xF4]),
                    txpad=rng.choice([-1, 0, 0xAA, 0xCC]), rxpad=rng.choice([-1, 0, 0x55]),
                    txdl=rng.choice([-1, 8, 16, 64]) if fd else -1)
        ops: list[dict[str, Any]] = []
        used: set[int] = set()
        for _ in range(rng.randint(2, 10)):
            r = rng.random()
            if r < 0.3:
                ops.append({"op": "pdu", "d": pdu(rng.choice([1, 2, 7, 20, 300, 4095]), k)})
            elif r < 0.4:
                ms = rng.choice([x for x in range(3, 300, 2) if x not in used])
                used.add(ms)
                ops.append({"op": "pdu_later", "ms": ms, "d": pdu(rng.choice([1, 5, 9]), k)})
            elif r < 0.5:
                ops.append({"op": "err", "errno": rng.choice(ERRNOS)})
            elif r < 0.8:
                ops.append({"op": "read", "timeout": rng.choice([10, 60, 200])})
            else:
                ops.append({"op": "write", "d": pdu(rng.choice([1, 2, 7, 8, 100, 4095]), k + 1)})
        ops += [{"op": "sleep", "ms": 400}, {"op": "read", "timeout": 10}, {"op": "read", "timeout": 10}, {"op": "close"}]
        out.append(iso_case(c, rng.random() < 0.5, ops, f"random-iso[{k}]"))
    return out


# ------------------------------------------------------------------ pack / unpack outside the design layer's export
def fam_frames_extra(tier: str, seed: int) -> list[dict[str, Any]]:
    rng = random.Random(seed * 31 + 1)
    out: list[dict[str, Any]] = []
    for k in range(100 if tier == "quick" else 2000):
        eff, fd = rng.random() < 0.5, rng.random() < 0.5
        i = rng.randrange(0, 1 << (29 if eff else 11))
        n = rng.choice(FD_LENS if fd else list(range(9)))
        f = {"id": i, "eff": eff, "rtr": False, "err": rng.random() < 0.1, "fd": fd, "brs": fd and rng.random() < 0.5,
             "esi": fd and rng.random() < 0.5, "d": bytes(rng.randrange(256) for _ in range(n)).hex()}
        out.append({"kind": "pack", **f, "dlc": rng.choice([-1, n]), "origin": f"pack-random[{k}]"})
        out.append({"kind": "unpack", **f, "origin": f"unpack-random[{k}]"})
    # outside the domain of the clauses (counted as unspecified): lengths no frame can carry, RTR with data, wide ids
    for f in ({"id": 1, "eff": False, "fd": False, "d": data(1, 9)}, {"id": 1, "eff": False, "fd": True, "d": data(1, 9)},
              {"id": 1, "eff": False, "fd": True, "d": data(1, 65)}, {"id": 0x800, "eff": False, "fd": False, "d": "00"},
              {"id": 1, "eff": False, "fd": False, "d": "0102", "rtr": True}, {"id": 1, "eff": False, "fd": False, "d": "01", "dlc": 5}):
        g = {"rtr": False, "err": False, "brs": False, "esi": False, "dlc": -1, **f}
        out.append({"kind": "pack", **g, "origin": "pack-outside"})
    for f in ({"id": 0x123, "eff": False, "rtr": True, "len": 4, "d": ""}, {"id": 0x123, "eff": True, "rtr": True, "len": 0, "d": ""},
              {"id": 0x40, "eff": False, "err": True, "d": "0000000000000000"}, {"id": 0x1FFFFFFF, "eff": True, "err": True, "d": "ff" * 8}):
        g = {"rtr": False, "err": False, "fd": False, "brs": False, "esi": False, **f}
        out.append({"kind": "unpack", **g, "origin": "unpack-special"})
    return out


def frame_cases_from_design(frames: list[dict[str, Any]]) -> list[dict[str, Any]]:
    out = []
    for k, f in enumerate(frames):
        base = {"id": int(f["id"]), "eff": bool(f["eff"]), "rtr": bool(f["rtr"]), "err": bool(f["err"]), "fd": bool(f["fd"]),
                "brs": bool(f["brs"]), "esi": bool(f["esi"]), "d": bytes(f["d"]).hex()}
        out.append({"kind": "pack", **base, "dlc": int(f["dlc"]), "origin": f"design-frame[{k}]"})
        u = dict(base)
        if f["rtr"] and int(f["dlc"]) >= 0:
            u["len"] = int(f["dlc"])
        out.append({"kind": "unpack", **u, "origin": f"design-frame[{k}]"})
    return out


# ------------------------------------------------------------------ spec -> code: a behaviour of the design layer as a script
def raw_script_from_hist(cfg: dict[str, Any], hist: list[Any], origin: str) -> tuple[dict[str, Any], list[Any]]:
    """hist: the tokens the design layer (part "raw") appended; returns (case, outcomes the design layer predicts)."""
    ops: list[dict[str, Any]] = []
    want: list[Any] = []
    i = 0

    def frame(tok: list[Any]) -> dict[str, Any]:
        return fr(int(tok[1]), int(tok[4]), eff=bool(tok[2]), fd=bool(tok[3]))

    while i < len(hist):
        t = hist[i]
        k = t[0]
        if k == "B":
            ops.append({"op": "bus", **frame(t)})
        elif k == "filter":
            ops.append({"op": "filter", "ids": [int(x) for x in t[1]], "inv": bool(t[2])})
        elif k == "sendto":
            ops.append({"op": "sendto", "dst": int(t[1]), "d": data(int(t[1]), int(t[2])), "timeout": 100})
            want.append(["sendto", "ok"])
        elif k == "write":
            ops.append({"op": "write", "d": data(int(cfg["dst"]) if int(cfg["dst"]) >= 0 else 0, int(t[1]))})
            want.append(["write", "ok" if int(cfg["dst"]) >= 0 else "exc"])
        elif k == "close":
            ops.append({"op": "close"})
            want.append(["close", "ok"])
        elif k == "recv":
            j, off = i + 1, 0
            while j < len(hist) and hist[j][0] == "B":
                off += 10
                ops.append({"op": "later", "ms": off, **frame(hist[j])})
                j += 1
            ops.append(recv(1000))
            ops.append({"op": "sleep", "ms": 200})
            if j < len(hist) and hist[j][0] == "ret":
                want.append(["recv", "frame", int(hist[j][1])])
            elif j < len(hist):
                want.append(["recv", "timeout"])
            else:
                want.append(["recv", "?"])
            i = j
        elif k == "idle":
            j, clock, pend = i + 1, 0, 0
            while j < len(hist) and hist[j][0] in ("B", "tick"):
                if hist[j][0] == "tick":
                    clock += 1000
                    pend = 0
                elif bool(hist[j][5]):
                    clock += 10
                    ops.append({"op": "later", "ms": clock, **frame(hist[j])})
                else:
                    pend += 1
                    ops.append({"op": "later", "ms": clock + pend, **frame(hist[j])})
                j += 1
            ops.append({"op": "idle", "sniff": int(t[1]) * 1000})
            ops.append({"op": "sleep", "ms": 200})
            if j < len(hist) and hist[j][0] == "idleret":
                want.append(["idle", sorted(int(x) for x in hist[j][1])])
            else:
                want.append(["idle", "?"])
            i = j
        i += 1
    case = {"kind": "raw", "uri": raw_uri(bool(cfg["xid"]) or None, bool(cfg["fd"]) or None, None if int(cfg["dst"]) < 0 else int(cfg["dst"])),
            "cfg": {"iface": "vcan0", "xid": bool(cfg["xid"]), "fd": bool(cfg["fd"]), "dst": int(cfg["dst"]), "valid": True},
            "ops": ops, "origin": origin}
    return case, want
