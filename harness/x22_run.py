"""X22 schedule executor: runs 1..3 REAL gallia processes (harness/x22_child.py, each one
`sys.exit(asyncio.run(cmd.entry_point()))` in a fresh interpreter) against real lock files and drives them through
a schedule of environment actions

    ["start", p]   spawn run p and wait until it rests: paused at a checkpoint | blocked on the lock | gone
    ["go", p]      let p (paused) move on to its next checkpoint of the model (pre -> main -> post -> after -> exit)
    ["int", p]     real SIGINT to p (blocked on the lock, or paused inside setup/main/teardown)
    ["kill", p]    real SIGKILL to p

All runs and the driver append their records to ONE event file (O_APPEND): the order of the lines is the recorded
interleaving.  The driver's own records: start / go / int / kill (written BEFORE the signal or token is sent),
blocked (p was seen waiting: how), exit (wait status), probe (a non-blocking flock attempt of the driver on a lock
file while a run rests inside its guarded section: free?), stuck (a deadline of real time expired: why), skip.
Nothing in here judges the property; `encode()` only re-codes records for TLC (spec/Trace_LockFile.tla).
"""

from __future__ import annotations

import fcntl
import json
import os
import shutil
import signal
import subprocess
import sys
import tempfile
import time
from concurrent.futures import ThreadPoolExecutor
from dataclasses import dataclass, field
from pathlib import Path
from typing import Any

ROOT = Path(__file__).resolve().parent.parent
HOOK_PY = str(Path(__file__).resolve().parent / "x22_hook.py")
MODEL_CP = {"pre": "pre", "setup": "main", "main": "main", "teardown": "main", "post": "post", "after": "after"}
MAIN_ORDER = ["setup", "main", "teardown"]
BAD_KINDS = ["missing-dir", "under-file", "sys", "toolong"]
SPELLS = ["plain", "symlink", "relative"]


@dataclass
class Timing:
    spawn: float = 60.0   # spawn -> first record of the run
    step: float = 20.0    # a run that may move reaches its next resting point
    intr: float = 5.0     # an interrupted waiter is gone
    settle: float = 1.5   # no sign of waiting (kernel wait queue, log record) but no progress either: counts as waiting


@dataclass
class Proc:
    idx: int
    spec: dict[str, Any]
    g: int
    state: str = "new"
    at: str = ""
    entered: bool = False
    ret_seen: bool = False
    code: int | None = None
    popen: Any = None
    t_mark: float = 0.0
    novel: bool = False
    gave_up: bool = False
    unstable_since: float | None = None
    pre_msgs: list[str] = field(default_factory=list)


def flock_waiters() -> set[tuple[int, int]]:
    """(pid, inode) of every flock request queued in the kernel (Linux /proc/locks: lines with '->')."""
    out = set()
    try:
        for ln in Path("/proc/locks").read_text().splitlines():
            if "->" in ln and "FLOCK" in ln:
                parts = ln.split()
                i = parts.index("FLOCK")
                out.add((int(parts[i + 3]), int(parts[i + 4].split(":")[-1])))
    except (OSError, ValueError, IndexError):
        pass
    return out


class Schedule:
    def __init__(self, sched: dict[str, Any], baseline: set[str] | None, tm: Timing) -> None:
        self.s = sched
        self.baseline = baseline
        self.tm = tm
        self.d = Path(tempfile.mkdtemp(prefix="x22-"))
        self.events = self.d / "events.jsonl"
        self.events.touch()
        self.wfd = os.open(self.events, os.O_WRONLY | os.O_APPEND)
        self.rf = open(self.events, "rb")
        self.buf = b""
        self.base_ns = time.monotonic_ns()
        self.raw: list[dict[str, Any]] = []
        self.ctl: dict[int, int] = {}
        self.lockpath: dict[int, Path] = {}
        self.procs: dict[int, Proc] = {}
        (self.d / "locks").mkdir()
        (self.d / "afile").write_text("a regular file\n")
        for i, ps in enumerate(sched["procs"], start=1):
            self.procs[i] = Proc(i, ps, -1 if ps.get("bad") else int(ps["g"]))

    # ------------------------------------------------------------------ records
    def emit(self, k: str, p: int = 0, ph: str = "", n: int = 0) -> None:
        os.write(self.wfd, (json.dumps({"p": p, "k": k, "ph": ph, "n": n,
                                        "t": (time.monotonic_ns() - self.base_ns) // 1000}) + "\n").encode())

    def pump(self) -> None:
        self.buf += self.rf.read()
        while b"\n" in self.buf:
            ln, self.buf = self.buf.split(b"\n", 1)
            try:
                r = json.loads(ln)
            except ValueError:
                continue
            self.raw.append(r)
            self.on_record(r)
        for p in self.procs.values():
            if p.popen is not None and p.state != "exited":
                rc = p.popen.poll()
                if rc is not None:
                    p.code = rc
                    p.state = "exited"
                    self.emit("exit", p.idx, "", rc)

    def on_record(self, r: dict[str, Any]) -> None:
        p = self.procs.get(r.get("p", 0))
        if p is None:
            return
        k = r["k"]
        if k == "try":
            if p.state == "starting":
                p.state = "trying"
                p.t_mark = time.monotonic()
        elif k == "B":
            p.entered = True
        elif k == "at":
            if p.state != "exited":
                p.state = "paused"
                p.at = r["ph"]
        elif k == "ret":
            p.ret_seen = True
        elif k == "log" and not p.entered and not p.ret_seen:
            p.pre_msgs.append(r.get("msg", ""))
            if self.baseline is not None and r.get("n", 0) >= 20 and r.get("msg", "") not in self.baseline:
                p.novel = True

    # ------------------------------------------------------------------ resting points
    def holder_in_view(self, p: Proc) -> bool:
        return p.g > 0 and any(q.idx != p.idx and q.g == p.g and q.entered and not q.ret_seen and q.state != "exited"
                               for q in self.procs.values())

    def inode(self, g: int) -> int:
        try:
            return os.stat(self.lockpath[g]).st_ino
        except (OSError, KeyError):
            return -1

    def unstable(self, p: Proc, now: float, waiters: set[tuple[int, int]]) -> bool:
        st = p.state
        if st in ("new", "paused", "exited") or p.gave_up:
            return False
        if st == "starting":
            return self.deadline(p, now, self.tm.spawn, "no-progress")
        if st == "running":
            return self.deadline(p, now, self.tm.step, "no-progress")
        if st == "intwait":
            if now - p.t_mark > self.tm.intr:
                self.emit("stuck", p.idx, "int-not-ended")
                p.state = "zombie"
                p.unstable_since = None
            else:
                return True
        if st == "trying":
            if self.holder_in_view(p):
                why = ""
                if (p.popen.pid, self.inode(p.g)) in waiters:
                    why = "kernel-queue"
                elif p.novel:
                    why = "log-record"
                elif now - p.t_mark > self.tm.settle:
                    why = "no-progress"
                if not why:
                    return True
                self.emit("blocked", p.idx, why)
                p.state = "blocked"
                p.unstable_since = None
                return False
            return self.deadline(p, now, self.tm.step, "not-entered")
        # blocked / zombie: stable while some other run is inside its section on the same lock file
        if self.holder_in_view(p):
            p.unstable_since = None
            return False
        return self.deadline(p, now, self.tm.step, "not-entered" if p.state == "blocked" else "int-not-ended-2")

    def deadline(self, p: Proc, now: float, limit: float, why: str) -> bool:
        if p.unstable_since is None:
            p.unstable_since = now
        if now - p.unstable_since > limit:
            self.emit("stuck", p.idx, why, self.try_lock(p.g) if why == "not-entered" and p.g > 0 else 0)
            p.gave_up = True
            return False
        return True

    def settle(self) -> None:
        while True:
            self.pump()
            now = time.monotonic()
            w = flock_waiters() if any(p.state == "trying" for p in self.procs.values()) else set()
            if not any([self.unstable(p, now, w) for p in self.procs.values()]):
                self.pump()
                return
            time.sleep(0.004)

    def new_action(self) -> None:
        for p in self.procs.values():
            p.gave_up = False
            p.unstable_since = None

    def try_lock(self, g: int) -> int:
        """The driver's own non-blocking attempt on the lock file of group g: 1 = it got the lock (and dropped it)."""
        try:
            fd = os.open(self.lockpath[g], os.O_RDONLY)
        except (OSError, KeyError):
            return 1
        try:
            fcntl.flock(fd, fcntl.LOCK_EX | fcntl.LOCK_NB)
            fcntl.flock(fd, fcntl.LOCK_UN)
            return 1
        except BlockingIOError:
            return 0
        finally:
            os.close(fd)

    def probe(self) -> None:
        done = set()
        for p in self.procs.values():
            if p.g > 0 and p.g not in done and p.state == "paused" and p.entered and not p.ret_seen:
                done.add(p.g)
                self.emit("probe", 0, str(p.g), self.try_lock(p.g))
        self.pump()

    # ------------------------------------------------------------------ actions
    def lock_arg(self, p: Proc) -> tuple[str | None, str | None]:
        ps = p.spec
        if ps.get("bad"):
            kind = ps["bad"]
            if kind == "missing-dir":
                return str(self.d / "no-such-dir" / "lock"), None
            if kind == "under-file":
                return str(self.d / "afile" / "lock"), None
            if kind == "sys":
                return "/sys/x22-lock-file", None
            return str(self.d / ("n" * 300)), None
        if p.g <= 0:
            return None, None
        real = self.d / "locks" / f"lock-{p.g}"
        self.lockpath.setdefault(p.g, real)
        if ps.get("split"):  # binding self-test only: a run of the same lock group is handed ANOTHER file
            return str(self.d / "locks" / f"lock-{p.g}-other"), None
        spell = ps.get("spell", "plain")
        if spell == "symlink":
            real.touch()
            ln = self.d / f"link-{p.idx}"
            ln.symlink_to(real)
            return str(ln), None
        if spell == "relative":
            return f"locks/../locks/lock-{p.g}", str(self.d)
        return str(real), None

    def start(self, p: Proc) -> None:
        fifo = self.d / f"ctl-{p.idx}"
        os.mkfifo(fifo)
        self.ctl[p.idx] = os.open(fifo, os.O_RDWR)
        lock, cwd = self.lock_arg(p)
        spec = {"p": p.idx, "events": str(self.events), "ctl": str(fifo), "base_ns": self.base_ns, "lock": lock,
                "hooks": bool(p.spec.get("hooks", True)), "how": p.spec.get("how", "ret"), "n": p.spec.get("n", 3),
                "prefail": bool(p.spec.get("prefail", False)), "hook_py": HOOK_PY, "python": sys.executable, "cwd": cwd}
        sp = self.d / f"spec-{p.idx}.json"
        sp.write_text(json.dumps(spec))
        self.emit("start", p.idx)
        p.popen = subprocess.Popen([sys.executable, "-m", "harness.x22_child", str(sp)], cwd=str(ROOT),
                                   stdin=subprocess.DEVNULL, stdout=subprocess.DEVNULL, stderr=subprocess.DEVNULL,
                                   start_new_session=True)
        p.state = "starting"
        self.settle()

    def token(self, p: Proc) -> None:
        self.emit("go", p.idx, p.at)
        p.state = "running"
        os.write(self.ctl[p.idx], b"g")
        self.settle()

    def go(self, p: Proc) -> None:
        if p.state != "paused":
            self.emit("skip", p.idx, "go")
            return
        cur = MODEL_CP[p.at]
        want = p.spec.get("mainat", "main")
        while True:
            self.token(p)
            self.new_action()
            if p.state != "paused":
                return
            m = MODEL_CP[p.at]
            if m == cur:
                continue  # setup -> main -> teardown are one resting point of the model
            if m == "main" and p.at in MAIN_ORDER and MAIN_ORDER.index(p.at) < MAIN_ORDER.index(want):
                continue  # coming from the pre-hook: move on to the wanted place inside setup/main/teardown
            return

    def interrupt(self, p: Proc) -> None:
        if p.state == "blocked":
            self.emit("int", p.idx, "waiting")
            p.state = "intwait"
            p.t_mark = time.monotonic()
            os.kill(p.popen.pid, signal.SIGINT)
            self.settle()
        elif p.state == "paused" and MODEL_CP.get(p.at) == "main":
            self.emit("int", p.idx, p.at)
            p.state = "running"
            os.kill(p.popen.pid, signal.SIGINT)
            self.settle()
        else:
            self.emit("skip", p.idx, "int")

    def kill(self, p: Proc) -> None:
        if p.state in ("new", "exited"):
            self.emit("skip", p.idx, "kill")
            return
        self.emit("kill", p.idx, p.at if p.state == "paused" else p.state)
        p.state = "running"
        os.kill(p.popen.pid, signal.SIGKILL)
        self.settle()

    def drain(self) -> None:
        t_end = time.monotonic() + 4 * self.tm.step
        while time.monotonic() < t_end:
            self.new_action()
            self.settle()
            live = [p for p in self.procs.values() if p.state not in ("new", "exited")]
            if not live:
                return
            paused = [p for p in live if p.state == "paused"]
            if not paused:
                if all(p.gave_up for p in live):
                    break
                continue
            for p in paused:
                if p.state == "paused":
                    self.token(p)
        for p in self.procs.values():
            if p.state not in ("new", "exited"):
                self.emit("stuck", p.idx, "drain")

    def run(self) -> dict[str, Any]:
        try:
            for a in self.s["acts"]:
                p = self.procs[int(a[1])]
                self.new_action()
                if a[0] == "start":
                    if p.state == "new":
                        self.start(p)
                    else:
                        self.emit("skip", p.idx, "start")
                elif a[0] == "go":
                    self.go(p)
                elif a[0] == "int":
                    self.interrupt(p)
                elif a[0] == "kill":
                    self.kill(p)
                self.new_action()
                self.settle()
                self.probe()
            self.drain()
            self.pump()
            return {"id": self.s["id"], "procs": self.s["procs"], "acts": self.s["acts"], "raw": self.raw,
                    "pre_msgs": {str(i): p.pre_msgs for i, p in self.procs.items()}}
        finally:
            self.cleanup()

    def cleanup(self) -> None:
        for p in self.procs.values():
            if p.popen is not None:
                try:
                    os.killpg(p.popen.pid, signal.SIGKILL)
                except (ProcessLookupError, PermissionError):
                    pass
                try:
                    p.popen.wait(timeout=10)
                except Exception:  # noqa: BLE001
                    pass
        for fd in list(self.ctl.values()) + [self.wfd]:
            try:
                os.close(fd)
            except OSError:
                pass
        self.rf.close()
        shutil.rmtree(self.d, ignore_errors=True)


def run_schedule(sched: dict[str, Any], baseline: set[str] | None, tm: Timing) -> dict[str, Any]:
    t0 = time.monotonic()
    r = Schedule(sched, baseline, tm).run()
    r["wall_s"] = round(time.monotonic() - t0, 2)
    return r


def run_all(scheds: list[dict[str, Any]], baseline: set[str] | None, tm: Timing, par: int = 6) -> list[dict[str, Any]]:
    with ThreadPoolExecutor(max_workers=par) as ex:
        return list(ex.map(lambda s: run_schedule(s, baseline, tm), scheds))


# ---------------------------------------------------------------------- re-coding for TLC
def encode(res: dict[str, Any], msg_ids: dict[str, int]) -> dict[str, Any]:
    """Uniform records [k, p, ph, n, m, t] (m = id of the log message text / lock group of a probe)."""
    ev = []
    for r in res["raw"]:
        m = 0
        ph = r.get("ph", "")
        if r["k"] == "log":
            m = msg_ids.setdefault(r.get("msg", ""), len(msg_ids) + 1)
        elif r["k"] == "probe":
            m, ph = int(ph), ""
        elif r["k"] == "ret" and "msg" in r:
            pass
        ev.append({"k": r["k"], "p": int(r.get("p", 0)), "ph": ph, "n": int(r.get("n", 0)), "m": m,
                   "t": min(int(r.get("t", 0)), 2_000_000_000)})
    procs = [{"g": (-1 if ps.get("bad") else int(ps["g"]))} for ps in res["procs"]]
    return {"id": res["id"], "procs": procs, "ev": ev}
