"""C16 plumbing: case families (seed x arguments), child processes, TLC batches,
and the exhaustive coin-flip enumeration of the real generator."""

from __future__ import annotations

import json
import os
import random
import shutil
import subprocess
import tempfile
from concurrent.futures import ThreadPoolExecutor
from pathlib import Path
from typing import Any

from harness import tlc
from harness.common import Machinery

CHILD = str(Path(__file__).resolve().parent / "c16_child.py")
PY = "/venv/bin/python"

DSC = 0x10
ALL_SERVICES = [0x01, 0x02, 0x03, 0x04, 0x05, 0x06, 0x07, 0x08, 0x09, 0x0A, 0x10, 0x11, 0x27, 0x28, 0x3E, 0x29,
                0x83, 0x84, 0x85, 0x86, 0x87, 0x22, 0x23, 0x24, 0x2A, 0x2C, 0x2E, 0x3D, 0x14, 0x19, 0x2F, 0x31,
                0x34, 0x35, 0x36, 0x37, 0x38, 0x7F]
FULL_SESSIONS = list(range(1, 0x7F))
P_KEYS = ["p_session", "p_service", "p_sub_function", "p_identifier", "p_correct_payload_format", "p_dtc_status_mask"]

# value None = leave the argument at gallia's default
MAND_SESS = {"default": None, "empty": [], "some": [1, 2, 3], "nodefault": [3, 0x40], "full": FULL_SESSIONS}
OPT_SESS = {"default": None, "empty": [], "few": [2, 3, 4], "full": FULL_SESSIONS}
MAND_SVC = {"default": None, "empty": [], "some": [0x10, 0x11, 0x22, 0x27, 0x3E, 0x19, 0x31], "full": ALL_SERVICES}
OPT_SVC = {"default": None, "empty": [], "few": [0x10, 0x11, 0x27, 0x22, 0x2E], "full": ALL_SERVICES}
P_PROFILES: dict[str, dict[str, float]] = {
    "default": {},
    "zero": {k: 0.0 for k in P_KEYS},
    "low": {k: 0.05 for k in P_KEYS},
    "half": {k: 0.5 for k in P_KEYS},
    "one": {k: 1.0 for k in P_KEYS},
    "sess1": {"p_session": 1.0},
    "svc1": {"p_service": 1.0, "p_sub_function": 0.5},
    "answers": {"p_service": 0.5, "p_identifier": 1.0, "p_correct_payload_format": 1.0, "p_sub_function": 0.5},
    "sparse": {"p_session": 0.5, "p_service": 0.05, "p_sub_function": 0.0},
    "nodtc": {"p_dtc_status_mask": 0.0, "p_service": 1.0, "p_identifier": 0.5, "p_correct_payload_format": 0.05},
}
BEHAVIORS: dict[str, dict[str, bool]] = {
    "default": {},
    "nosuppress": {"default_response_if_suppress": False},
    "nonone": {"default_response_if_none": False},
    "raw": {"default_response_if_incorrect_format": False, "default_response_if_session_read": False,
            "default_response_if_tester_present": False},
}

# (p profile, mandatory sessions, optional sessions, mandatory services, optional services, behaviour)
CORNERS: list[tuple[str, str, str, str, str, str]] = [
    ("default", "default", "default", "default", "default", "default"),
    ("zero", "default", "default", "default", "default", "default"),
    ("low", "default", "default", "default", "default", "default"),
    ("half", "default", "default", "default", "default", "default"),
    ("one", "default", "few", "default", "default", "default"),
    ("half", "empty", "empty", "default", "default", "default"),
    ("default", "full", "empty", "default", "empty", "default"),
    ("half", "some", "full", "some", "few", "default"),
    ("sess1", "nodefault", "few", "default", "default", "nosuppress"),
    ("answers", "some", "few", "some", "full", "default"),
    ("svc1", "default", "default", "full", "empty", "default"),
    ("one", "default", "default", "some", "few", "default"),
    ("sparse", "empty", "default", "default", "default", "nonone"),
    ("nodtc", "some", "empty", "default", "default", "raw"),
    ("low", "full", "full", "default", "few", "default"),
    ("zero", "some", "few", "some", "full", "default"),
    # DiagnosticSessionControl NOT among the mandatory services
    ("half", "default", "few", "empty", "default", "default"),
    ("sess1", "some", "few", "empty", "few", "default"),
    ("half", "some", "few", "empty", "empty", "default"),
    ("default", "default", "default", "default", "default", "default"),
]


def make_case(cid: int, seed: int, combo: tuple[str, str, str, str, str, str], tour: int = 5) -> dict[str, Any]:
    prof, ms, os_, mv, ov, beh = combo
    params: dict[str, Any] = dict(P_PROFILES[prof])
    for key, table, name in (("mandatory_sessions", MAND_SESS, ms), ("optional_sessions", OPT_SESS, os_),
                             ("mandatory_services", MAND_SVC, mv), ("optional_services", OPT_SVC, ov)):
        if table[name] is not None:
            params[key] = list(table[name])
    return {"id": cid, "seed": seed, "params": params, "behavior": dict(BEHAVIORS[beh]),
            "hist": {"tour": tour, "cap": 220}, "combo": list(combo)}


def case_family(tier: str, seed: int) -> list[dict[str, Any]]:
    rnd = random.Random(seed * 1000003 + 16)
    n = 20 if tier == "quick" else 500
    cases = []
    for i in range(n):
        if i < len(CORNERS):
            combo = CORNERS[i]
        else:
            combo = (rnd.choice(list(P_PROFILES)), rnd.choice(list(MAND_SESS)), rnd.choice(list(OPT_SESS)),
                     rnd.choices(list(MAND_SVC), weights=[5, 1, 3, 2])[0], rnd.choice(list(OPT_SVC)),
                     rnd.choices(list(BEHAVIORS), weights=[5, 1, 1, 1])[0])
        s = rnd.choice([rnd.randrange(0, 100), rnd.randrange(0, 2**31), rnd.randrange(0, 2**63)])
        c = make_case(i, s, combo)
        if i >= len(CORNERS) and i % 5 != 0:
            c["hist"]["sweep"] = "short"
        cases.append(c)
    return cases


def mandatory_of(case: dict[str, Any]) -> tuple[list[int], list[int]]:
    """The mandatory lists in force (gallia defaults: sessions [1], services [DSC]);
    these come from the ARGUMENTS of the case, not from the code under test."""
    p = case["params"]
    return list(p.get("mandatory_sessions", [1])), list(p.get("mandatory_services", [DSC]))


def variants(seed: int) -> list[dict[str, Any]]:
    rnd = random.Random(seed + 77)
    return [
        {"name": "A", "hashseed": "0", "import_first": "server", "clock_base": 1.0e9, "global_seed": None,
         "via_config": False, "reverse": False},
        {"name": "B", "hashseed": "1", "import_first": "commands", "clock_base": 1.7e9 + rnd.randrange(10**6),
         "global_seed": None, "via_config": True, "reverse": False, "pace": 4.0},
        {"name": "C", "hashseed": str(rnd.randrange(2, 2**32 - 1)), "import_first": "server",
         "clock_base": 2.0e9 + rnd.randrange(10**6), "global_seed": rnd.randrange(1, 2**31), "via_config": False,
         "reverse": True, "pace": 0.3},
    ]


# --------------------------------------------------------------------------
# "crowded" process environments: the judged ECU is not the only RandomUDSServer of its interpreter.
# Neighbour indices (case["pool"]): 0 another seed AND other arguments, 1 the same seed with other arguments,
# 2 another seed with the same arguments, 3 an exact twin (same seed, same arguments).
# The plans are interpreted by c16_child.Crowd; they only say WHEN other ECUs are constructed / set up / used
# relative to the judged one: before it exists, between its construction and its setup(), between its setup() and
# its first request, between two of its requests, around its restarts, concurrently (asyncio.gather).

CROWD_PLANS: list[dict[str, Any]] = [
    # B first: others are built, set up and used, THEN the judged ECU starts; they stay in use around its restarts
    {"name": "neighbours-first",
     "start": [["new", 0], ["req", 0, 40], ["new", 1], ["new", 3], ["req", 1, 15], ["req", 3, 15]],
     "restart": [["req", 0, 6], ["req", 1, 3]], "end": [["req", 0, 10], ["req", 3, 10]]},
    # A.setup, B.setup, A.history
    {"name": "setup-then-neighbours",
     "ready": [["new", 0], ["req", 0, 30], ["new", 2], ["req", 2, 10]],
     "restarted": [["new", 1], ["req", 1, 5]], "end": [["req", 0, 5]]},
    # constructed side by side, set up in between
    {"name": "built-side-by-side",
     "start": [["create", 0], ["create", 1]], "created": [["setup", 0], ["create", 2]],
     "ready": [["setup", 1], ["setup", 2], ["req", 1, 8], ["req", 0, 8]],
     "restart": [["create", 0], ["create", 3]], "recreated": [["setup", 0]], "restarted": [["setup", 3], ["req", 3, 4]]},
    # A.setup, A.part, B.setup, B.requests, A.rest (several positions)
    {"name": "mid-history",
     "at": [[0.02, [["new", 0], ["req", 0, 20]]], [0.35, [["new", 1], ["req", 1, 25], ["req", 0, 5]]],
            [0.7, [["new", 3], ["req", 3, 20], ["new", 2], ["req", 2, 10]]], [0.93, [["new", 0], ["req", 0, 5]]]],
     "restart": [["req", 1, 3]]},
    # all alive from the start, requests interleaved one by one, a late comer half way
    {"name": "interleaved",
     "start": [["create", 0], ["create", 1], ["create", 2], ["create", 3]],
     "ready": [["setup", 3], ["setup", 1], ["setup", 2], ["setup", 0]],
     "every": [5, 1], "at": [[0.5, [["new", 0]]]], "restarted": [["new", 2]]},
    # setups and requests as concurrent tasks of one event loop
    {"name": "concurrent-tasks",
     "start": [["create", 0], ["create", 1], ["create", 2]], "gather": {"before": [0, 1], "after": [2]},
     "ready": [["req", 0, 10], ["req", 2, 10]], "every": [9, 2, "concurrent"], "restarted": [["new", 3], ["req", 3, 5]]},
]
# process settings of the crowd runs (hash seed, import order, construction path, pacing, global RNG): as varied
# as those of the lone runs
_CROWD_PROC = [("11", "server", False, None, False), ("12", "commands", True, 4.0, False), ("13", "server", False, 0.3, True),
               ("14", "commands", False, None, False), ("15", "server", True, 0.3, False), ("16", "server", False, 4.0, True)]


def crowd_variants(seed: int, mutant: str | None = None) -> list[dict[str, Any]]:
    """run 1 = the twin that lives alone in its interpreter; runs 2.. = one crowded process per plan"""
    rnd = random.Random(seed + 1613)
    out: list[dict[str, Any]] = [
        {"name": "alone", "hashseed": "0", "import_first": "server", "clock_base": 1.0e9, "global_seed": None,
         "via_config": False, "reverse": False, "alone": True}]
    for plan, (hs, imp, via, pace, gs) in zip(CROWD_PLANS, _CROWD_PROC):
        v: dict[str, Any] = {"name": "crowd:" + plan["name"], "hashseed": hs, "import_first": imp,
                             "clock_base": 1.2e9 + rnd.randrange(10**8), "via_config": via, "reverse": False,
                             "global_seed": rnd.randrange(1, 2**31) if gs else None, "crowd": plan}
        if pace:
            v["pace"] = pace
        if mutant:
            v["mutant"] = mutant
            v["name"] += "/" + mutant
        out.append(v)
    return out


def _spec(c: dict[str, Any], seed: int | None = None) -> dict[str, Any]:
    return {"seed": c["seed"] if seed is None else seed, "params": c["params"], "behavior": c["behavior"]}


def crowd_family(tier: str, seed: int, cases: list[dict[str, Any]], base_id: int = 4_000_000) -> list[dict[str, Any]]:
    """Judged cases = a spread of the seed x argument family (corner argument sets first); neighbours = other
    members of the same family."""
    n = len(cases)
    picks = [0, 3, 7, 9, 13, 16] if tier == "quick" else sorted(set([0, 3, 7, 9, 13, 16] + list(range(1, n, 9))))
    out = []
    for k, i in enumerate(x for x in picks if x < n):
        c = cases[i]
        other = next(cases[(i + d) % n] for d in (7, 5, 3, 1, 2) if cases[(i + d) % n]["params"] != c["params"])
        other2 = next(cases[(i + d) % n] for d in (4, 6, 8, 9, 11) if cases[(i + d) % n]["params"] != c["params"])
        j = dict(c, id=base_id + k, hist=dict(c["hist"], tour=2, cap=70, sa_segments=3, sweep="short"))
        j["pool"] = [_spec(other), dict(_spec(other2), seed=c["seed"]), _spec(c, seed=c["seed"] + 1 + k), _spec(c)]
        j["crowd_of"] = i
        out.append(j)
    return out


def check_crowd_stats(res: dict[str, dict[int, dict[str, Any]]], vars_: list[dict[str, Any]]) -> dict[str, Any]:
    """Machinery check: every crowded run really had neighbours that were set up and used."""
    tot: dict[str, dict[str, int]] = {}
    for v in vars_:
        if "crowd" not in v:
            if any("crowd" in r for r in res[v["name"]].values()):
                raise Machinery("the lone twin reports a crowd")
            continue
        t = tot.setdefault(v["name"], {"created": 0, "setups": 0, "requests": 0, "nb_failed": 0, "skipped": 0})
        for cid, r in res[v["name"]].items():
            st = r.get("crowd")
            if "setup_exc" in r and st is None:
                continue
            if not st or st["setups"] < 2 or st["requests"] < 10:
                raise Machinery(f"crowd run {v['name']} of case {cid} had no working neighbours: {st}")
            for k in t:
                t[k] += st.get(k, 0)
    return tot


def gallia_src() -> str:
    return os.environ.get("GALLIA_SRC", "/repo/src")


def run_children(cases: list[dict[str, Any]], vars_: list[dict[str, Any]], chunk: int = 7,
                 workers: int = 6, child: str = CHILD) -> dict[str, dict[int, dict[str, Any]]]:
    """Every variant runs every case, in separate interpreter processes (several cases per process)."""
    tmp = tempfile.mkdtemp(prefix="c16-")
    try:
        jobs = []
        for v in vars_:
            for off in range(0, len(cases), chunk):
                jobs.append((v, cases[off:off + chunk], len(jobs)))
        vendor_dir = os.path.join(tmp, "site-vendor")
        if any("vendor" in v for v in vars_):
            for rel, src in VENDOR_FILES.items():
                os.makedirs(os.path.dirname(os.path.join(vendor_dir, rel)), exist_ok=True)
                with open(os.path.join(vendor_dir, rel), "w") as f:
                    f.write(src)

        def one(job: tuple[dict[str, Any], list[dict[str, Any]], int]) -> tuple[str, list[dict[str, Any]]]:
            v, cs, k = job
            jp, op = os.path.join(tmp, f"job{k}.json"), os.path.join(tmp, f"out{k}.json")
            with open(jp, "w") as f:
                json.dump({"variant": v, "cases": cs}, f)
            env = {"PATH": os.environ.get("PATH", "/usr/bin:/bin"), "PYTHONPATH": gallia_src(),
                   "PYTHONHASHSEED": v["hashseed"], "PYTHONDONTWRITEBYTECODE": "1", "HOME": tmp}
            if "vendor" in v:  # an installed vendor package: importable, imported when the variant says so
                env["PYTHONPATH"] += os.pathsep + vendor_dir
            p = subprocess.run([PY, child, jp, op], env=env, cwd=tmp, capture_output=True, text=True, timeout=1200)
            if p.returncode != 0 or not os.path.exists(op):
                raise Machinery(f"child {v['name']} failed rc={p.returncode}: {p.stderr[-1500:]}")
            with open(op) as f:
                out = json.load(f)
            os.unlink(op)
            if out.get("hashseed") != v["hashseed"]:
                raise Machinery("child did not run with the requested PYTHONHASHSEED")
            return v["name"], out["results"]

        res: dict[str, dict[int, dict[str, Any]]] = {v["name"]: {} for v in vars_}
        with ThreadPoolExecutor(max_workers=workers) as ex:
            for name, results in ex.map(one, jobs):
                for r in results:
                    res[name][r["id"]] = r
        return res
    finally:
        shutil.rmtree(tmp, ignore_errors=True)


def run_crowd(cases: list[dict[str, Any]], vars_: list[dict[str, Any]], workers: int = 6) -> dict[str, dict[int, dict[str, Any]]]:
    """The lone twin gets an interpreter of its own per case; a crowded interpreter serves a few judged cases one
    after the other (their neighbours included)."""
    lone = [v for v in vars_ if "crowd" not in v]
    crowded = [v for v in vars_ if "crowd" in v]
    with ThreadPoolExecutor(max_workers=2) as ex:
        fa = ex.submit(run_children, cases, lone, 1, workers) if lone else None
        fc = ex.submit(run_children, cases, crowded, 3, workers)
        res = dict(fc.result())
        if fa is not None:
            res.update(fa.result())
    return res


def tlc_run_of(r: dict[str, Any]) -> dict[str, Any]:
    if "setup_exc" in r:
        return {"setup": "exc", "m": [], "tr": []}
    return {"setup": "ok", "m": r["model"],
            "tr": [{"q": s["q"], "k": s["k"], "o": s["o"], "r": s["r"]} for s in r.get("tr", [])]}


def tlc_case(cid: int, mand_s: list[int], mand_v: list[int], runs: list[dict[str, Any]]) -> dict[str, Any]:
    return {"id": cid, "mandS": mand_s, "mandV": mand_v, "runs": runs}


def validate(tcases: list[dict[str, Any]], capacity: int = 45_000, workers: int = 5) -> tuple[dict[int, dict[str, Any]], list[Any]]:
    """TLC decides: returns id -> {"a": {...}, "b": {...}} and the TLC results.
    Batches are filled by weight (recorded steps) so that one JVM start serves many small cases."""
    batches: list[list[dict[str, Any]]] = []
    cur: list[dict[str, Any]] = []
    w = 0
    for c in sorted(tcases, key=lambda c: -sum(len(r["tr"]) for r in c["runs"])):
        cw = 40 + sum(len(r["tr"]) + 2 * len(r["m"]) for r in c["runs"])
        if cur and w + cw > capacity:
            batches.append(cur)
            cur, w = [], 0
        cur.append(c)
        w += cw
    if cur:
        batches.append(cur)

    def one(b: list[dict[str, Any]]) -> Any:
        return tlc.validate_batch("Trace_VEcuModel", "Trace_VEcuModel.cfg", {"cases": b}, timeout=1500,
                                  env={"JAVA_TOOL_OPTIONS": "-Xss768m"}, heap="3g")

    verdicts: dict[int, dict[str, Any]] = {}
    results = []
    with ThreadPoolExecutor(max_workers=workers) as ex:
        for res in ex.map(one, batches):
            results.append(res)
            for p in res.prints:
                if isinstance(p, list) and len(p) == 7 and p[0] == "V":
                    verdicts.setdefault(p[1], {})[p[2]] = {"v": p[3], "run": p[4], "at": p[5], "u": p[6]}
    missing = [c["id"] for c in tcases if set(verdicts.get(c["id"], {})) != {"a", "b"}]
    if missing:
        raise Machinery(f"TLC produced no verdict for {len(missing)} cases (first id {missing[0]}):\n"
                        + results[-1].out[-2500:])
    return verdicts, results


# --------------------------------------------------------------------------
# exhaustive coin-flip enumeration of the REAL generator (in this process)


class _Unscripted(Exception):
    pass


def enumerate_generator(mand: list[int], opt: list[int], limit: int | None = None) -> dict[tuple, dict[str, Any]]:
    """Runs RandomUDSServer.setup() once per outcome vector of the generator's
    coins (rng.random() < p, rng.choice) and returns
    {graph key: {"vec": first vector, "model": dump}}.  The RNG class the
    generator instantiates is replaced IN THIS PROCESS by a scripted one."""
    import asyncio

    import gallia.services.uds.server as S
    from gallia.services.uds.core.constants import UDSIsoServices

    from harness.c16_child import dump_model
    from harness.enum import explore

    class ScriptedRNG(random.Random):
        chooser: Any = None

        def __init__(self, *a: Any) -> None:
            super().__init__(0)

        def random(self) -> float:
            return 0.0 if ScriptedRNG.chooser.choose(2) == 1 else 0.999999

        def choice(self, seq: Any) -> Any:
            return seq[ScriptedRNG.chooser.choose(len(seq))]

        def getrandbits(self, k: int) -> int:
            raise _Unscripted("generator drew randomness through an API the harness does not script")

    orig = S.RNG
    S.RNG = ScriptedRNG  # type: ignore[misc]
    loop = asyncio.new_event_loop()
    try:
        params = S.RandomUDSServer.RandomnessParameters(
            mandatory_sessions=mand, optional_sessions=opt, p_session=0.5,
            mandatory_services=[UDSIsoServices.DiagnosticSessionControl], optional_services=[])

        def run(ch: Any) -> list[dict[str, Any]]:
            ScriptedRNG.chooser = ch
            srv = S.RandomUDSServer(0, params)
            loop.run_until_complete(srv.setup())
            return dump_model(srv.services)

        out: dict[tuple, dict[str, Any]] = {}
        n = 0
        try:
            for vec, model in explore(run, 10_000, limit=limit):
                n += 1
                key = graph_key_of_model(model, sorted(set(mand + opt + [1])))
                if key not in out:
                    out[key] = {"vec": vec, "model": model}
        except _Unscripted as e:
            raise Machinery(str(e)) from e
        enumerate_generator.runs = n  # type: ignore[attr-defined]
        return out
    finally:
        S.RNG = orig  # type: ignore[misc]
        loop.close()


def graph_key_of_model(model: list[dict[str, Any]], universe: list[int]) -> tuple:
    t: dict[int, tuple[int, ...]] = {}
    for e in model:
        for v in e["svcs"]:
            if v["id"] == DSC:
                t[e["s"]] = tuple(sorted(set(v["sf"])))
    return tuple((s, t.get(s, ())) for s in universe)


def graph_key_of_tlc(val: Any, universe: list[int]) -> tuple:
    """TLC prints a function with domain 1..n as a tuple, others as (k :> v @@ ...)."""
    if isinstance(val, list):
        pairs = {i + 1: v for i, v in enumerate(val)}
    else:
        pairs = {k: v for k, v in val["$fn"]}
    return tuple((s, tuple(sorted(pairs[s]["$set"])) if s in pairs else ()) for s in universe)


# --------------------------------------------------------------------------
# "vendor" process environments: the codec registry of the process is not the stock one.
# gallia's registry of service classes (UDSService._SERVICES) is open: every subclass of UDSService registers itself
# when its class statement runs, wherever it is defined.  A vendor package that ships classes for ISO 14229 services
# gallia has no class for is therefore part of the process environment, and WHEN it is imported relative to gallia's
# own modules is an import order like any other.  The modules below are written into a directory on the child's
# PYTHONPATH; they only use gallia's public base classes, the way gallia's own service.py does.

_VENDOR_HEADER = '''"""synthetic vendor package of the C16 harness: {doc}"""
from gallia.services.uds.core.constants import UDSIsoServices
from gallia.services.uds.core.service import (
    PositiveResponse,
    SpecializedSubFunctionRequest,
    SpecializedSubFunctionResponse,
    SpecializedSubFunctionService,
    SubFunction,
    SubFunctionRequest,
    SubFunctionResponse,
    UDSRequest,
    UDSService,
)
from gallia.services.uds.core.utils import sub_function_split
'''

# a service with a sub-function byte: UDSService whose Request is a SubFunctionRequest (like gallia's ECUReset)
_VENDOR_SF = '''

class {X}Response(SubFunctionResponse, service_id=UDSIsoServices.{N}, minimal_length=2, maximal_length=None):
    def __init__(self, sub, record=b""):
        self.sub = sub
        self.record = record
        super().__init__()

    @property
    def pdu(self):
        return bytes([self.RESPONSE_SERVICE_ID, self.sub]) + self.record

    @classmethod
    def _from_pdu(cls, pdu):
        return cls(pdu[1], pdu[2:])

    def matches(self, request):
        return isinstance(request, {X}Request) and request.sub_function == self.sub_function

    @property
    def sub_function(self):
        return self.sub


class {X}Request(SubFunctionRequest, service_id=UDSIsoServices.{N}, response_type={X}Response,
                 minimal_length=2, maximal_length=None):
    def __init__(self, sub, record=b"", suppress_response=False):
        self.sub = sub
        self.record = record
        super().__init__(suppress_response)

    @property
    def pdu(self):
        return bytes([self.SERVICE_ID, self.sub_function_with_suppress_response_bit]) + self.record

    @classmethod
    def _from_pdu(cls, pdu):
        sub, suppress_response = sub_function_split(pdu[1])
        return cls(sub, pdu[2:], suppress_response)

    @property
    def sub_function(self):
        return self.sub


class {X}(UDSService, service_id=UDSIsoServices.{N}):
    Response = {X}Response
    Request = {X}Request
'''

# a service with a sub-function byte: SpecializedSubFunctionService with one class pair per sub-function (like
# gallia's DynamicallyDefineDataIdentifier); the service class itself has no Request
_VENDOR_SPEC_ONE = '''

class {X}{S}Response(SpecializedSubFunctionResponse, service_id=UDSIsoServices.{N}, sub_function_id={sf},
                     minimal_length=2, maximal_length=None):
    def __init__(self, record=b""):
        self.record = record
        super().__init__()

    @property
    def pdu(self):
        return bytes([self.RESPONSE_SERVICE_ID, self.SUB_FUNCTION_ID]) + self.record

    @classmethod
    def _from_pdu(cls, pdu):
        return cls(pdu[2:])

    def matches(self, request):
        return isinstance(request, {X}{S}Request)


class {X}{S}Request(SpecializedSubFunctionRequest, service_id=UDSIsoServices.{N}, sub_function_id={sf},
                    response_type={X}{S}Response, minimal_length=2, maximal_length=None):
    def __init__(self, record=b"", suppress_response=False):
        self.record = record
        super().__init__(suppress_response)

    @property
    def pdu(self):
        return bytes([self.SERVICE_ID, self.sub_function_with_suppress_response_bit]) + self.record

    @classmethod
    def _from_pdu(cls, pdu):
        return cls(pdu[2:], cls.suppress_response_set(pdu))
'''
_VENDOR_SPEC_SVC = '''

class {X}(SpecializedSubFunctionService, service_id=UDSIsoServices.{N}):
{inner}
'''
_VENDOR_SPEC_INNER = '''    class {S}(SubFunction, sub_function_id={sf}):
        Request = {X}{S}Request
        Response = {X}{S}Response
'''

# a service WITHOUT a sub-function byte (like gallia's ClearDiagnosticInformation): control members of the family
_VENDOR_PLAIN = '''

class {X}Response(PositiveResponse, service_id=UDSIsoServices.{N}, minimal_length=1, maximal_length=None):
    def __init__(self, record=b""):
        super().__init__()
        self.record = record

    @property
    def pdu(self):
        return bytes([self.RESPONSE_SERVICE_ID]) + self.record

    @classmethod
    def _from_pdu(cls, pdu):
        return cls(pdu[1:])

    def matches(self, request):
        return isinstance(request, {X}Request)


class {X}Request(UDSRequest, service_id=UDSIsoServices.{N}, response_type={X}Response,
                 minimal_length=1, maximal_length=None):
    def __init__(self, record=b""):
        self.record = record

    @property
    def pdu(self):
        return bytes([self.SERVICE_ID]) + self.record

    @classmethod
    def _from_pdu(cls, pdu):
        return cls(pdu[1:])


class {X}(UDSService, service_id=UDSIsoServices.{N}):
    Response = {X}Response
    Request = {X}Request
'''


def _v_sf(name: str) -> str:
    return _VENDOR_SF.format(X="Vendor" + name, N=name)


def _v_plain(name: str) -> str:
    return _VENDOR_PLAIN.format(X="Vendor" + name, N=name)


def _v_spec(name: str, subs: dict[str, int]) -> str:
    x = "Vendor" + name
    return ("".join(_VENDOR_SPEC_ONE.format(X=x, N=name, S=s, sf=sf) for s, sf in subs.items())
            + _VENDOR_SPEC_SVC.format(X=x, N=name, inner="\n".join(_VENDOR_SPEC_INNER.format(X=x, S=s, sf=sf)
                                                                   for s, sf in subs.items())))


_AUTH_SUBS = {"DeAuthenticate": 0x00, "VerifyCertificateUnidirectional": 0x01, "AuthenticationConfiguration": 0x08}
# ISO 14229-1 services that have a member in UDSIsoServices but no class in stock gallia
VENDOR_SF_IDS = [0x29, 0x83, 0x86, 0x87]          # carry a sub-function byte
VENDOR_PLAIN_IDS = [0x24, 0x2A, 0x38, 0x84]       # do not
VENDOR_FILES: dict[str, str] = {
    # one module, one service
    "c16_vendor_link.py": _VENDOR_HEADER.format(doc="LinkControl") + _v_sf("LinkControl"),
    # one module, everything gallia has no class for
    "c16_vendor_iso.py": (_VENDOR_HEADER.format(doc="all ISO services without a class in gallia")
                          + _v_sf("AccessTimingParameter") + _v_sf("ResponseOnEvent") + _v_sf("LinkControl")
                          + _v_spec("Authentication", _AUTH_SUBS) + _v_plain("SecuredDataTransmission")
                          + _v_plain("ReadScalingDataByIdentifier") + _v_plain("ReadDataByPeriodicIdentifier")
                          + _v_plain("RequestFileTransfer")),
    # two independent contributors: a module and a package whose __init__ pulls in its codecs
    "c16_vendor_timing.py": (_VENDOR_HEADER.format(doc="AccessTimingParameter, Authentication")
                             + _v_sf("AccessTimingParameter") + _v_spec("Authentication", _AUTH_SUBS)
                             + _v_plain("ReadScalingDataByIdentifier")),
    "c16_vendor_events/__init__.py": '"""synthetic vendor package of the C16 harness"""\n'
                                     "from c16_vendor_events import codecs  # noqa: F401\n",
    "c16_vendor_events/codecs.py": (_VENDOR_HEADER.format(doc="ResponseOnEvent, LinkControl")
                                    + _v_sf("ResponseOnEvent") + _v_sf("LinkControl")
                                    + _v_plain("SecuredDataTransmission")),
}

# Stages at which a child imports a vendor module (c16_child.vendor_stage):
#   "pre"          before any gallia module (the vendor module pulls in gallia.services.uds.core.service itself)
#   "post-core"    after `import gallia.services.uds` (codecs, client), before gallia.services.uds.server
#   "post-server"  after gallia.services.uds.server (and, with import_first = commands, gallia.commands...vecu)
#   "pre-create"   in the running event loop, right before the first judged server object is constructed
#   "post-create"  between the construction of the first judged server and its setup()
#   "post-setup"   after its setup(), before its model is dumped and the first request is sent
# A GROUP is a set of twin processes: same vendor modules, registered in the same phase of the ECU's life ("phase":
# before it is constructed / between construction and setup() / after setup()), in different orders relative to
# gallia's modules and to each other, with different hash seeds / construction paths.  Equality (M1 / D1) is only
# demanded INSIDE a group: a process without the vendor module, or one that registers it in another phase of the
# ECU's life, is a different environment / a different sequence of events and outside the statement.
_B = "before-construction"
VENDOR_GROUPS: list[dict[str, Any]] = [
    {"name": "link", "phase": _B, "runs": [
        ("0", "server", False, [["pre", "c16_vendor_link"]]),
        ("21", "server", False, [["post-server", "c16_vendor_link"]]),
        ("22", "commands", True, [["post-server", "c16_vendor_link"]]),
        ("23", "server", False, [["pre-create", "c16_vendor_link"]])]},
    {"name": "iso", "phase": _B, "runs": [
        ("24", "server", False, [["post-server", "c16_vendor_iso"]]),
        ("0", "commands", False, [["pre", "c16_vendor_iso"]]),
        ("25", "server", True, [["post-core", "c16_vendor_iso"]]),
        ("26", "commands", True, [["pre-create", "c16_vendor_iso"]])]},
    {"name": "two-contributors", "phase": _B, "runs": [
        ("27", "server", False, [["pre", "c16_vendor_timing"], ["post-server", "c16_vendor_events"]]),
        ("28", "server", False, [["pre", "c16_vendor_events"], ["post-server", "c16_vendor_timing"]]),
        ("0", "commands", True, [["post-server", "c16_vendor_events"], ["post-server", "c16_vendor_timing"]]),
        ("29", "server", False, [["post-core", "c16_vendor_timing"], ["pre-create", "c16_vendor_events"]])]},
    {"name": "link@constructed", "phase": "between-construction-and-setup", "runs": [
        ("0", "server", False, [["post-create", "c16_vendor_link"]]),
        ("31", "commands", True, [["post-create", "c16_vendor_link"]])]},
    {"name": "iso@set-up", "phase": "after-setup", "runs": [
        ("32", "commands", False, [["post-setup", "c16_vendor_iso"]]),
        ("0", "server", False, [["post-setup", "c16_vendor_iso"]])]},
]
VENDOR_STAGES = {"pre": _B, "post-core": _B, "post-server": _B, "pre-create": _B,
                 "post-create": "between-construction-and-setup", "post-setup": "after-setup"}


def vendor_variants(seed: int, mutant: str | None = None) -> dict[str, list[dict[str, Any]]]:
    """group name -> process variants (run 1 = the reference of the group)"""
    rnd = random.Random(seed + 1687)
    out: dict[str, list[dict[str, Any]]] = {}
    for g in VENDOR_GROUPS:
        vs = []
        for k, (hs, imp, via, steps) in enumerate(g["runs"]):
            if any(VENDOR_STAGES[st] != g["phase"] for st, _m in steps):
                raise Machinery(f"vendor group {g['name']}: a run registers services in another phase than {g['phase']}")
            v: dict[str, Any] = {"name": f"vendor:{g['name']}#{k + 1}", "hashseed": hs, "import_first": imp,
                                 "clock_base": 1.3e9 + rnd.randrange(10**8), "global_seed": None, "via_config": via,
                                 "reverse": False, "vendor": {"group": g["name"], "phase": g["phase"], "steps": steps}}
            if mutant:
                v["mutant"] = mutant
                v["name"] += "/" + mutant
            vs.append(v)
        out[g["name"]] = vs
    return out


# argument sets whose service lists make the model draw the services a vendor package contributes
# (p profile, mandatory sessions, optional sessions, mandatory services, optional services, behaviour)
VENDOR_ARGS: list[tuple[str, str, str, list[int] | None, list[int] | None, str]] = [
    ("default", "default", "default", None, None, "default"),   # gallia's default optional list = every ISO service
    ("half", "some", "few", [0x10, 0x87, 0x22, 0x83], [0x11, 0x27, 0x29, 0x86, 0x84, 0x2E], "default"),
    ("svc1", "default", "few", ALL_SERVICES, [], "default"),
    ("answers", "some", "few", [0x10, 0x22, 0x27, 0x3E], ALL_SERVICES, "nosuppress"),
    ("half", "default", "few", [0x29, 0x86], [0x87, 0x83, 0x24, 0x38, 0x10, 0x19], "default"),  # DSC not mandatory
    ("low", "nodefault", "few", [0x10, 0x87], [0x83, 0x84, 0x85, 0x86, 0x28], "raw"),
]


def vendor_family(tier: str, seed: int, base_id: int = 5_000_000) -> dict[str, list[dict[str, Any]]]:
    """group name -> judged cases (seed x arguments); every group sees several argument sets and seeds"""
    rnd = random.Random(seed * 7 + 1691)
    out: dict[str, list[dict[str, Any]]] = {}
    for gi, g in enumerate(VENDOR_GROUPS):
        early = g["phase"] == _B
        n = (4 if early else 2) if tier == "quick" else (12 if early else 6)
        cases = []
        for k in range(n):
            prof, ms, os_, mv, ov, beh = VENDOR_ARGS[(k + gi) % len(VENDOR_ARGS)]
            c = make_case(base_id + 1000 * gi + k, rnd.choice([rnd.randrange(0, 100), rnd.randrange(0, 2**31)]),
                          (prof, ms, os_, "default", "default", beh))
            if mv is not None:
                c["params"]["mandatory_services"] = list(mv)
            if ov is not None:
                c["params"]["optional_services"] = list(ov)
            c["combo"] = [prof, ms, os_, mv, ov, beh]
            # the blocks of the contributed services come first in every session block (the cap cuts the rest)
            c["hist"] = {"tour": 2, "cap": 110, "sa_segments": 2, "sweep": "short",
                         "first": VENDOR_SF_IDS + VENDOR_PLAIN_IDS}
            c["vendor_group"] = g["name"]
            cases.append(c)
        out[g["name"]] = cases
    return out


def run_vendor(fam: dict[str, list[dict[str, Any]]], vvs: dict[str, list[dict[str, Any]]],
               workers: int = 6) -> dict[str, dict[str, dict[int, dict[str, Any]]]]:
    """group name -> variant name -> case id -> result.  Groups that register their services while the ECU already
    exists get one interpreter per case (a second case of the same interpreter would find them registered)."""
    def one(name: str) -> tuple[str, dict[str, dict[int, dict[str, Any]]]]:
        early = all(VENDOR_STAGES[st] == _B for v in vvs[name] for st, _m in v["vendor"]["steps"])
        return name, run_children(fam[name], vvs[name], chunk=4 if early else 1, workers=workers)

    with ThreadPoolExecutor(max_workers=len(fam)) as ex:
        return dict(ex.map(one, list(fam)))


def check_vendor_stats(res: dict[str, dict[int, dict[str, Any]]], vars_: list[dict[str, Any]],
                       cases: list[dict[str, Any]]) -> dict[str, Any]:
    """Machinery check of one group: the twins really are twins (same contributed classes registered at the same
    moments of the ECU's life, at least one of them), and the arguments made the model offer contributed services.
    What the ECU makes of them is NOT looked at here."""
    offered = 0
    with_sf = 0
    regs = set()
    for c in cases:
        seen = set()
        for v in vars_:
            r = res[v["name"]][c["id"]]
            reg = r.get("vendor")
            if "setup_exc" in r:  # no ECU: M0 decides whether the twins agree on that
                continue
            if not reg or not reg.get("at_end"):
                raise Machinery(f"vendor run {v['name']} of case {c['id']} registered no service class: {reg}")
            seen.add(json.dumps(reg, sort_keys=True))
            for e in r.get("model", []):
                for s in e["svcs"]:
                    if s["id"] in reg["at_end"]:
                        offered += 1
                        with_sf += bool(s["hasSf"])
        if len(seen) != 1:
            raise Machinery(f"vendor case {c['id']}: the processes of group {vars_[0]['vendor']['group']} are no twins, "
                            f"their registries differ at construction / setup / end: {sorted(seen)}")
        regs |= seen
    if not offered:
        raise Machinery(f"vendor group {vars_[0]['vendor']['group']}: no model offers a contributed service")
    return {"registered": [json.loads(x) for x in sorted(regs)], "offered_contributed_services": offered,
            "of_which_with_sub_function_list": with_sf}
