"""C16 plumbing: case families (seed x arguments), child processes, TLC batches,
and the exhaustive coin-flip enumeration of the real generator."""

from __future__ import annotations

import json
import os
import random
import shutil
import subprocess
import tempfile
from concurrent.futures import ThreadPoolExecutor
from pathlib import Path
from typing import Any

from harness import tlc
from harness.common import Machinery

CHILD = str(Path(__file__).resolve().parent / "c16_child.py")
PY = "/venv/bin/python"

DSC = 0x10
ALL_SERVICES = [0x01, 0x02, 0x03, 0x04, 0x05, 0x06, 0x07, 0x08, 0x09, 0x0A, 0x10, 0x11, 0x27, 0x28, 0x3E, 0x29,
                0x83, 0x84, 0x85, 0x86, 0x87, 0x22, 0x23, 0x24, 0x2A, 0x2C, 0x2E, 0x3D, 0x14, 0x19, 0x2F, 0x31,
                0x34, 0x35, 0x36, 0x37, 0x38, 0x7F]
FULL_SESSIONS = list(range(1, 0x7F))
P_KEYS = ["p_session", "p_service", "p_sub_function", "p_identifier", "p_correct_payload_format", "p_dtc_status_mask"]

# value None = leave the argument at gallia's default
MAND_SESS = {"default": None, "empty": [], "some": [1, 2, 3], "nodefault": [3, 0x40], "full": FULL_SESSIONS}
OPT_SESS = {"default": None, "empty": [], "few": [2, 3, 4], "full": FULL_SESSIONS}
MAND_SVC = {"default": None, "empty": [], "some": [0x10, 0x11, 0x22, 0x27, 0x3E, 0x19, 0x31], "full": ALL_SERVICES}
OPT_SVC = {"default": None, "empty": [], "few": [0x10, 0x11, 0x27, 0x22, 0x2E], "full": ALL_SERVICES}
P_PROFILES: dict[str, dict[str, float]] = {
    "default": {},
    "zero": {k: 0.0 for k in P_KEYS},
    "low": {k: 0.05 for k in P_KEYS},
    "half": {k: 0.5 for k in P_KEYS},
    "one": {k: 1.0 for k in P_KEYS},
    "sess1": {"p_session": 1.0},
    "svc1": {"p_service": 1.0, "p_sub_function": 0.5},
    "answers": {"p_service": 0.5, "p_identifier": 1.0, "p_correct_payload_format": 1.0, "p_sub_function": 0.5},
    "sparse": {"p_session": 0.5, "p_service": 0.05, "p_sub_function": 0.0},
    "nodtc": {"p_dtc_status_mask": 0.0, "p_service": 1.0, "p_identifier": 0.5, "p_correct_payload_format": 0.05},
}
BEHAVIORS: dict[str, dict[str, bool]] = {
    "default": {},
    "nosuppress": {"default_response_if_suppress": False},
    "nonone": {"default_response_if_none": False},
    "raw": {"default_response_if_incorrect_format": False, "default_response_if_session_read": False,
            "default_response_if_tester_present": False},
}

# (p profile, mandatory sessions, optional sessions, mandatory services, optional services, behaviour)
CORNERS: list[tuple[str, str, str, str, str, str]] = [
    ("default", "default", "default", "default", "default", "default"),
    ("zero", "default", "default", "default", "default", "default"),
    ("low", "default", "default", "default", "default", "default"),
    ("half", "default", "default", "default", "default", "default"),
    ("one", "default", "few", "default", "default", "default"),
    ("half", "empty", "empty", "default", "default", "default"),
    ("default", "full", "empty", "default", "empty", "default"),
    ("half", "some", "full", "some", "few", "default"),
    ("sess1", "nodefault", "few", "default", "default", "nosuppress"),
    ("answers", "some", "few", "some", "full", "default"),
    ("svc1", "default", "default", "full", "empty", "default"),
    ("one", "default", "default", "some", "few", "default"),
    ("sparse", "empty", "default", "default", "default", "nonone"),
    ("nodtc", "some", "empty", "default", "default", "raw"),
    ("low", "full", "full", "default", "few", "default"),
    ("zero", "some", "few", "some", "full", "default"),
    # DiagnosticSessionControl NOT among the mandatory services
    ("half", "default", "few", "empty", "default", "default"),
    ("sess1", "some", "few", "empty", "few", "default"),
    ("half", "some", "few", "empty", "empty", "default"),
    ("default", "default", "default", "default", "default", "default"),
]


def make_case(cid: int, seed: int, combo: tuple[str, str, str, str, str, str], tour: int = 5) -> dict[str, Any]:
    prof, ms, os_, mv, ov, beh = combo
    params: dict[str, Any] = dict(P_PROFILES[prof])
    for key, table, name in (("mandatory_sessions", MAND_SESS, ms), ("optional_sessions", OPT_SESS, os_),
                             ("mandatory_services", MAND_SVC, mv), ("optional_services", OPT_SVC, ov)):
        if table[name] is not None:
            params[key] = list(table[name])
    return {"id": cid, "seed": seed, "params": params, "behavior": dict(BEHAVIORS[beh]),
            "hist": {"tour": tour, "cap": 220}, "combo": list(combo)}


def case_family(tier: str, seed: int) -> list[dict[str, Any]]:
    rnd = random.Random(seed * 1000003 + 16)
    n = 20 if tier == "quick" else 500
    cases = []
    for i in range(n):
        if i < len(CORNERS):
            combo = CORNERS[i]
        else:
            combo = (rnd.choice(list(P_PROFILES)), rnd.choice(list(MAND_SESS)), rnd.choice(list(OPT_SESS)),
                     rnd.choices(list(MAND_SVC), weights=[5, 1, 3, 2])[0], rnd.choice(list(OPT_SVC)),
                     rnd.choices(list(BEHAVIORS), weights=[5, 1, 1, 1])[0])
        s = rnd.choice([rnd.randrange(0, 100), rnd.randrange(0, 2**31), rnd.randrange(0, 2**63)])
        c = make_case(i, s, combo)
        if i >= len(CORNERS) and i % 5 != 0:
            c["hist"]["sweep"] = "short"
        cases.append(c)
    return cases


def mandatory_of(case: dict[str, Any]) -> tuple[list[int], list[int]]:
    """The mandatory lists in force (gallia defaults: sessions [1], services [DSC]);
    these come from the ARGUMENTS of the case, not from the code under test."""
    p = case["params"]
    return list(p.get("mandatory_sessions", [1])), list(p.get("mandatory_services", [DSC]))


def variants(seed: int) -> list[dict[str, Any]]:
    rnd = random.Random(seed + 77)
    return [
        {"name": "A", "hashseed": "0", "import_first": "server", "clock_base": 1.0e9, "global_seed": None,
         "via_config": False, "reverse": False},
        {"name": "B", "hashseed": "1", "import_first": "commands", "clock_base": 1.7e9 + rnd.randrange(10**6),
         "global_seed": None, "via_config": True, "reverse": False, "pace": 4.0},
        {"name": "C", "hashseed": str(rnd.randrange(2, 2**32 - 1)), "import_first": "server",
         "clock_base": 2.0e9 + rnd.randrange(10**6), "global_seed": rnd.randrange(1, 2**31), "via_config": False,
         "reverse": True, "pace": 0.3},
    ]


# --------------------------------------------------------------------------
# "crowded" process environments: the judged ECU is not the only RandomUDSServer of its interpreter.
# Neighbour indices (case["pool"]): 0 another seed AND other arguments, 1 the same seed with other arguments,
# 2 another seed with the same arguments, 3 an exact twin (same seed, same arguments).
# The plans are interpreted by c16_child.Crowd; they only say WHEN other ECUs are constructed / set up / used
# relative to the judged one: before it exists, between its construction and its setup(), between its setup() and
# its first request, between two of its requests, around its restarts, concurrently (asyncio.gather).

CROWD_PLANS: list[dict[str, Any]] = [
    # B first: others are built, set up and used, THEN the judged ECU starts; they stay in use around its restarts
    {"name": "neighbours-first",
     "start": [["new", 0], ["req", 0, 40], ["new", 1], ["new", 3], ["req", 1, 15], ["req", 3, 15]],
     "restart": [["req", 0, 6], ["req", 1, 3]], "end": [["req", 0, 10], ["req", 3, 10]]},
    # A.setup, B.setup, A.history
    {"name": "setup-then-neighbours",
     "ready": [["new", 0], ["req", 0, 30], ["new", 2], ["req", 2, 10]],
     "restarted": [["new", 1], ["req", 1, 5]], "end": [["req", 0, 5]]},
    # constructed side by side, set up in between
    {"name": "built-side-by-side",
     "start": [["create", 0], ["create", 1]], "created": [["setup", 0], ["create", 2]],
     "ready": [["setup", 1], ["setup", 2], ["req", 1, 8], ["req", 0, 8]],
     "restart": [["create", 0], ["create", 3]], "recreated": [["setup", 0]], "restarted": [["setup", 3], ["req", 3, 4]]},
    # A.setup, A.part, B.setup, B.requests, A.rest (several positions)
    {"name": "mid-history",
     "at": [[0.02, [["new", 0], ["req", 0, 20]]], [0.35, [["new", 1], ["req", 1, 25], ["req", 0, 5]]],
            [0.7, [["new", 3], ["req", 3, 20], ["new", 2], ["req", 2, 10]]], [0.93, [["new", 0], ["req", 0, 5]]]],
     "restart": [["req", 1, 3]]},
    # all alive from the start, requests interleaved one by one, a late comer half way
    {"name": "interleaved",
     "start": [["create", 0], ["create", 1], ["create", 2], ["create", 3]],
     "ready": [["setup", 3], ["setup", 1], ["setup", 2], ["setup", 0]],
     "every": [5, 1], "at": [[0.5, [["new", 0]]]], "restarted": [["new", 2]]},
    # setups and requests as concurrent tasks of one event loop
    {"name": "concurrent-tasks",
     "start": [["create", 0], ["create", 1], ["create", 2]], "gather": {"before": [0, 1], "after": [2]},
     "ready": [["req", 0, 10], ["req", 2, 10]], "every": [9, 2, "concurrent"], "restarted": [["new", 3], ["req", 3, 5]]},
]
# process settings of the crowd runs (hash seed, import order, construction path, pacing, global RNG): as varied
# as those of the lone runs
_CROWD_PROC = [("11", "server", False, None, False), ("12", "commands", True, 4.0, False), ("13", "server", False, 0.3, True),
               ("14", "commands", False, None, False), ("15", "server", True, 0.3, False), ("16", "server", False, 4.0, True)]


def crowd_variants(seed: int, mutant: str | None = None) -> list[dict[str, Any]]:
    """run 1 = the twin that lives alone in its interpreter; runs 2.. = one crowded process per plan"""
    rnd = random.Random(seed + 1613)
    out: list[dict[str, Any]] = [
        {"name": "alone", "hashseed": "0", "import_first": "server", "clock_base": 1.0e9, "global_seed": None,
         "via_config": False, "reverse": False, "alone": True}]
    for plan, (hs, imp, via, pace, gs) in zip(CROWD_PLANS, _CROWD_PROC):
        v: dict[str, Any] = {"name": "crowd:" + plan["name"], "hashseed": hs, "import_first": imp,
                             "clock_base": 1.2e9 + rnd.randrange(10**8), "via_config": via, "reverse": False,
                             "global_seed": rnd.randrange(1, 2**31) if gs else None, "crowd": plan}
        if pace:
            v["pace"] = pace
        if mutant:
            v["mutant"] = mutant
            v["name"] += "/" + mutant
        out.append(v)
    return out


def _spec(c: dict[str, Any], seed: int | None = None) -> dict[str, Any]:
    return {"seed": c["seed"] if seed is None else seed, "params": c["params"], "behavior": c["behavior"]}


def crowd_family(tier: str, seed: int, cases: list[dict[str, Any]], base_id: int = 4_000_000) -> list[dict[str, Any]]:
    """Judged cases = a spread of the seed x argument family (corner argument sets first); neighbours = other
    members of the same family."""
    n = len(cases)
    picks = [0, 3, 7, 9, 13, 16] if tier == "quick" else sorted(set([0, 3, 7, 9, 13, 16] + list(range(1, n, 9))))
    out = []
    for k, i in enumerate(x for x in picks if x < n):
        c = cases[i]
        other = next(cases[(i + d) % n] for d in (7, 5, 3, 1, 2) if cases[(i + d) % n]["params"] != c["params"])
        other2 = next(cases[(i + d) % n] for d in (4, 6, 8, 9, 11) if cases[(i + d) % n]["params"] != c["params"])
        j = dict(c, id=base_id + k, hist=dict(c["hist"], tour=2, cap=70, sa_segments=3, sweep="short"))
        j["pool"] = [_spec(other), dict(_spec(other2), seed=c["seed"]), _spec(c, seed=c["seed"] + 1 + k), _spec(c)]
        j["crowd_of"] = i
        out.append(j)
    return out


def check_crowd_stats(res: dict[str, dict[int, dict[str, Any]]], vars_: list[dict[str, Any]]) -> dict[str, Any]:
    """Machinery check: every crowded run really had neighbours that were set up and used."""
    tot: dict[str, dict[str, int]] = {}
    for v in vars_:
        if "crowd" not in v:
            if any("crowd" in r for r in res[v["name"]].values()):
                raise Machinery("the lone twin reports a crowd")
            continue
        t = tot.setdefault(v["name"], {"created": 0, "setups": 0, "requests": 0, "nb_failed": 0, "skipped": 0})
        for cid, r in res[v["name"]].items():
            st = r.get("crowd")
            if "setup_exc" in r and st is None:
                continue
            if not st or st["setups"] < 2 or st["requests"] < 10:
                raise Machinery(f"crowd run {v['name']} of case {cid} had no working neighbours: {st}")
            for k in t:
                t[k] += st.get(k, 0)
    return tot


def gallia_src() -> str:
    return os.environ.get("GALLIA_SRC", "/repo/src")


def run_children(cases: list[dict[str, Any]], vars_: list[dict[str, Any]], chunk: int = 7,
                 workers: int = 6, child: str = CHILD) -> dict[str, dict[int, dict[str, Any]]]:
    """Every variant runs every case, in separate interpreter processes (several cases per process)."""
    tmp = tempfile.mkdtemp(prefix="c16-")
    try:
        jobs = []
        for v in vars_:
            for off in range(0, len(cases), chunk):
                jobs.append((v, cases[off:off + chunk], len(jobs)))

        def one(job: tuple[dict[str, Any], list[dict[str, Any]], int]) -> tuple[str, list[dict[str, Any]]]:
            v, cs, k = job
            jp, op = os.path.join(tmp, f"job{k}.json"), os.path.join(tmp, f"out{k}.json")
            with open(jp, "w") as f:
                json.dump({"variant": v, "cases": cs}, f)
            env = {"PATH": os.environ.get("PATH", "/usr/bin:/bin"), "PYTHONPATH": gallia_src(),
                   "PYTHONHASHSEED": v["hashseed"], "PYTHONDONTWRITEBYTECODE": "1", "HOME": tmp}
            p = subprocess.run([PY, child, jp, op], env=env, cwd=tmp, capture_output=True, text=True, timeout=1200)
            if p.returncode != 0 or not os.path.exists(op):
                raise Machinery(f"child {v['name']} failed rc={p.returncode}: {p.stderr[-1500:]}")
            with open(op) as f:
                out = json.load(f)
            os.unlink(op)
            if out.get("hashseed") != v["hashseed"]:
                raise Machinery("child did not run with the requested PYTHONHASHSEED")
            return v["name"], out["results"]

        res: dict[str, dict[int, dict[str, Any]]] = {v["name"]: {} for v in vars_}
        with ThreadPoolExecutor(max_workers=workers) as ex:
            for name, results in ex.map(one, jobs):
                for r in results:
                    res[name][r["id"]] = r
        return res
    finally:
        shutil.rmtree(tmp, ignore_errors=True)


def run_crowd(cases: list[dict[str, Any]], vars_: list[dict[str, Any]], workers: int = 6) -> dict[str, dict[int, dict[str, Any]]]:
    """The lone twin gets an interpreter of its own per case; a crowded interpreter serves a few judged cases one
    after the other (their neighbours included)."""
    lone = [v for v in vars_ if "crowd" not in v]
    crowded = [v for v in vars_ if "crowd" in v]
    with ThreadPoolExecutor(max_workers=2) as ex:
        fa = ex.submit(run_children, cases, lone, 1, workers) if lone else None
        fc = ex.submit(run_children, cases, crowded, 3, workers)
        res = dict(fc.result())
        if fa is not None:
            res.update(fa.result())
    return res


def tlc_run_of(r: dict[str, Any]) -> dict[str, Any]:
    if "setup_exc" in r:
        return {"setup": "exc", "m": [], "tr": []}
    return {"setup": "ok", "m": r["model"],
            "tr": [{"q": s["q"], "k": s["k"], "o": s["o"], "r": s["r"]} for s in r.get("tr", [])]}


def tlc_case(cid: int, mand_s: list[int], mand_v: list[int], runs: list[dict[str, Any]]) -> dict[str, Any]:
    return {"id": cid, "mandS": mand_s, "mandV": mand_v, "runs": runs}


def validate(tcases: list[dict[str, Any]], capacity: int = 45_000, workers: int = 5) -> tuple[dict[int, dict[str, Any]], list[Any]]:
    """TLC decides: returns id -> {"a": {...}, "b": {...}} and the TLC results.
    Batches are filled by weight (recorded steps) so that one JVM start serves many small cases."""
    batches: list[list[dict[str, Any]]] = []
    cur: list[dict[str, Any]] = []
    w = 0
    for c in sorted(tcases, key=lambda c: -sum(len(r["tr"]) for r in c["runs"])):
        cw = 40 + sum(len(r["tr"]) + 2 * len(r["m"]) for r in c["runs"])
        if cur and w + cw > capacity:
            batches.append(cur)
            cur, w = [], 0
        cur.append(c)
        w += cw
    if cur:
        batches.append(cur)

    def one(b: list[dict[str, Any]]) -> Any:
        return tlc.validate_batch("Trace_VEcuModel", "Trace_VEcuModel.cfg", {"cases": b}, timeout=1500,
                                  env={"JAVA_TOOL_OPTIONS": "-Xss768m"}, heap="3g")

    verdicts: dict[int, dict[str, Any]] = {}
    results = []
    with ThreadPoolExecutor(max_workers=workers) as ex:
        for res in ex.map(one, batches):
            results.append(res)
            for p in res.prints:
                if isinstance(p, list) and len(p) == 7 and p[0] == "V":
                    verdicts.setdefault(p[1], {})[p[2]] = {"v": p[3], "run": p[4], "at": p[5], "u": p[6]}
    missing = [c["id"] for c in tcases if set(verdicts.get(c["id"], {})) != {"a", "b"}]
    if missing:
        raise Machinery(f"TLC produced no verdict for {len(missing)} cases (first id {missing[0]}):\n"
                        + results[-1].out[-2500:])
    return verdicts, results


# --------------------------------------------------------------------------
# exhaustive coin-flip enumeration of the REAL generator (in this process)


class _Unscripted(Exception):
    pass


def enumerate_generator(mand: list[int], opt: list[int], limit: int | None = None) -> dict[tuple, dict[str, Any]]:
    """Runs RandomUDSServer.setup() once per outcome vector of the generator's
    coins (rng.random() < p, rng.choice) and returns
    {graph key: {"vec": first vector, "model": dump}}.  The RNG class the
    generator instantiates is replaced IN THIS PROCESS by a scripted one."""
    import asyncio

    import gallia.services.uds.server as S
    from gallia.services.uds.core.constants import UDSIsoServices

    from harness.c16_child import dump_model
    from harness.enum import explore

    class ScriptedRNG(random.Random):
        chooser: Any = None

        def __init__(self, *a: Any) -> None:
            super().__init__(0)

        def random(self) -> float:
            return 0.0 if ScriptedRNG.chooser.choose(2) == 1 else 0.999999

        def choice(self, seq: Any) -> Any:
            return seq[ScriptedRNG.chooser.choose(len(seq))]

        def getrandbits(self, k: int) -> int:
            raise _Unscripted("generator drew randomness through an API the harness does not script")

    orig = S.RNG
    S.RNG = ScriptedRNG  # type: ignore[misc]
    loop = asyncio.new_event_loop()
    try:
        params = S.RandomUDSServer.RandomnessParameters(
            mandatory_sessions=mand, optional_sessions=opt, p_session=0.5,
            mandatory_services=[UDSIsoServices.DiagnosticSessionControl], optional_services=[])

        def run(ch: Any) -> list[dict[str, Any]]:
            ScriptedRNG.chooser = ch
            srv = S.RandomUDSServer(0, params)
            loop.run_until_complete(srv.setup())
            return dump_model(srv.services)

        out: dict[tuple, dict[str, Any]] = {}
        n = 0
        try:
            for vec, model in explore(run, 10_000, limit=limit):
                n += 1
                key = graph_key_of_model(model, sorted(set(mand + opt + [1])))
                if key not in out:
                    out[key] = {"vec": vec, "model": model}
        except _Unscripted as e:
            raise Machinery(str(e)) from e
        enumerate_generator.runs = n  # type: ignore[attr-defined]
        return out
    finally:
        S.RNG = orig  # type: ignore[misc]
        loop.close()


def graph_key_of_model(model: list[dict[str, Any]], universe: list[int]) -> tuple:
    t: dict[int, tuple[int, ...]] = {}
    for e in model:
        for v in e["svcs"]:
            if v["id"] == DSC:
                t[e["s"]] = tuple(sorted(set(v["sf"])))
    return tuple((s, t.get(s, ())) for s in universe)


def graph_key_of_tlc(val: Any, universe: list[int]) -> tuple:
    """TLC prints a function with domain 1..n as a tuple, others as (k :> v @@ ...)."""
    if isinstance(val, list):
        pairs = {i + 1: v for i, v in enumerate(val)}
    else:
        pairs = {k: v for k, v in val["$fn"]}
    return tuple((s, tuple(sorted(pairs[s]["$set"])) if s in pairs else ()) for s in universe)
