"""X10 — run ONE real primitive UDS command (through AsyncScript.run(): setup, main, teardown) against a scripted
in-memory ECU under virtual time and record the trace.  Nothing is judged here.

case = {"kind": <command kind>, "ecu": {PrimServer model}, "cfg": {option values as the user would type them; strings
        go through gallia's own parsers; "data_file_hex": content of a temporary --data-file},
        "den": {"opt": {what the options denote, see spec/PrimitivesContract.tla}, "session": int (0 = no option)},
        "origin": family}

Trace events in the order they happened:
  {"k":"q", "t","t2": ground-truth session before / after, "p": request, "r": "pos"|"neg"|"sil", "nrc", "a": answer bytes,
   "ms": virtual time, "ph": "setup"|"main"|"teardown", "ib": the ECU changed session by itself before this request,
   "subj": not a management request}
  {"k":"res", "tok": [[bytes], ..], "ms", "ph"}   a result-tagged log record (logger.result); tok = the even-length
                                                 runs of hex digits of its text, as byte sequences
  {"k":"err", "nrcs": [codes], "tok", "ms", "ph"} a log record of level >= WARNING; nrcs = the ISO 14229-1 negative
                                                 response code names (UDSErrorCodes) its text mentions
"""

from __future__ import annotations

import asyncio
import contextlib
import logging
import os
import re
import shutil
import tempfile
from collections.abc import Iterator
from typing import Any

from gallia.services.uds.core.constants import UDSErrorCodes

from harness import vloop
from harness.c10_stack import TARGET, serving, setup_logging_once
from harness.x10_ecu import PrimServer

COMMANDS: dict[str, tuple[str, str, str]] = {
    "wdbi": ("gallia.commands.primitive.uds.wdbi", "WriteByIdentifierPrimitive", "WriteByIdentifierPrimitiveConfig"),
    "rtcl": ("gallia.commands.primitive.uds.rtcl", "RTCLPrimitive", "RTCLPrimitiveConfig"),
    "iocbi": ("gallia.commands.primitive.uds.iocbi", "IOCBIPrimitive", "IOCBIPrimitiveConfig"),
    "rmba": ("gallia.commands.primitive.uds.rmba", "RMBAPrimitive", "RMBAPrimitiveConfig"),
    "wmba": ("gallia.commands.primitive.uds.wmba", "WMBAPrimitive", "WMBAPrimitiveConfig"),
    "dtcread": ("gallia.commands.primitive.uds.dtc", "ReadDTCPrimitive", "ReadDTCPrimitiveConfig"),
    "dtcclear": ("gallia.commands.primitive.uds.dtc", "ClearDTCPrimitive", "ClearDTCPrimitiveConfig"),
    "dtcctl": ("gallia.commands.primitive.uds.dtc", "ControlDTCPrimitive", "ControlDTCPrimitiveConfig"),
    "reset": ("gallia.commands.primitive.uds.ecu_reset", "ECUResetPrimitive", "ECUResetPrimitiveConfig"),
    "ping": ("gallia.commands.primitive.uds.ping", "PingPrimitive", "PingPrimitiveConfig"),
    "vin": ("gallia.commands.primitive.uds.vin", "VINPrimitive", "VINPrimitiveConfig"),
    "dddiid": ("gallia.commands.primitive.uds.dddi", "DefineByIdentifierDDDIPrimitive",
               "DefineByIdentifierDDDIPrimitiveConfig"),
    "dddimem": ("gallia.commands.primitive.uds.dddi", "DefineByMemoryAddressDDDIPrimitive",
                "DefineByMemoryAddressDDDIPrimitiveConfig"),
    "dddiclear": ("gallia.commands.primitive.uds.dddi", "ClearDynamicallyDefinedDataIdentifierDDDIPrimitive",
                  "ClearDynamicallyDefinedDataIdentifierDDDIPrimitiveConfig"),
}

_HEXRUN = re.compile(r"[0-9a-fA-F]+")
_WORD = re.compile(r"[A-Za-z_]\w*")
_NRC_NAMES = {m.name: int(m) for m in UDSErrorCodes}


def hex_tokens(msg: str) -> list[list[int]]:
    out = []
    for m in _HEXRUN.finditer(msg):
        s = m.group(0)
        if len(s) % 2 == 0 and len(s) <= 8192:
            out.append(list(bytes.fromhex(s)))
    return out[:24]


_HEXCODE = re.compile(r"\b0x([0-9a-fA-F]{2})\b")
_NRC_CODES = set(_NRC_NAMES.values())


def nrc_names(msg: str) -> list[int]:
    """Response codes a record mentions: by ISO name, or as a 0x.. literal of a defined response code."""
    named = {_NRC_NAMES[w] for w in _WORD.findall(msg) if w in _NRC_NAMES}
    coded = {int(h, 16) for h in _HEXCODE.findall(msg)} & _NRC_CODES
    return sorted(named | coded)


class _Capture(logging.Handler):
    def __init__(self, sink: Any) -> None:
        super().__init__(level=0)
        self.sink = sink

    def emit(self, record: logging.LogRecord) -> None:
        try:
            tags = getattr(record, "tags", None) or []
            self.sink(record.levelno, "result" in tags, record.getMessage())
        except Exception:  # noqa: BLE001
            pass


@contextlib.contextmanager
def capture_all(sink: Any) -> Iterator[None]:
    setup_logging_once()
    h = _Capture(sink)
    lg = logging.getLogger("gallia")
    lg.addHandler(h)
    try:
        yield
    finally:
        lg.removeHandler(h)


def run_prim(case: dict[str, Any], mutant: str | None = None) -> dict[str, Any]:
    import importlib

    kind, ecu, cfg, den = case["kind"], case["ecu"], dict(case["cfg"]), case["den"]
    modname, clsname, cfgname = COMMANDS[kind]
    mod = importlib.import_module(modname)
    out: dict[str, Any] = {"ev": [], "msgs": []}
    holder: dict[str, Any] = {"n": 0}
    tmpdir: str | None = None

    def flush() -> None:
        srv = holder.get("server")
        if srv is None:
            return
        out["ev"].extend(srv.log[holder["n"]:])
        holder["n"] = len(srv.log)

    def sink(level: int, is_result: bool, msg: str) -> None:
        flush()  # requests seen by the ECU before this record was emitted
        srv = holder.get("server")
        ph = srv.phase if srv is not None else "setup"
        try:
            ms = int(round(asyncio.get_event_loop().time() * 1000))
        except Exception:  # noqa: BLE001
            ms = 0
        if is_result:
            out["ev"].append({"k": "res", "tok": hex_tokens(msg), "ms": ms, "ph": ph})
            out["msgs"].append(msg[:60])
        elif level >= logging.WARNING:
            out["ev"].append({"k": "err", "nrcs": nrc_names(msg), "tok": hex_tokens(msg), "ms": ms, "ph": ph})
            out["msgs"].append(msg[:60])

    if "data_file_hex" in cfg:
        tmpdir = tempfile.mkdtemp(prefix="x10-")
        path = os.path.join(tmpdir, "data.bin")
        with open(path, "wb") as f:
            f.write(bytes.fromhex(cfg.pop("data_file_hex")))
        cfg["data_file"] = path

    async def go() -> None:
        server = PrimServer(ecu, mutant=mutant)
        holder["server"] = server
        kw: dict[str, Any] = dict(target=TARGET)
        kw.update({k: v for k, v in cfg.items() if v is not None})
        with serving(server):
            try:
                cmd = getattr(mod, clsname)(getattr(mod, cfgname)(**kw))
            except Exception as e:  # noqa: BLE001
                out["done"] = f"cfg:{type(e).__name__}"
                out["exc"] = repr(e)[:200]
                return
            inner = cmd.main

            async def main() -> None:
                server.phase = "main"
                try:
                    await inner()
                finally:
                    server.phase = "teardown"

            cmd.main = main
            try:
                rc = await cmd.run()
                out["done"] = "ok" if not rc else f"exit{rc}"
            except SystemExit as e:
                out["done"] = "ok" if e.code in (0, None) else f"exit{e.code}"
            except Exception as e:  # noqa: BLE001
                out["done"] = f"exc:{type(e).__name__}"
                out["exc"] = repr(e)[:200]
            await asyncio.sleep(0)
        flush()

    import gallia.services.uds.server as server_mod

    real_time = server_mod.time
    server_mod.time = lambda: asyncio.get_event_loop().time()  # type: ignore[assignment]
    with capture_all(sink):
        try:
            vloop.run(go(), horizon=float(case.get("horizon", 3600.0)))
        except (TimeoutError, vloop.BlockedForever):
            flush()
            out["done"] = "hang"
        except SystemExit as e:  # raised inside a task
            flush()
            out["done"] = f"exit{e.code}"
        finally:
            server_mod.time = real_time  # type: ignore[assignment]
            if tmpdir is not None:
                shutil.rmtree(tmpdir, ignore_errors=True)
    return {"kind": kind, "opt": den["opt"], "session": int(den["session"]), "ev": out["ev"],
            "done": out.get("done", "?"), "exc": out.get("exc", ""), "msgs": out["msgs"][:12],
            "origin": case.get("origin", "")}
