"""X17: synthetic gallia plugins, installed the way real third-party plugins are:
a `*.dist-info` directory with an `entry_points.txt` ([gallia_plugins]) in a
temporary directory put on sys.path.  The entry points name the classes P1 / P2
of THIS module; what they register is taken from the module-level SCENARIO,
set by the driver before it calls into gallia.

A scenario (JSON-able):
  {"names": {"a": "xa", "b": "xb"},            abstract name -> CLI name
   "descs": {"": None, "d1": "...", "d2": "..."}  abstract description -> text
   "pls": [ {"leaves": [[["a","b"], "c1ab"], ...], "desc": "d1"}, ... ],   (<= 2 plugins; desc = description
                                                                           of the group "a", if the plugin has it)
   "transports": [[scheme, clsname], ...]  per plugin: "tr": [...]; "ecus": [...]
  }
Nothing here judges anything.
"""

from __future__ import annotations

import sys
from pathlib import Path
from typing import Any

import gallia.command  # noqa: F401  (resolves the command <-> plugins import cycle)
from gallia.command.base import AsyncScript, AsyncScriptConfig
from gallia.command.config import Field
from gallia.plugins.plugin import CommandTree, Plugin
from gallia.services.uds import ECU
from gallia.transports.base import BaseTransport, TargetURI

SCENARIO: dict[str, Any] = {"pls": []}

UNIVERSE = [("a",), ("b",), ("a", "a"), ("a", "b"), ("b", "a")]


class SynthConfig(AsyncScriptConfig):
    req: int = Field(description="a required option", metavar="INT")
    opt: int = Field(7, description="an optional option", metavar="INT")


class SynthConfig2(SynthConfig):
    two: int = Field(2, description="an option only commands of the second plugin have", metavar="INT")


class _SynthCommand(AsyncScript):
    SHORT_HELP = "synthetic command of the X17 harness"

    async def main(self) -> None:  # never reached: the driver stubs entry_point / run
        raise RuntimeError("X17 synthetic command executed for real")


def _mk(name: str, cfg: type) -> type:
    return type(name, (_SynthCommand,), {"CONFIG_TYPE": cfg, "__module__": __name__,
                                         "SHORT_HELP": f"synthetic command {name}"})


CLASSES: dict[str, type] = {}
for _pl, _cfg in ((1, SynthConfig), (2, SynthConfig2)):
    for _p in UNIVERSE:
        _n = f"c{_pl}{''.join(_p)}"
        CLASSES[_n] = _mk(_n, _cfg)
        globals()[_n] = CLASSES[_n]


class _SynthTransport(BaseTransport, scheme="x17-abstract"):
    @classmethod
    async def connect(cls, target: str | TargetURI, timeout: float | None = None) -> Any:
        raise RuntimeError("X17 synthetic transport connected for real")

    async def close(self) -> None:
        return None


TRANSPORTS: dict[str, type] = {}
ECUS: dict[str, type] = {}


def transport_class(clsname: str, scheme: str) -> type:
    if clsname not in TRANSPORTS:
        TRANSPORTS[clsname] = type(clsname, (_SynthTransport,), {"__module__": __name__}, scheme=scheme)
        globals()[clsname] = TRANSPORTS[clsname]
    TRANSPORTS[clsname].SCHEME = scheme
    return TRANSPORTS[clsname]


def ecu_class(clsname: str, oem: str) -> type:
    if clsname not in ECUS:
        ECUS[clsname] = type(clsname, (ECU,), {"__module__": __name__, "OEM": oem})
        globals()[clsname] = ECUS[clsname]
    ECUS[clsname].OEM = oem
    return ECUS[clsname]


def _tree(pl: dict[str, Any], names: dict[str, str], descs: dict[str, Any]) -> dict[str, Any]:
    out: dict[str, Any] = {}
    for path, cls in pl.get("leaves", []):
        node = out
        for depth, tok in enumerate(path[:-1]):
            key = names[tok]
            if key not in node:
                d = descs.get(pl.get("desc", ""), None) if (depth == 0 and tok == "a") else None
                node[key] = CommandTree(description=d, subtree={})
            node = node[key].subtree
        node[names[path[-1]]] = CLASSES[cls]
    return out


class _SynthPlugin(Plugin):
    INDEX = 0

    @classmethod
    def name(cls) -> str:
        return f"X17 synthetic plugin {cls.INDEX}"

    @classmethod
    def _pl(cls) -> dict[str, Any] | None:
        pls = SCENARIO.get("pls", [])
        return pls[cls.INDEX - 1] if cls.INDEX - 1 < len(pls) else None

    @classmethod
    def commands(cls) -> Any:
        pl = cls._pl()
        if pl is None:
            return {}
        return _tree(pl, SCENARIO.get("names", {"a": "xa", "b": "xb"}), SCENARIO.get("descs", {}))

    @classmethod
    def transports(cls) -> list[type[BaseTransport]]:
        pl = cls._pl()
        return [transport_class(c, s) for s, c in (pl or {}).get("tr", [])]

    @classmethod
    def ecus(cls) -> list[type[ECU]]:
        pl = cls._pl()
        return [ecu_class(c, o) for o, c in (pl or {}).get("ecus", [])]


class P1(_SynthPlugin):
    INDEX = 1


class P2(_SynthPlugin):
    INDEX = 2


class NotAPlugin:
    """an entry point that does not name a Plugin subclass"""


def install(directory: str, n: int = 2, *, first: bool = True, broken: bool = False) -> None:
    """write the dist-info of a distribution providing n synthetic plugins and put it on sys.path
    (first=True: found BEFORE the builtin plugins, else after them)"""
    di = Path(directory) / "x17_synthetic_plugins-0.0.1.dist-info"
    di.mkdir(parents=True, exist_ok=True)
    (di / "METADATA").write_text("Metadata-Version: 2.1\nName: x17-synthetic-plugins\nVersion: 0.0.1\n")
    eps = "[gallia_plugins]\n" + "".join(f"x17p{i} = harness.x17_synth:P{i}\n" for i in range(1, n + 1))
    if broken:
        eps += "x17bad = harness.x17_synth:NotAPlugin\n"
    (di / "entry_points.txt").write_text(eps)
    uninstall(directory)
    if first:
        sys.path.insert(0, directory)
    else:
        sys.path.append(directory)


def uninstall(directory: str) -> None:
    while directory in sys.path:
        sys.path.remove(directory)


def discovered() -> list[type]:
    """the environment's ground truth: the gallia_plugins entry points in discovery order (Python's own
    importlib.metadata, not gallia's loader)"""
    from importlib.metadata import entry_points

    return [ep.load() for ep in entry_points(group="gallia_plugins")]


def qual(c: type) -> str:
    return f"{c.__module__}.{c.__name__}"


def walk(tree: Any, path: tuple[str, ...] = ()) -> list[tuple[tuple[str, ...], type]]:
    out: list[tuple[tuple[str, ...], type]] = []
    for k, v in tree.items():
        if isinstance(v, CommandTree):
            out += walk(v.subtree, path + (k,))
        else:
            out.append((path + (k,), v))
    return out


def walk_groups(tree: Any, path: tuple[str, ...] = ()) -> list[tuple[tuple[str, ...], str | None]]:
    out: list[tuple[tuple[str, ...], str | None]] = []
    for k, v in tree.items():
        if isinstance(v, CommandTree):
            out.append((path + (k,), v.description))
            out += walk_groups(v.subtree, path + (k,))
    return out

