"""X20: turns what TLC exported from the design (MC_ArgFields_design: ["C", job, outcome, verdict, history]) into cases
for harness/x20_run.py, and generates the randomised argument vectors (seeded) that have no counterpart in the design:
several fields at once, option order permutations, `--opt=value` versus `--opt value`, repeated options,
abbreviations, the `--` separator, negative numbers as values, positional values before / after / between the options.
Nothing here judges the property."""

from __future__ import annotations

import json
import random
from typing import Any

from harness import x20_models as X
from harness.common import Machinery


def cases_from_prints(prints: list[Any]) -> tuple[list[dict[str, Any]], list[dict[str, Any]], list[dict[str, Any]], set[str]]:
    """-> (parse cases, help jobs, config jobs, design actions seen)"""
    parse: dict[str, dict[str, Any]] = {}
    helps: list[dict[str, Any]] = []
    configs: list[dict[str, Any]] = []
    acts: set[str] = set()
    for p in prints:
        if not (isinstance(p, list) and len(p) == 5 and p[0] == "C"):
            continue
        job, out, verdict, hist = p[1], p[2], p[3], p[4]
        acts.update(hist)
        if job["job"] == "parse":
            c = {"m": job["m"], "items": job["items"], "sep": False, "inter": False, "src": "tlc",
                 "design": {"res": out["res"], "code": out["code"], "vals": out["vals"], "verdict": verdict}}
            parse.setdefault(json.dumps([c["m"], c["items"]], sort_keys=True), c)
        elif job["job"] == "help":
            helps.append({"m": job["m"], "ext": bool(job["ext"]), "design": {"res": out["res"], "verdict": verdict}})
        elif job["job"] == "config":
            configs.append({"m": job["m"], "design": {"obs": out["obs"], "verdict": verdict}})
    return list(parse.values()), helps, configs, acts


# --------------------------------------------------------------------------- random argument vectors
def _num(rnd: random.Random, classes: list[str]) -> dict[str, Any]:
    c = rnd.choice(classes)
    if c == "frac":
        v = rnd.choice([0.5, 1.5, 2.25, 12.75])
        return X.tok("frac", repr(v), v)
    if c == "junk":
        return X.JUNK
    n = rnd.choice([0, 1, 2, 3, 7, 9, 10, 12, 31, 64, 255, 4096, 65535])
    if c in ("neg", "nhex", "zdec", "bare") and n == 0:
        n = 5
    if c == "bare":
        n = rnd.choice([10, 31, 171, 0xBEEF])  # a text with a letter: not a decimal number
    return X.num_tok(c, n)


def _ranges(rnd: random.Random) -> dict[str, Any]:
    parts = []
    for _ in range(rnd.randint(1, 3)):
        lo = rnd.randint(0, 40)
        parts.append((lo, lo + rnd.choice([0, 0, 1, 3, 6])))
    return X.rng_tok(parts, hexed=rnd.random() < 0.3)


def _r2(rnd: random.Random) -> dict[str, Any]:
    lo = rnd.randint(0, 6)
    outer = [(lo, lo + rnd.choice([0, 0, 1]))]
    if rnd.random() < 0.3:
        return X.r2_tok(outer, None)
    il = rnd.randint(0, 20)
    return X.r2_tok(outer, [(il, il + rnd.choice([0, 1, 2]))])


def random_token(rnd: random.Random, fd: X.FD, wild: float = 0.12) -> dict[str, Any]:
    """a token for the field: mostly from the classes that mean something for its kind, sometimes from another kind"""
    k = fd.elem if fd.kind in ("list", "set", "tuple2") else fd.kind
    if rnd.random() < wild:
        pool = [t for ts in X.TOKENS.values() for t in ts]
        return rnd.choice(pool)
    if k == "int":
        return _num(rnd, ["dec", "dec", "dec", "neg", "frac", "junk"])
    if k == "float":
        return _num(rnd, ["dec", "neg", "frac", "frac", "junk"])
    if k == "autoint":
        return _num(rnd, ["dec", "dec", "neg", "hex", "hexu", "oct", "bin", "bare", "zdec", "nhex", "junk"])
    if k == "hexint":
        return _num(rnd, ["dec", "bare", "hex", "hexu", "zdec", "oct", "neg", "junk"])
    if k == "str":
        return rnd.choice([X.tok("word", w) for w in ("abc", "x y", "100%", "%s", "a=b", "ünï")] + [X.EMPTY, X.tok("dashword", "-x")])
    if k == "ranges":
        return rnd.choice([_ranges(rnd), _ranges(rnd), _ranges(rnd), X.JUNK])
    if k == "ranges2d":
        return rnd.choice([_r2(rnd), _r2(rnd), _r2(rnd), X.JUNK])
    if k == "hexbytes":
        b = bytes(rnd.randrange(256) for _ in range(rnd.randint(1, 4)))
        return rnd.choice([X.tok("hexl", b.hex(), b), X.tok("hexl", b.hex(), b), X.tok("hexU", b.hex().upper() + "0A", b + b"\n"),
                           X.tok("odd", b.hex() + "a"), X.JUNK, X.EMPTY])
    if k == "bool":
        return rnd.choice(X.TOKENS["bool"])
    return rnd.choice(X.TOKENS[X.table_of(fd)] if fd.kind not in ("list", "set", "tuple2") else X.TOKENS["elem:" + fd.elem])


def random_item(rnd: random.Random, fd: X.FD) -> dict[str, Any]:
    if fd.pos:
        n = 1 if fd.kind not in ("list", "set") else rnd.choice([1, 2, 3])
        return {"f": fd.name, "form": "pos", "toks": [random_token(rnd, fd) for _ in range(n)]}
    forms = ["long", "long", "eq"]
    if fd.short:
        forms += ["short", "shortj"]
    if X.abbreviation(fd):
        forms.append("abbr")
    if fd.kind == "bool":
        form = rnd.choice(["long", "neg", "long", "neg"] + (["short"] if fd.short else []) + (["abbr"] if X.abbreviation(fd) else []))
        return {"f": fd.name, "form": form, "toks": []}
    form = rnd.choice(forms)
    if fd.kind in ("list", "set", "tuple2", "ranges", "ranges2d", "dict"):
        n = rnd.choice([0, 1, 2, 2, 3]) if fd.kind != "tuple2" else rnd.choice([1, 2, 2, 2, 3])
        if form in ("eq", "shortj"):
            n = 1
    else:
        n = 1 if not (fd.hasconst and form in ("long", "short", "abbr") and rnd.random() < 0.4) else 0
    return {"f": fd.name, "form": form, "toks": [random_token(rnd, fd) for _ in range(n)]}


def random_case(rnd: random.Random, m: str) -> dict[str, Any]:
    """1..4 optional fields on top of the base of the required ones; order, repetition, separator at random"""
    fds = [fd for fd in X.FIELDS[m] if not fd.hidden]
    req = [fd for fd in fds if fd.req]
    optional = [fd for fd in fds if not fd.req]
    chosen = rnd.sample(optional, k=min(len(optional), rnd.choice([0, 1, 1, 2, 2, 3, 4])))
    items: list[dict[str, Any]] = []
    for fd in req:
        if rnd.random() < 0.08:
            continue  # a required argument is missing
        items.append(random_item(rnd, fd) if rnd.random() < 0.5 else X.base_item(fd))
    for fd in chosen:
        items.append(random_item(rnd, fd))
        if not fd.pos and rnd.random() < 0.12:
            items.append(random_item(rnd, fd))  # repeated option
    if rnd.random() < 0.05:
        items.append({"f": "", "form": "unknown", "toks": [] if rnd.random() < 0.5 else [X.tok("word", "stray")]})
    if rnd.random() < 0.04:
        hid = [fd for fd in X.FIELDS[m] if fd.hidden]
        if hid:
            items.append({"f": hid[0].name, "form": "long", "toks": [X.num_tok("dec", 4)]})
    order = {fd.name: i for i, fd in enumerate(X.FIELDS[m])}
    pos = sorted((it for it in items if it["form"] == "pos"), key=lambda it: order[it["f"]])
    # positional values are assigned by POSITION: a later positional field can only be given if the earlier ones are
    declared = [fd.name for fd in X.FIELDS[m] if fd.pos]
    keep = []
    for name in declared:
        mine = [it for it in pos if it["f"] == name]
        if not mine:
            break
        keep += mine
    pos = keep
    opts = [it for it in items if it["form"] != "pos"]
    rnd.shuffle(opts)

    def swallows(it: dict[str, Any]) -> bool:
        """could this occurrence take a following value for itself?"""
        if it["f"] == "":
            return False
        fd = X.fd_of(m, it["f"])
        if fd.kind == "bool" or it["form"] == "neg":
            return False
        return fd.kind in ("list", "set", "tuple2", "ranges", "ranges2d", "dict") or fd.hasconst or not it["toks"]

    inter = False
    sep = False
    layout = rnd.choice(["front", "front", "back", "split"]) if pos else "front"
    if layout == "front":
        items = pos + opts
    elif layout == "back":
        items = opts + pos
        inter = bool(opts) and swallows(opts[-1])
    else:  # positional values between the options: where argparse puts them is not documented here
        cut = rnd.randint(0, len(opts))
        items = opts[:cut] + pos[:1] + opts[cut:] + pos[1:]
        inter = True
    if rnd.random() < 0.06:
        at = rnd.randint(0, len(items))
        items = items[:at] + [{"f": "", "form": "sep", "toks": []}] + items[at:]
        sep = True
    return {"m": m, "items": items, "sep": sep, "inter": inter, "src": "random"}


def random_cases(seed: int, n: int) -> list[dict[str, Any]]:
    rnd = random.Random(seed)
    weights = [("all", 10), ("req", 5), ("alpha", 1), ("beta", 2), ("grp", 1), ("pct", 1)]
    bag = [m for m, w in weights for _ in range(w)]
    out = []
    for _ in range(n):
        out.append(random_case(rnd, rnd.choice(bag)))
    if not out and n:
        raise Machinery("x20: no random case generated")
    return out
