"""C03 helpers: request instances by reflection, reply families, drivers of the real code.

Nothing in here judges the property: it builds inputs (requests, reply byte
strings), drives gallia and records what happened.  TLC (Trace_UdsMatch) decides.
"""

from __future__ import annotations

import inspect
import json
from typing import Any

from gallia.services.uds.core import service
from gallia.services.uds.core.client import UDSClient
from gallia.services.uds.core.exception import (
    MalformedResponse,
    RequestResponseMismatch,
    UnexpectedNegativeResponse,
)
from gallia.services.uds.helpers import parse_pdu

from harness import vloop
from harness.common import Machinery
from harness.fakes import ScriptedTransport, ScriptEnv

# --------------------------------------------------------------------------
# request instances by reflection over service.py

# simple valid constructor arguments by parameter name; first value = base variant
PARAM_VALUES: dict[str, list[Any]] = {
    "group_of_dtc": [0xFFFFFF, 0x123456],
    "dynamically_defined_data_identifier": [0xF200, 0xF2A1],
    "suppress_response": [False, True],
    "control_type": [1, 3],
    "communication_type": [1],
    "dtc_setting_type": [1, 2],
    "dtc_setting_control_option_record": [b"", b"\xaa"],
    "source_data_identifiers": [0x1234],
    "positions_in_source_data_record": [1],
    "memory_sizes": [1],
    "memory_addresses": [0x10],
    "address_and_length_format_identifier": [None, 0x24],
    "diagnostic_session_type": [3, 1, 0x40],
    "reset_type": [1, 4],
    "data_identifier": [0x1234, 0xF186],
    "data_identifiers": [0x1234, [0x1234, 0x5678], 0xF186],
    "data_record": [b"\x01\x02"],
    "control_option_record": [b"\x03\xaa"],
    "control_enable_mask_record": [b"", b"\xff"],
    "control_states": [b"\x01"],
    "memory_address": [0x1000, 0x23],
    "memory_size": [4, 2],
    "dtc_status_mask": [0xFF, 0x08],
    "dtc_mask_record": [0x123456],
    "dtc_ext_data_record_number": [1],
    "routine_identifier": [0x1234, 0xFF00],
    "routine_control_option_record": [b"", b"\xaa"],
    "security_access_data_record": [b""],
    "security_key": [b"\xaa\xbb"],
    "compression_method": [0],
    "encryption_method": [0],
    "block_sequence_counter": [1, 0xFF],
    "transfer_request_parameter_record": [b"", b"\xaa\xbb"],
}
CLASS_OVERRIDES: dict[str, dict[str, list[Any]]] = {
    "RequestSeedRequest": {"security_access_type": [1, 0x11]},
    "SendKeyRequest": {"security_access_type": [2, 0x12]},
    "ClearDynamicallyDefinedDataIdentifierRequest": {"dynamically_defined_data_identifier": [0xF200, None]},
    # memory_size 1 / 4: announced size differs from the two bytes shipped (a legitimate pentest input)
    "WriteMemoryByAddressRequest": {"memory_size": [None, 1, 4], "address_and_length_format_identifier": [None]},
    "DefineByMemoryAddressRequest": {"address_and_length_format_identifier": [None]},
}

# requests only expressible as raw bytes (no class, class cannot serialise, odd bytes)
RAW_PDUS = [
    "190a", "190b", "190c", "190d", "190e", "1915",  # ReadDTC kinds whose classes cannot build a pdu
    "1904123456ff", "190301",                         # ReadDTC report types without a class
    "2c03f200", "2c03", "8581", "858101",             # shapes the typed classes do not emit
    "ba01", "ba", "ff00", "c001", "0b",               # vendor / undefined service ids
    "241234", "010c", "2a0101", "83010203", "8701", "3800", "2900",  # ISO services without a class
    "221234", "3e00", "1003", "31011234", "2e123401", "23112304",     # raw bytes of typed kinds
    "22", "31", "3101", "2e12", "3d", "23", "10",     # too short for their echo fields
    "31051234", "2712", "1100",                       # unusual sub-functions
    "3f00", "7f1031",                                 # 0x3F (+0x40 = 0x7F), a request that looks like a reply
]


def _enc(v: Any) -> Any:
    if isinstance(v, bytes):
        return {"$b": v.hex()}
    if isinstance(v, (list, tuple)):
        return [_enc(x) for x in v]
    return v


def _dec(v: Any) -> Any:
    if isinstance(v, dict) and "$b" in v:
        return bytes.fromhex(v["$b"])
    if isinstance(v, list):
        return [_dec(x) for x in v]
    return v


class ReqCase:
    """One request instance: how to rebuild it, its bytes, whether the caller used RawRequest."""

    def __init__(self, kind: str, args: dict[str, Any], obj: service.UDSRequest, base: bool) -> None:
        self.kind = kind
        self.args = args
        self.obj = obj
        self.pdu = bytes(obj.pdu)
        self.raw = isinstance(obj, service.RawRequest)
        self.base = base

    def ctor(self) -> dict[str, Any]:
        return {"kind": self.kind, "args": {k: _enc(v) for k, v in self.args.items()}}


def rebuild(ctor: dict[str, Any]) -> service.UDSRequest:
    cls = getattr(service, ctor["kind"])
    return cls(**{k: _dec(v) for k, v in ctor["args"].items()})


def request_classes() -> tuple[list[type], list[str]]:
    """Public, concrete request classes of service.py; placeholder bases are skipped (and named)."""
    allc = [c for _n, c in inspect.getmembers(service, inspect.isclass)
            if issubclass(c, service.UDSRequest) and not inspect.isabstract(c)]
    keep, skipped = [], []
    for c in allc:
        has_sub = any(d is not c and issubclass(d, c) for d in allc)
        if c.__name__.startswith("_") or c.SERVICE_ID is None and c is not service.RawRequest:
            skipped.append(c.__name__)
        elif has_sub and getattr(c, "SUB_FUNCTION_ID", None) == 0:
            skipped.append(c.__name__)  # e.g. RoutineControlRequest: sub-function placeholder 0
        else:
            keep.append(c)
    return keep, skipped


def build_requests() -> tuple[list[ReqCase], dict[str, str], list[str]]:
    """All request instances: per class the base variant plus one-parameter-at-a-time variants."""
    classes, skipped = request_classes()
    out: list[ReqCase] = []
    failed: dict[str, str] = {}
    for c in classes:
        if c is service.RawRequest:
            for i, h in enumerate(RAW_PDUS):
                out.append(ReqCase("RawRequest", {"pdu": bytes.fromhex(h)}, service.RawRequest(bytes.fromhex(h)),
                                   base=True))
            continue
        params = [p for p in inspect.signature(c.__init__).parameters.values() if p.name != "self"]
        choices: dict[str, list[Any]] = {}
        for p in params:
            vals = CLASS_OVERRIDES.get(c.__name__, {}).get(p.name, PARAM_VALUES.get(p.name))
            if vals is None:
                raise Machinery(f"C03: no sample value for parameter {c.__name__}.{p.name}: a new request kind "
                                "must be given simple valid constructor arguments in harness/c03_gen.py")
            choices[p.name] = vals
        variants = [{k: v[0] for k, v in choices.items()}]
        for k, vals in choices.items():
            for alt in vals[1:]:
                d = dict(variants[0])
                d[k] = alt
                variants.append(d)
        ok = 0
        for i, a in enumerate(variants):
            try:
                obj = c(**a)
                _ = obj.pdu
            except Exception as e:  # noqa: BLE001  (C01's subject: the kind cannot be built / serialised)
                failed.setdefault(c.__name__, f"{type(e).__name__}: {e}")
                continue
            out.append(ReqCase(c.__name__, a, obj, base=(ok == 0)))
            ok += 1
    return out, failed, skipped


# --------------------------------------------------------------------------
# genuine replies per ISO 14229-1 (inputs only; TLC's contract decides what is genuine)

def _be(b: bytes) -> int:
    return int.from_bytes(b, "big")


def genuine_replies(q: bytes) -> list[bytes]:
    s = q[0]
    sf = q[1] & 0x7F if len(q) > 1 else 0
    rs = bytes([(s + 0x40) & 0xFF])
    try:
        if s == 0x10:
            # sessionParameterRecord: 4 bytes since ISO 14229-1:2013, manufacturer specific (any length) before;
            # the layout contract says Rest("record", 0): every length is the genuine positive reply
            rec = bytes.fromhex("003201f4aabbccdd")
            return [rs + bytes([sf]) + rec[:4]] + [rs + bytes([sf]) + rec[:n] for n in (0, 1, 2, 3, 5, 6, 8)]
        if s == 0x11:
            return [rs + bytes([sf]) + (b"\x0a" if sf == 4 else b"")]
        if s == 0x27:
            if sf % 2:  # securitySeed: length is up to the ECU
                return [rs + bytes([sf]) + b"\xde\xad\xbe\xef"[:n] for n in (4, 1, 2, 3)] + [rs + bytes([sf]) + bytes(range(16))]
            return [rs + bytes([sf])]
        if s in (0x28, 0x85):
            return [rs + bytes([sf])]
        if s == 0x3E:
            return [rs + b"\x00"]
        if s == 0x22 and len(q) >= 3 and len(q) % 2 == 1:
            one = rs + b"".join(q[i:i + 2] + bytes([0xA0 + i]) for i in range(1, len(q), 2))
            return [one, rs + b"".join(q[i:i + 2] + bytes([0xA0 + i, 0x00, 0x55]) for i in range(1, len(q), 2))]
        if s == 0x23:
            a, z = q[1] & 0xF, q[1] >> 4
            size = _be(q[2 + a:2 + a + z])
            return [rs + bytes([0x55]) * size] if 1 <= size <= 64 else []
        if s == 0x2C:
            return [rs + bytes([sf]) + q[2:4]] if len(q) >= 4 else [rs + bytes([sf])]
        if s == 0x2E:
            return [rs + q[1:3]]
        if s == 0x3D:
            a, z = q[1] & 0xF, q[1] >> 4
            return [rs + q[1:2 + a + z]]
        if s == 0x14:
            return [rs]
        if s == 0x19:
            if sf in (0x01, 0x07, 0x11, 0x12):
                return [rs + bytes([sf]) + bytes.fromhex("ff010002")]
            if sf in (0x02, 0x0A, 0x0F, 0x13, 0x15):
                return [rs + bytes([sf, 0xFF]), rs + bytes([sf, 0xFF]) + bytes.fromhex("12345608"),
                        rs + bytes([sf, 0xFF]) + bytes.fromhex("1234560800000124")]
            if sf in (0x0B, 0x0C, 0x0D, 0x0E):
                return [rs + bytes([sf, 0xFF]), rs + bytes([sf, 0xFF]) + bytes.fromhex("12345608")]
            if sf == 0x06 and len(q) >= 6:
                return [rs + b"\x06" + q[2:5] + b"\x08" + q[5:6] + b"\x01\x02", rs + b"\x06" + q[2:5] + b"\x08"]
            return [rs + bytes([sf]) + b"\xff"]
        if s == 0x2F and len(q) >= 4:
            return [rs + q[1:4] + b"\x00", rs + q[1:4]]
        if s == 0x31 and len(q) >= 4:
            return [rs + bytes([sf]) + q[2:4], rs + bytes([sf]) + q[2:4] + b"\x10\x01"]
        if s in (0x34, 0x35):
            return [rs + bytes.fromhex("201000"), rs + bytes.fromhex("10ff")]
        if s == 0x36 and len(q) >= 2:
            return [rs + q[1:2], rs + q[1:2] + b"\xca\xfe"]
        if s == 0x37:
            return [rs, rs + b"\x01"]
    except IndexError:
        pass
    return [rs + q[1:]]  # services without a layout here: sid + 0x40 followed by the request's bytes


def echo_positions(q: bytes) -> list[int]:
    """Indices (0-based, into the reply) of the echoed bytes, per ISO."""
    s = q[0]
    if s in (0x10, 0x11, 0x27, 0x28, 0x3E, 0x85, 0x19, 0x2C, 0x36):
        return [1]
    if s == 0x31:
        return [1, 2, 3]
    if s in (0x22, 0x2E, 0x2F):
        return [1, 2]
    if s == 0x3D and len(q) >= 2:
        return list(range(1, 2 + (q[1] & 0xF) + (q[1] >> 4)))
    return []


HAS_SF = (0x10, 0x11, 0x27, 0x28, 0x3E, 0x85, 0x19, 0x2C, 0x31)
# one representative of every class of the ISO response-code table (defined / reserved / set aside)
NRC_SAMPLE = [0x10, 0x11, 0x12, 0x13, 0x14, 0x21, 0x22, 0x31, 0x33, 0x34, 0x3A, 0x50, 0x5D, 0x70, 0x73, 0x78,
              0x7E, 0x7F, 0x81, 0x8D, 0x8F, 0x94, 0xF0, 0xFE,
              0x00, 0x01, 0x0F, 0x15, 0x20, 0x23, 0x27, 0x30, 0x32, 0x3B, 0x4F, 0x5E, 0x6F, 0x74, 0x77, 0x79, 0x7D,
              0x80, 0x8E, 0xFF, 0x95, 0xC0, 0xEF]


def families(rc: ReqCase, pool: list[bytes], *, all_nrc: bool, deep: bool) -> list[tuple[str, bytes]]:
    """Reply byte strings to try against one request, labelled by the family of the quantifier."""
    q = rc.pdu
    s = q[0]
    out: list[tuple[str, bytes]] = []
    gens = genuine_replies(q)
    for i, g in enumerate(gens):
        out.append(("genuine" if i == 0 else "genuine-long", g))
    for g in gens if deep else gens[:1]:
        for p in echo_positions(q):
            if p < len(g):
                for delta in ((1, 0x10) if deep else (1,)):
                    b = bytearray(g)
                    b[p] = (b[p] + delta) % (0x80 if (p == 1 and s in HAS_SF) else 0x100)
                    out.append(("echo-changed", bytes(b)))
        if s in HAS_SF and len(g) >= 2:
            b = bytearray(g)
            b[1] |= 0x80
            out.append(("suppress-bit", bytes(b)))
            b[1] = ((g[1] + 1) % 0x80) | 0x80
            out.append(("suppress-bit-other", bytes(b)))
        for n in range(1, len(g)):
            out.append(("truncated", g[:n]))
        out.append(("extended", g + b"\x00"))
        if deep:
            out.append(("extended", g + b"\xff\xff"))
    if s == 0x22 and len(q) >= 5 and len(q) % 2 == 1:
        # a reply echoing one of the OTHER requested identifiers (e.g. the late answer to an earlier probe)
        for i in range(3, len(q), 2):
            if q[i:i + 2] != q[1:3]:
                out.append(("echo-other-requested-id", bytes([0x62]) + q[i:i + 2] + b"\xa7"))
                out.append(("echo-other-requested-id", bytes([0x62]) + q[i:i + 2] + b"\xa7" + q[1:3] + b"\xa8"))
    for r in pool:
        if r not in gens:
            out.append(("other-positive" if r[0] != 0x7F else "other-negative", r))
    codes = range(256) if all_nrc else NRC_SAMPLE + [s]
    for c in codes:
        out.append(("neg-same", bytes([0x7F, s, c])))
    others = [0x10 if s != 0x10 else 0x11, (s + 1) & 0xFF, (s + 0x40) & 0xFF]
    for o in others if deep else others[:2]:
        for c in ([0x31, 0x11, 0x78, 0x01, 0xFF, 0x95, s] if not deep else NRC_SAMPLE + [s]):
            out.append(("neg-other-nrc-eq-sid" if c == s else "neg-other", bytes([0x7F, o, c])))
        out.append(("neg-other-len2", bytes([0x7F, o])))
        out.append(("neg-other-len4", bytes([0x7F, o, 0x31, 0x00])))
        out.append(("neg-other-len4", bytes([0x7F, o, s, s])))
    out.append(("neg-len1", b"\x7f"))
    out.append(("neg-same-len2", bytes([0x7F, s])))
    out.append(("neg-same-len4", bytes([0x7F, s, 0x31, 0x00])))
    out.append(("neg-same-len4", bytes([0x7F, s, 0x01, 0x00])))
    out.append(("neg-same-len4", bytes([0x7F, s, s, 0x00])))
    return out


# --------------------------------------------------------------------------
# driving the real code

def classify_exc(e: BaseException) -> str:
    if isinstance(e, RequestResponseMismatch):
        return "Mismatch"
    if isinstance(e, MalformedResponse):
        return "Malformed"
    return "Other"


def observe_parse(req: service.UDSRequest, reply: bytes) -> tuple[str, int, str]:
    """helpers.parse_pdu(reply, request): (outcome, map, python class / exception name)."""
    try:
        resp = parse_pdu(reply, req)
    except Exception as e:  # noqa: BLE001
        return classify_exc(e), -2, type(e).__name__
    m = -2
    if isinstance(resp, service.NegativeResponse):
        try:
            exc = UnexpectedNegativeResponse.parse_dynamic(req, resp, None)
            ok = isinstance(exc, UnexpectedNegativeResponse) and exc.response is resp
            m = int(type(exc).RESPONSE_CODE) if ok else -1
        except Exception:  # noqa: BLE001
            m = -1
    return "Accept", m, type(resp).__name__


class OneReplyEnv(ScriptEnv):
    """Peer that answers the first read with `reply`, then stays silent."""

    def __init__(self, reply: bytes) -> None:
        super().__init__()
        self.reply = reply
        self.served = False

    def on_read(self, timeout: float | None) -> tuple[str, bytes | None]:
        if not self.served:
            self.served = True
            return ("Reply", self.reply)
        return ("Timeout", None)


def lenient_matcher_mutant(req: service.UDSRequest, reply: bytes) -> str:
    """Hand-written mutant used by the binding self-test: a matcher that looks at the
    response service id only (what a too lenient parse_pdu would do)."""
    if reply[0] == 0x7F:
        return "Accept"
    return "Accept" if reply[0] == (req.pdu[0] + 0x40) & 0xFF else "Mismatch"


def observe_e2e(pairs: list[tuple[service.UDSRequest, bytes]]) -> list[str]:
    """UDSClient.request() on a ScriptedTransport, one fresh client/transport per pair, one virtual loop."""
    out: list[str] = []

    async def go() -> None:
        for req, reply in pairs:
            env = OneReplyEnv(reply)
            try:
                cl = UDSClient(ScriptedTransport(env), timeout=1.0, max_retry=0)
                try:
                    resp = await cl.request(req)
                    wrote = [r for r in env.log if r["e"] == "W"]
                    # the result must be the reply that was read for the request that was written
                    same = len(wrote) == 1 and wrote[0]["data"] == bytes(req.pdu).hex() and resp is not None
                    out.append("Accept" if same else "Other")
                except Exception as e:  # noqa: BLE001
                    out.append(classify_exc(e))
            finally:
                env.dispose()

    vloop.run(go())
    return out


def dumps(x: Any) -> str:
    return json.dumps(x, sort_keys=True)
