"""X16: pcap-filter(7) expressions -> a small JSON syntax tree that TLC evaluates (spec/DumpcapContract.tla, Accepts).

Only a translation of the text: nothing in here decides whether a filter is right.  An expression outside the
grammar below raises `Unparsed` -- the driver turns that into a machinery failure ("teach the parser"), never
into a verdict.

    expr   := term   { ("or"  | "||") term }
    term   := factor { ("and" | "&&") factor }
    factor := ("not" | "!") factor | "(" expr ")" | prim
    prim   := [ip|ip6|tcp|udp] [src|dst] host ADDR        | [src|dst] net? (not supported)
            | [tcp|udp] [src|dst] port N | [tcp|udp] [src|dst] portrange A-B
            | ip | ip6 | tcp | udp
            | (link|ether) "[" OFF [":" SIZE] "]" [ "&" MASK ] ("==" | "=" | "!=") VALUE

Nodes: {"op":"true"} (empty filter: everything), {"op":"and"|"or","l":..,"r":..}, {"op":"not","l":..},
{"op":"host","dir":"any"|"src"|"dst","fam":"any"|"ip"|"ip6","addr":<canonical text>},
{"op":"port","proto":"any"|"tcp"|"udp","dir":..,"lo":N,"hi":N}, {"op":"proto","p":"tcp"|"udp"|"ip"|"ip6"},
{"op":"bytes","off":N,"val":[b..],"care":[0|1..],"neg":0|1}  (big-endian load of len(val) bytes at link offset off;
a mask is accepted when every mask byte is 0x00 or 0xff), {"op":"invalid"} (made by the caller when `Invalid` is raised:
the text is certainly not a filter expression -- only for operands no grammar allows, e.g. `host [::1]`).
"""

from __future__ import annotations

import ipaddress
import re
from typing import Any


class Unparsed(Exception):
    pass


_TOK = re.compile(r"\s*(\|\||&&|==|!=|[()\[\]!=&]|[^\s()\[\]!=&|]+)")


def _tokens(s: str) -> list[str]:
    out = []
    pos = 0
    s = s.strip()
    while pos < len(s):
        m = _TOK.match(s, pos)
        if not m:
            raise Unparsed(f"cannot tokenise {s[pos:]!r}")
        out.append(m.group(1))
        pos = m.end()
    return out


class Invalid(Exception):
    """The expression is certainly not a pcap filter (dumpcap would refuse to start with it)."""


def _canon(addr: str) -> str:
    try:
        return ipaddress.ip_address(addr).compressed
    except ValueError as e:
        if not re.fullmatch(r"[A-Za-z0-9.:_-]+", addr):
            # no address and no host name can contain this character (e.g. a bracketed IPv6 literal)
            raise Invalid(f"host operand {addr!r}") from e
        raise Unparsed(f"host literal {addr!r} is not an IP address") from e


def _num(t: str) -> int:
    try:
        return int(t, 0)
    except ValueError as e:
        raise Unparsed(f"number expected, got {t!r}") from e


def parse(text: str) -> dict[str, Any]:
    toks = _tokens(text)
    if not toks:
        return {"op": "true"}
    pos = 0

    def peek() -> str | None:
        return toks[pos] if pos < len(toks) else None

    def take(want: str | None = None) -> str:
        nonlocal pos
        if pos >= len(toks):
            raise Unparsed(f"unexpected end of {text!r}")
        t = toks[pos]
        if want is not None and t != want:
            raise Unparsed(f"{want!r} expected, got {t!r} in {text!r}")
        pos += 1
        return t

    def expr() -> dict[str, Any]:
        n = term()
        while peek() in ("or", "||"):
            take()
            n = {"op": "or", "l": n, "r": term()}
        return n

    def term() -> dict[str, Any]:
        n = factor()
        while peek() in ("and", "&&"):
            take()
            n = {"op": "and", "l": n, "r": factor()}
        return n

    def factor() -> dict[str, Any]:
        t = peek()
        if t in ("not", "!"):
            take()
            return {"op": "not", "l": factor()}
        if t == "(":
            take()
            n = expr()
            take(")")
            return n
        return prim()

    def prim() -> dict[str, Any]:
        t = take()
        if t in ("link", "ether") and peek() == "[":
            take("[")
            inner = take()  # "OFF" or "OFF:SIZE" (a colon is not a token of its own: IPv6 literals contain colons)
            size = 1
            if ":" in inner:
                inner, sz = inner.split(":", 1)
                size = _num(sz)
            off = _num(inner)
            take("]")
            if size not in (1, 2, 4):
                raise Unparsed(f"load size {size}")
            care = [1] * size
            if peek() == "&":
                take()
                mask = _num(take())
                mb = list(mask.to_bytes(size, "big"))
                if any(b not in (0, 0xFF) for b in mb):
                    raise Unparsed(f"mask {mask:#x} is not byte-wise")
                care = [1 if b else 0 for b in mb]
            rel = take()
            if rel not in ("==", "=", "!="):
                raise Unparsed(f"relation {rel!r}")
            v = _num(take())
            if not 0 <= v < 256 ** size:
                raise Unparsed(f"value {v:#x} does not fit {size} bytes")
            val = list(v.to_bytes(size, "big"))
            if any(val[i] and not care[i] for i in range(size)):
                return {"op": "not", "l": {"op": "true"}} if rel != "!=" else {"op": "true"}
            return {"op": "bytes", "off": off, "val": val, "care": care, "neg": 1 if rel == "!=" else 0}
        fam = "any"
        proto = "any"
        direction = "any"
        if t in ("ip", "ip6", "tcp", "udp"):
            nxt = peek()
            if nxt not in ("src", "dst", "host", "port", "portrange"):
                return {"op": "proto", "p": t}
            if t in ("ip", "ip6"):
                fam = t
            else:
                proto = t
            t = take()
        if t in ("src", "dst"):
            direction = t
            t = take()
            if t == "or" and direction == "src" and peek() == "dst":  # "src or dst host X"
                take()
                direction = "any"
                t = take()
        if t == "host":
            if proto != "any":
                raise Unparsed(f"{proto} host")
            return {"op": "host", "dir": direction, "fam": fam, "addr": _canon(take())}
        if t == "port":
            if fam != "any":
                raise Unparsed(f"{fam} port")
            n = _num(take())
            return {"op": "port", "proto": proto, "dir": direction, "lo": n, "hi": n}
        if t == "portrange":
            r = take()
            m = re.fullmatch(r"(\d+)-(\d+)", r)
            if not m:
                raise Unparsed(f"portrange {r!r}")
            return {"op": "port", "proto": proto, "dir": direction, "lo": int(m.group(1)), "hi": int(m.group(2))}
        raise Unparsed(f"primitive {t!r} in {text!r}")

    n = expr()
    if pos != len(toks):
        raise Unparsed(f"trailing {toks[pos:]} in {text!r}")
    return n


def depth(n: dict[str, Any]) -> int:
    return 1 + max([depth(n[k]) for k in ("l", "r") if k in n] or [0])
