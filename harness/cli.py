"""./check <ID> --tier quick|thorough [--replay PATH]"""

from __future__ import annotations

import argparse
import importlib
import os
import sys
import traceback

from harness import common
from harness.tlc import TlcError


def main() -> int:
    ap = argparse.ArgumentParser()
    ap.add_argument("prop")
    ap.add_argument("--tier", default=os.environ.get("VERIF_TIER", "quick"), choices=["quick", "thorough"])
    ap.add_argument("--replay", default=None)
    ap.add_argument("--seed", type=int, default=None)
    a = ap.parse_args()
    seed = a.seed if a.seed is not None else common.seed_from_env(0)
    pid = a.prop.upper()
    try:
        mod = importlib.import_module(f"harness.props.{pid.lower()}")
    except ModuleNotFoundError as e:
        print(f"MACHINERY-FAILURE: no driver for {pid}: {e}", file=sys.stderr)
        return 2
    try:
        if a.replay:
            return int(mod.replay(a.replay))
        rep = mod.run(a.tier, seed)
        return common.finish(rep)
    except (common.Machinery, TlcError) as e:
        print(f"MACHINERY-FAILURE: {e}", file=sys.stderr)
        return 2
    except Exception:  # noqa: BLE001
        traceback.print_exc()
        print("MACHINERY-FAILURE: unhandled exception in the harness", file=sys.stderr)
        return 2


if __name__ == "__main__":
    sys.exit(main())
