"""X05 — scripted ECU memory models and one real run of `scan uds memory` over the full in-memory stack.

Stack (see harness/c10_stack.py): MemoryFunctionsScanner.run() (setup -> main -> teardown, config object built
from the option values as a user would type them) -> real ECU / UDSClient (incl. cyclic tester present) -> real
TCPLinesTransport -> in-memory byte streams -> real TCPUDSServerTransport.handle_client -> MemServer(UDSServer).

MemServer decodes the four memory services with its OWN reading of ISO 14229-1 (addressAndLengthFormatIdentifier:
high nibble = length of memorySize, low nibble = length of memoryAddress; 0x34/0x35 carry a dataFormatIdentifier
before it; 0x3D carries memorySize data bytes behind it) -- nothing of gallia's `uds_memory_parameters` is used.
Whether a request IS well-formed is judged by the contract (TLC) from the recorded bytes; the fake only needs the
address to look up its answer.

ECU model (plain JSON, replayable):
  {"sessions": [1, 3],        sessions DiagnosticSessionControl accepts
   "dsc_budget": -1 | k,      only the first k changes into a non-default session are accepted (then 7F 10 22)
   "sess_read": "ok" | "unsupported" | "silent" | "othernrc",
   "reset_ok": bool,          ECUReset answered positively (else 7F 11 22)
   "svc": 0x23|0x3D|0x34|0x35,
   "mem": {"<session>": {"<addr hex>": code}},   code: 0 positive, 256 silent, 257 silent on the first attempt then
                                                 positive, 258 the ECU crashes (no answer, connection closed, back
                                                 in the default session when it is reachable again), else the NRC
   "dflt": {"<session>": code},                  answer for all other addresses in that session (default 0x31)
   "drop": ["<addr hex>", ...]}                  after answering a probe of that address in a non-default session
                                                 the ECU falls back to its default session (S3 timeout / reset)

Events (order of occurrence; ECU side and scanner log interleaved):
  {"k": "q", "t": ground-truth session before the request, "p": request bytes, "r": answer code (0 positive,
   256 none, else NRC), "v": session reported by a positive session read / entered by a positive DSC (else 0)}
  {"k": "res", "a": address as minimal big-endian bytes, "w": "timeout" | "resp"}   one result-tagged log record
Nothing is judged here.
"""

from __future__ import annotations

import asyncio
import contextlib
import re
from collections.abc import Iterator
from typing import Any

from gallia.services.uds.core import service
from gallia.services.uds.core.constants import UDSIsoServices
from gallia.services.uds.server import UDSServer

from harness import vloop
from gallia.services.uds.server import TCPUDSServerTransport
from gallia.transports import TargetURI

from harness.c10_stack import TARGET, _Raw, _SrvWriter, capture_results
from harness.streams import Listener, Wire, patched_connections

POSITIVE, NONE, LATE, CRASH = 0, 256, 257, 258
ROOR = 0x31
MEM_SERVICES = (0x23, 0x3D, 0x34, 0x35)


def addr_bytes(a: int) -> list[int]:
    """Representation only: non-negative int -> minimal big-endian byte list (TLC integers are 32 bit)."""
    return list(a.to_bytes(max(1, (a.bit_length() + 7) // 8), "big"))


def iso_decode(svc: int, pdu: bytes) -> tuple[int, int, bytes] | None:
    """(address, size, data record) of a memory request, None if it cannot be read at all."""
    off = 2 if svc in (0x34, 0x35) else 1
    if len(pdu) < off + 1:
        return None
    alfid = pdu[off]
    n_size, n_addr = alfid >> 4, alfid & 0x0F
    if n_size == 0 or n_addr == 0 or len(pdu) < off + 1 + n_addr + n_size:
        return None
    a0 = off + 1
    addr = int.from_bytes(pdu[a0:a0 + n_addr], "big")
    size = int.from_bytes(pdu[a0 + n_addr:a0 + n_addr + n_size], "big")
    return addr, size, pdu[a0 + n_addr + n_size:]


class MemServer(UDSServer):
    def __init__(self, model: dict[str, Any], mutant: str | None = None) -> None:
        super().__init__()
        self.model = model
        self.svc = int(model["svc"])
        self.sessions = sorted(int(s) for s in model["sessions"])
        self.budget = int(model.get("dsc_budget", -1))
        self.sess_read = model.get("sess_read", "ok")
        self.reset_ok = bool(model.get("reset_ok", True))
        self.mem = {int(s): {int(a, 16): int(c) for a, c in d.items()} for s, d in model.get("mem", {}).items()}
        self.dflt = {int(s): int(c) for s, c in model.get("dflt", {}).items()}
        self.drop = {int(a, 16) for a in model.get("drop", [])}
        self.mutant = mutant
        self.log: list[dict[str, Any]] = []
        self.last: bytes | None = None  # previous memory request (for the "late" answer class)
        self.last_silent = False
        self.kill_connection: Any = None  # closes the connection currently served (set by serving_mem)
        sup: dict[UDSIsoServices, list[int] | None] = {
            UDSIsoServices.DiagnosticSessionControl: self.sessions,
            UDSIsoServices.ReadDataByIdentifier: None,
        }
        self._sup = {s: dict(sup) for s in set(self.sessions) | {1}}

    @property
    def supported_services(self) -> dict[int, dict[UDSIsoServices, list[int] | None]]:
        return self._sup

    async def respond_after_default(self, request: service.UDSRequest) -> service.UDSResponse | None:
        return None

    def code_of(self, session: int, addr: int) -> int:
        return self.mem.get(session, {}).get(addr, self.dflt.get(session, ROOR))

    def positive(self, pdu: bytes, addr: int, size: int) -> bytes:
        if self.svc == 0x23:
            return bytes([0x63]) + bytes((addr + i) & 0xFF for i in range(size))
        if self.svc == 0x3D:
            d = iso_decode(self.svc, pdu)
            assert d is not None
            return bytes([0x7D]) + pdu[1:len(pdu) - len(d[2])]
        return bytes([self.svc + 0x40, 0x20, 0x0F, 0xFF])

    def memory(self, truth: int, pdu: bytes) -> bytes | None:
        d = iso_decode(self.svc, pdu)
        if d is None:
            return bytes([0x7F, self.svc, 0x13])
        addr, size, _data = d
        code = self.code_of(truth, addr)
        if self.mutant == "fake-answers-positive-outside-model" and code == ROOR:
            code = POSITIVE
        if code == LATE:
            again = self.last == pdu and self.last_silent
            code = POSITIVE if again else NONE
        self.last, self.last_silent = bytes(pdu), code == NONE
        if truth != 1 and addr in self.drop:
            self.state.reset()
        if code == CRASH:
            self.state.reset()
            if self.kill_connection is not None:
                self.kill_connection()  # the ECU died: the peer sees the connection closed, no answer
            return None
        if code == NONE:
            return None
        if code == POSITIVE:
            return self.positive(pdu, addr, size)
        return bytes([0x7F, self.svc, code])

    async def respond(self, request: service.UDSRequest) -> Any:
        pdu = bytes(request.pdu)
        truth = self.state.session
        v = 0
        if len(pdu) == 2 and pdu[0] == 0x10 and (pdu[1] & 0x7F) != 0:
            s = pdu[1] & 0x7F
            refuse = s != 1 and self.budget == 0
            if s in self.sessions and not refuse:
                if s != 1 and self.budget > 0:
                    self.budget -= 1
                resp = await super().respond(request)  # gallia's default chain + state update
                if resp is not None and resp.pdu[0] == 0x50:
                    v = s
            else:
                resp = _Raw(bytes([0x7F, 0x10, 0x22 if s in self.sessions else 0x12]))
        elif pdu == b"\x22\xf1\x86":
            if self.sess_read == "ok":
                resp = await super().respond(request)
                v = truth
            elif self.sess_read == "silent":
                resp = None
            else:
                resp = _Raw(bytes([0x7F, 0x22, 0x31 if self.sess_read == "unsupported" else 0x33]))
        elif pdu[0] == 0x3E and len(pdu) == 2:
            resp = None if pdu[1] & 0x80 else _Raw(b"\x7e\x00")
        elif pdu[0] == 0x11 and len(pdu) == 2:
            if self.reset_ok:
                self.state.reset()
                resp = _Raw(bytes([0x51, pdu[1]]))
            else:
                resp = _Raw(b"\x7f\x11\x22")
        elif pdu[0] == self.svc:
            raw = self.memory(truth, pdu)
            resp = None if raw is None else _Raw(raw)
        else:
            resp = _Raw(bytes([0x7F, pdu[0], 0x11]))
        raw2 = None if resp is None else bytes(resp.pdu)
        if raw2 is None:
            r = NONE
        elif raw2[0] == 0x7F:
            r = raw2[2] if len(raw2) >= 3 else 0x10
        else:
            r = POSITIVE
        self.log.append({"k": "q", "t": truth, "p": list(pdu), "r": r, "v": v})
        return resp


@contextlib.contextmanager
def serving_mem(server: MemServer) -> Iterator[Listener]:
    """Like harness.c10_stack.serving (every (re)connection of the client is served by the real handle_client);
    additionally tells the fake which connection is the current one, so that a crashing ECU can close it."""
    tr = TCPUDSServerTransport(server, TargetURI(TARGET))
    lst = Listener()
    tasks: list[asyncio.Future[Any]] = []

    def accept(wire: Wire) -> None:
        rd = asyncio.StreamReader(limit=2**20)
        wire.on_out = rd.feed_data
        wire.on_client_close = rd.feed_eof

        def kill() -> None:
            # a dead ECU neither answers nor reads what still arrives on the old connection
            wire.on_out = lambda data: None
            wire.on_client_close = lambda: None
            rd.feed_eof()
            wire.eof()

        server.kill_connection = kill
        t = asyncio.ensure_future(tr.handle_client(rd, _SrvWriter(wire)))  # type: ignore[arg-type]
        t.add_done_callback(lambda f: f.cancelled() or f.exception())
        tasks.append(t)

    lst.on_accept = accept
    with patched_connections(lst):
        yield lst
    for t in tasks:
        if not t.done():
            t.cancel()


_RE_ADDR = re.compile(r"address\W*?(0x[0-9a-f]+|\d+)\b", re.I)
_RE_TIMEOUT = re.compile(r"time[ -]?out|timed out|no (response|answer|reply)|missing response|unanswered", re.I)


class LogNotUnderstood(Exception):
    pass


def options_of(cfg: dict[str, Any]) -> dict[str, Any]:
    d = bool(cfg.get("defaults", False))
    kw: dict[str, Any] = dict(target=TARGET, service=cfg["service"], session=cfg["session"],
                              ping=d, tester_present=d, properties=d)
    if cfg.get("data") is not None:
        kw["data"] = cfg["data"]
    if cfg.get("check") is not None:
        kw["check_session"] = cfg["check"]
    if cfg.get("max_retries") is not None:
        kw["max_retries"] = cfg["max_retries"]
    if cfg.get("timeout") is not None:
        kw["timeout"] = cfg["timeout"]
    return kw


def run_case(case: dict[str, Any], mutant: str | None = None) -> dict[str, Any]:
    """case = {"ecu": model, "cfg": option values, "den": {"session", "svc", "data": [bytes], "check": n|0}}"""
    from gallia.commands.scan.uds.memory import MemoryFunctionsScanner, MemoryFunctionsScannerConfig

    ecu, cfg, den = case["ecu"], case["cfg"], case["den"]
    out: dict[str, Any] = {"ev": [], "bad_records": []}
    holder: dict[str, Any] = {}

    def flush() -> None:
        srv = holder.get("server")
        if srv is None:
            return
        n = holder.get("n", 0)
        out["ev"].extend(srv.log[n:])
        holder["n"] = len(srv.log)

    def sink(msg: str) -> None:
        flush()  # requests seen by the ECU before this record was emitted
        m = _RE_ADDR.search(msg)
        if m:
            a = int(m.group(1), 0)
            out["ev"].append({"k": "res", "a": addr_bytes(a), "w": "timeout" if _RE_TIMEOUT.search(msg) else "resp"})
        else:
            out["bad_records"].append(msg[:120])

    async def go() -> None:
        server = MemServer(ecu, mutant=mutant)
        holder["server"] = server
        with serving_mem(server):
            sc = MemoryFunctionsScanner(MemoryFunctionsScannerConfig(**options_of(cfg)))
            try:
                await sc.run()
                out["done"] = "ok"
            except SystemExit as e:
                out["done"] = f"exit{e.code}"
            except Exception as e:  # noqa: BLE001
                out["done"] = f"exc:{type(e).__name__}"
        flush()

    # the server loop's inactivity reset (10 s without a request) reads time.time(): give it the virtual clock
    import gallia.services.uds.server as server_mod

    real_time = server_mod.time
    server_mod.time = lambda: asyncio.get_event_loop().time()  # type: ignore[assignment]
    try:
        with capture_results(sink):
            try:
                vloop.run(go(), horizon=1e7)
            except (TimeoutError, vloop.BlockedForever):
                out.setdefault("done", "hang")
            except SystemExit as e:  # raised inside a task
                out.setdefault("done", f"exit{e.code}")
    finally:
        server_mod.time = real_time  # type: ignore[assignment]
    flush()
    tab = [[int(s), addr_bytes(int(a, 16)), int(c)] for s, d in sorted(ecu.get("mem", {}).items())
           for a, c in sorted(d.items())]
    return {
        "C": {"session": int(den["session"]), "svc": int(den["svc"]), "data": list(den["data"]),
              "check": int(den["check"] or 0)},
        "E": {"tab": tab, "dflt": [[int(s), int(c)] for s, c in sorted(ecu.get("dflt", {}).items())]},
        "ev": out["ev"],
        "done": out.get("done", "?"),
        "bad_records": out["bad_records"],
        "origin": case.get("origin", ""),
    }


def sweep_of(trace: dict[str, Any]) -> list[list[int]]:
    """Representation only: the distinct addresses (as sent, leading zero bytes stripped) of a baseline run."""
    svc = trace["C"]["svc"]
    seen: set[tuple[int, ...]] = set()
    out: list[list[int]] = []
    for e in trace["ev"]:
        if e["k"] == "q" and e["p"][0] == svc:
            d = iso_decode(svc, bytes(e["p"]))
            if d is None:
                continue
            a = tuple(addr_bytes(d[0]))
            if a not in seen:
                seen.add(a)
                out.append(list(a))
    return out
