"""X23 -- drive the REAL gallia.transports.can / gallia.transports.isotp code on one scripted case; nothing is judged here.

The kernel stand-in is the one of X14 (harness/x14_run.py, imported, not modified): inside gallia.transports.can and
gallia.transports.isotp the name `s` (the socket module) hands out one end of an AF_UNIX datagram socket pair whose other
end is an in-memory CAN bus with the Linux CAN_RAW filter semantics (`_End.passes`).  This file only wraps it:

  * XBus.put() puts ANY frame on the wire (RTR with a dlc, error frames, FD frames with BRS / ESI), keeps the ground
    truth of every frame (delivered to the socket or not) in one totally ordered log,
  * XEnd records every setsockopt (level, option, value bytes) and the bind address in call order, refuses
    CAN_ISOTP_OPTS / LL_OPTS on a bound ISO-TP socket with EISCONN and a raw write of a size that is neither a
    can_frame nor (with CAN_RAW_FD_FRAMES) a canfd_frame with EINVAL, as linux/net/can/{isotp,raw}.c do, delivers
    error frames only with CAN_RAW_ERR_FILTER, and can make the next receive call fail with a scripted errno
    (sk_err of the ISO-TP socket),
  * time.time() inside gallia.transports.can reads the virtual clock (get_idle_traffic).

Case kinds (plain JSON, replayable):
  {"kind": "pack",   id, eff, rtr, err, fd, brs, esi, dlc (-1 = not given), d: hex}
  {"kind": "unpack", id, eff, rtr, err, fd, brs, esi, len, d: hex}      a frame as the kernel hands it to recv()
  {"kind": "raw", "uri": str, "cfg": {xid, fd, dst (-1 none)}, "ops": [...]}
  {"kind": "iso", "uri": str, "cfg": {...intended values, -1 = absent...}, "ops": [...]}
ops: {"op": "bus", frame} | {"op": "later", "ms", frame} | {"op": "recv", "timeout": ms | -1} | {"op": "sendto", "dst",
      "d", "timeout"} | {"op": "write", "d"} | {"op": "read", "timeout"} | {"op": "filter", "ids", "inv"} |
     {"op": "idle", "sniff": ms} | {"op": "idle_filter"} (set_filter(last idle list, inv_filter=True)) |
     {"op": "sleep", "ms"} | {"op": "close"} |
     iso: {"op": "pdu", "d"} | {"op": "pdu_later", "ms", "d"} | {"op": "err", "errno"} | {"op": "err_later", "ms", "errno"}
"""

from __future__ import annotations

import asyncio
import errno as errno_mod
import os
import socket
import struct
from typing import Any

from harness import vloop
from harness.x14_run import (
    CAN_EFF_FLAG,
    CAN_EFF_MASK,
    CAN_ERR_FLAG,
    CAN_RTR_FLAG,
    CAN_SFF_MASK,
    SOL_CAN_ISOTP,
    SOL_CAN_RAW,
    Bus,
    _Clock,
    _End,
    _PairSocket,
    _SocketModule,
)

CAN_RAW_ERR_FILTER = 2
CAN_ISOTP_OPTS, CAN_ISOTP_RECV_FC, CAN_ISOTP_TX_STMIN, CAN_ISOTP_RX_STMIN, CAN_ISOTP_LL_OPTS = 1, 2, 3, 4, 5
LE = struct.pack("=H", 1)[0] == 1


# ------------------------------------------------------------------ the harness's own frame codec (struct can_frame)
def frame_word(f: dict[str, Any]) -> int:
    return (int(f["id"]) | (CAN_EFF_FLAG if f.get("eff") else 0) | (CAN_RTR_FLAG if f.get("rtr") else 0)
            | (CAN_ERR_FLAG if f.get("err") else 0))


def frame_bytes(f: dict[str, Any]) -> bytes:
    """linux/can.h: can_id (native u32), len, flags (FD only), 2 reserved bytes, data[8 | 64]."""
    d = bytes.fromhex(f.get("d", ""))
    n = int(f["len"]) if f.get("len") is not None else len(d)
    fd = bool(f.get("fd"))
    flags = ((1 if f.get("brs") else 0) | (2 if f.get("esi") else 0)) if fd else 0
    return struct.pack("=IBBBB", frame_word(f), n, flags, 0, 0) + d.ljust(64 if fd else 8, b"\0")


def parse_frame(raw: bytes) -> dict[str, Any]:
    if len(raw) not in (16, 72):
        return {"ok": False, "size": len(raw), "id": -1, "eff": False, "rtr": False, "err": False, "fd": False, "len": -1,
                "d": [], "tail0": False, "brs": False, "esi": False}
    word, n, flags = struct.unpack_from("=IBB", raw)
    eff = bool(word & CAN_EFF_FLAG)
    fd = len(raw) == 72
    body = raw[8:]
    return {"ok": True, "size": len(raw), "id": word & (CAN_EFF_MASK if eff else CAN_SFF_MASK), "eff": eff,
            "rtr": bool(word & CAN_RTR_FLAG), "err": bool(word & CAN_ERR_FLAG), "fd": fd, "len": n,
            "d": list(body[:min(n, len(body))]), "tail0": not any(body[min(n, len(body)):]),
            "brs": bool(fd and flags & 1), "esi": bool(fd and flags & 2),
            "hi": (word & CAN_EFF_MASK) >> 11 if not eff else 0}


# ------------------------------------------------------------------ wrappers around the X14 kernel stand-in
class XSock(_PairSocket):
    def recv(self, n: int, *a: Any) -> bytes:  # type: ignore[override]
        data = socket.socket.recv(self, n, *a)       # BlockingIOError passes through to the event loop
        return self.end.on_recv(data)


class XEnd(_End):
    def __init__(self, bus: "XBus", kind: str) -> None:
        super().__init__(bus, kind)
        self.sock.__class__ = XSock
        self.items: list[dict[str, Any]] = []     # what waits in the socket's receive queue, in order
        self.calls: list[dict[str, Any]] = []     # setsockopt / bind in call order
        self.bound = False
        self.err_mask = 0

    def on_bind(self, addr: Any) -> None:
        super().on_bind(addr)
        self.bound = True
        rec: dict[str, Any] = {"c": "bind", "iface": str(addr[0]), "n": len(addr)}
        if self.kind == "isotp":
            rec["rx"], rec["tx"] = word_rec(int(addr[1])), word_rec(int(addr[2]))
        self.calls.append(rec)

    def on_sockopt(self, level: int, opt: int, value: Any) -> None:
        val = list(value) if isinstance(value, (bytes, bytearray, memoryview)) else list(struct.pack("=i", int(value)))
        if self.kind == "isotp" and level == SOL_CAN_ISOTP and self.bound and opt in (CAN_ISOTP_OPTS, CAN_ISOTP_LL_OPTS,
                                                                                       CAN_ISOTP_RECV_FC, CAN_ISOTP_TX_STMIN,
                                                                                       CAN_ISOTP_RX_STMIN):
            self.calls.append({"c": "opt", "level": level, "opt": opt, "v": val, "refused": True})
            raise OSError(errno_mod.EISCONN, os.strerror(errno_mod.EISCONN))      # isotp_setsockopt_locked: so->bound
        self.calls.append({"c": "opt", "level": level, "opt": opt, "v": val, "refused": False})
        if self.kind == "raw" and level == SOL_CAN_RAW and opt == CAN_RAW_ERR_FILTER:
            self.err_mask = int(value) if not isinstance(value, (bytes, bytearray)) else struct.unpack("=I", bytes(value))[0]
            return
        super().on_sockopt(level, opt, value)

    # kernel -> application
    def to_app(self, raw: bytes, seq: int) -> bool:  # type: ignore[override]
        try:
            self.peer.send(raw)
        except (BlockingIOError, OSError):
            return False
        self.items.append({"k": "data", "seq": seq})
        return True

    def fail_next(self, seq: int, eno: int) -> bool:
        try:
            self.peer.send(b"\0")                   # wakes the reader; the datagram stands for sk_err
        except (BlockingIOError, OSError):
            return False
        self.items.append({"k": "err", "seq": seq, "errno": eno})
        return True

    def on_recv(self, data: bytes) -> bytes:
        it = self.items.pop(0) if self.items else {"k": "data", "seq": -1}
        self.bus.xlog.append({"e": "R", "seq": it["seq"]})
        if it["k"] == "err":
            raise OSError(it["errno"], os.strerror(it["errno"]))
        return data

    # application -> kernel
    def from_app(self, raw: bytes) -> None:
        if self.closed:
            raise OSError(errno_mod.EBADF, "Bad file descriptor")
        if self.kind == "raw":
            f = parse_frame(raw)
            ok = f["ok"] and (f["size"] == 16 or self.fd_frames) and f["len"] <= (64 if f["fd"] else 8)
            self.bus.xlog.append({"e": "W", "t": self.bus.ms(), "ok": bool(ok), "size": f["size"], "id": f["id"],
                                  "eff": f["eff"], "rtr": f["rtr"], "err": f["err"], "fd": f["fd"], "len": f["len"],
                                  "d": f["d"], "tail0": f["tail0"], "hi": f.get("hi", 0)})
            if not ok:
                raise OSError(errno_mod.EINVAL, os.strerror(errno_mod.EINVAL))     # raw_sendmsg / can_send
        else:
            self.bus.xlog.append({"e": "W", "t": self.bus.ms(), "pdu": list(raw)})


def word_rec(word: int) -> dict[str, Any]:
    eff = bool(word & CAN_EFF_FLAG)
    return {"id": word & CAN_EFF_MASK, "eff": eff, "rtr": bool(word & CAN_RTR_FLAG), "err": bool(word & CAN_ERR_FLAG)}


class XBus(Bus):
    def __init__(self, loop: asyncio.AbstractEventLoop, mutant: str | None = None) -> None:
        super().__init__({"bg": [], "ecus": []}, loop, mutant)
        self.xlog: list[dict[str, Any]] = []
        self.nseq = 0

    def new_end(self, kind: str) -> XEnd:  # type: ignore[override]
        e = XEnd(self, kind)
        self.ends.append(e)
        return e

    def put(self, f: dict[str, Any]) -> None:
        """A frame of some other node appears on the wire."""
        if self.stopped:
            return
        self.nseq += 1
        seq = self.nseq
        d = bytes.fromhex(f.get("d", ""))
        n = int(f["len"]) if f.get("len") is not None else len(d)
        word = frame_word(f)
        raw = frame_bytes(f)
        shown_id = int(f["id"])
        if self.mutant == "bus-delivers-other-id":
            g = dict(f)
            g["id"] = int(f["id"]) ^ 1
            raw = frame_bytes(g)                      # the log keeps the scripted id
        queued, why = False, ""
        for e in self.ends:
            if e.kind != "raw" or e.closed or not e.bound:
                continue
            if f.get("fd") and not e.fd_frames:
                why = "fd"
            elif f.get("err") and not (e.err_mask & int(f["id"])):
                why = "errmask"
            elif f.get("err"):
                queued = e.to_app(raw, seq)
            elif not e.passes(word):
                why = "filter"
            elif e.to_app(raw, seq):
                queued = True
            else:
                why = "overrun"
        self.xlog.append({"e": "B", "t": self.ms(), "seq": seq, "id": shown_id, "eff": bool(f.get("eff")),
                          "rtr": bool(f.get("rtr")), "err": bool(f.get("err")), "fd": bool(f.get("fd")), "len": n,
                          "d": list(d[:n]), "q": queued, "why": why})

    def pdu(self, hexd: str) -> None:
        if self.stopped:
            return
        self.nseq += 1
        d = bytes.fromhex(hexd)
        q = False
        for e in self.ends:
            if e.kind == "isotp" and not e.closed and e.bound:
                q = e.to_app(d, self.nseq)
        self.xlog.append({"e": "P", "t": self.ms(), "seq": self.nseq, "k": "pdu", "d": list(d), "errno": 0, "q": q})

    def err(self, eno: int) -> None:
        if self.stopped:
            return
        self.nseq += 1
        q = False
        for e in self.ends:
            if e.kind == "isotp" and not e.closed and e.bound:
                q = e.fail_next(self.nseq, eno)
        self.xlog.append({"e": "P", "t": self.ms(), "seq": self.nseq, "k": "err", "d": [], "errno": eno, "q": q})


# ------------------------------------------------------------------ helpers
def mro_names(e: BaseException) -> list[str]:
    return [c.__name__ for c in type(e).__mro__ if c not in (object,)]


def exc_rec(e: BaseException) -> dict[str, Any]:
    eno = getattr(e, "errno", None)
    cause = e.__cause__
    return {"res": "exc", "mro": mro_names(e), "errno": int(eno) if isinstance(eno, int) else -1,
            "cause_errno": int(getattr(cause, "errno", -1) or -1) if cause is not None else -1, "msg": str(e)[:120]}


def _tmo(ms: Any) -> float | None:
    return None if ms is None or int(ms) < 0 else int(ms) / 1000.0


async def _call(coro: Any) -> tuple[str, Any]:
    try:
        return "ok", await coro
    except TimeoutError as e:
        # asyncio.wait_for's deadline and an OSError(ETIMEDOUT) of the socket both arrive as TimeoutError
        return "timeout", e
    except asyncio.CancelledError:
        t = asyncio.current_task()
        if t is not None and t.cancelling() > 0:
            raise
        return "exc", asyncio.CancelledError()
    except BaseException as e:  # noqa: BLE001
        return "exc", e


def _sock_state(tr: Any) -> dict[str, Any]:
    sk = getattr(tr, "_sock", None)
    try:
        fileno = sk.fileno() if sk is not None else -2
    except Exception:  # noqa: BLE001
        fileno = -2
    end = getattr(sk, "end", None)
    return {"fd_open": fileno >= 0, "end_closed": bool(getattr(end, "closed", False))}


# ------------------------------------------------------------------ sessions
def run_session(case: dict[str, Any], mutant: str | None = None, horizon: float = 600.0) -> dict[str, Any]:
    import gallia.transports.can as can_mod
    import gallia.transports.isotp as isotp_mod

    kind = case["kind"]
    box: dict[str, Any] = {}
    out: dict[str, Any] = {"done": "ok"}

    async def go() -> None:
        loop = asyncio.get_running_loop()
        bus = XBus(loop, mutant)
        box["bus"] = bus
        log = bus.xlog
        shim = _SocketModule(bus)
        can_mod.s = shim              # type: ignore[attr-defined]
        isotp_mod.s = shim            # type: ignore[attr-defined]
        can_mod.time = _Clock(loop)   # type: ignore[attr-defined]
        cls = can_mod.RawCANTransport if kind == "raw" else isotp_mod.ISOTPTransport
        t0 = bus.ms()
        st, tr = await _call(cls.connect(case["uri"]))
        rec: dict[str, Any] = {"e": "op", "op": "connect", "t0": t0, "t": bus.ms()}
        ends = [e for e in bus.ends if e.kind == ("raw" if kind == "raw" else "isotp")]
        rec["calls"] = ends[0].calls[:] if ends else []
        rec["nsock"] = len(bus.ends)
        if st != "ok":
            rec.update(exc_rec(tr) if st == "exc" else {"res": "timeout"})
            log.append(rec)
            return
        rec["res"] = "ok"
        log.append(rec)
        for op in case["ops"]:
            k = op["op"]
            t0 = bus.ms()
            rec = {"e": "op", "op": k, "t0": t0}
            if k == "bus":
                bus.put(op)
                continue
            if k == "later":
                loop.call_later(op["ms"] / 1000.0, bus.put, op)
                continue
            if k == "pdu":
                bus.pdu(op["d"])
                continue
            if k == "pdu_later":
                loop.call_later(op["ms"] / 1000.0, bus.pdu, op["d"])
                continue
            if k == "err":
                bus.err(int(op["errno"]))
                continue
            if k == "err_later":
                loop.call_later(op["ms"] / 1000.0, bus.err, int(op["errno"]))
                continue
            if k == "sleep":
                await asyncio.sleep(op["ms"] / 1000.0)
                continue
            if k == "recv":
                rec["timeout"] = int(op.get("timeout", -1))
                st, r = await _call(tr.recvfrom(timeout=_tmo(op.get("timeout"))))
                if st == "ok":
                    rec.update(res="frame", id=int(r[0]), d=list(r[1]))
            elif k == "read":
                rec["timeout"] = int(op.get("timeout", -1))
                st, r = await _call(tr.read(timeout=_tmo(op.get("timeout"))))
                if st == "ok":
                    rec.update(res="data", d=list(r))
            elif k == "sendto":
                d = bytes.fromhex(op["d"])
                rec.update(dst=int(op["dst"]), d=list(d))
                st, r = await _call(tr.sendto(d, int(op["dst"]), timeout=_tmo(op.get("timeout"))))
                if st == "ok":
                    rec.update(res="ok", ret=int(r))
            elif k == "write":
                d = bytes.fromhex(op["d"])
                rec.update(d=list(d))
                st, r = await _call(tr.write(d, timeout=_tmo(op.get("timeout"))))
                if st == "ok":
                    rec.update(res="ok", ret=int(r))
            elif k in ("filter", "idle_filter"):
                if k == "idle_filter":          # the documented use: the idle list as deny list
                    op = {"op": "filter", "ids": list(box.get("idle", [])), "inv": True}
                    rec["op"] = "filter"
                rec.update(ids=[int(i) for i in op["ids"]], inv=bool(op["inv"]))
                try:
                    tr.set_filter([int(i) for i in op["ids"]], inv_filter=bool(op["inv"]))
                    st, r = "ok", None
                    rec["res"] = "ok"
                except BaseException as e:  # noqa: BLE001
                    st, r = "exc", e
            elif k == "idle":
                rec["sniff"] = int(op["sniff"])
                st, r = await _call(tr.get_idle_traffic(op["sniff"] / 1000.0))
                if st == "ok":
                    rec.update(res="ok", ids=[int(i) for i in r])
                    box["idle"] = [int(i) for i in r]
            elif k == "close":
                st, r = await _call(tr.close())
                if st == "ok":
                    rec["res"] = "ok"
                rec.update(_sock_state(tr))
            else:
                raise ValueError(k)
            if st == "timeout":
                rec.update(exc_rec(r))
                rec["res"] = "timeout"
            elif st == "exc":
                rec.update(exc_rec(r))
            rec["t"] = bus.ms()
            log.append(rec)
        bus.stopped = True
        await asyncio.sleep(0)

    saved = (can_mod.s, isotp_mod.s, can_mod.time)
    try:
        try:
            vloop.run(go(), horizon=horizon)
        except (TimeoutError, vloop.BlockedForever):
            out["done"] = "hang"
        bus: XBus | None = box.get("bus")
        return {"kind": kind, "cfg": case["cfg"], "uri": case["uri"], "ev": bus.xlog if bus else [], "done": out["done"],
                "le": LE, "origin": case.get("origin", "")}
    finally:
        can_mod.s, isotp_mod.s, can_mod.time = saved  # type: ignore[attr-defined]
        b = box.get("bus")
        if b is not None:
            b.dispose()


# ------------------------------------------------------------------ pure: CANMessage.pack / unpack
def id_bytes(i: int) -> list[int]:
    return list(int(i).to_bytes(4, "big"))


def run_pack(case: dict[str, Any]) -> dict[str, Any]:
    from gallia.transports.can import CANMessage

    d = bytes.fromhex(case["d"])
    kw: dict[str, Any] = dict(arbitration_id=int(case["id"]), is_extended_id=bool(case["eff"]),
                              is_remote_frame=bool(case["rtr"]), is_error_frame=bool(case["err"]), is_fd=bool(case["fd"]),
                              bitrate_switch=bool(case["brs"]), error_state_indicator=bool(case["esi"]), data=d)
    if int(case.get("dlc", -1)) >= 0:
        kw["dlc"] = int(case["dlc"])
    out = {"kind": "pack", "id": int(case["id"]), "eff": bool(case["eff"]), "rtr": bool(case["rtr"]), "err": bool(case["err"]),
           "fd": bool(case["fd"]), "brs": bool(case["brs"]), "esi": bool(case["esi"]), "dlc": int(case.get("dlc", -1)),
           "d": list(d), "le": LE, "origin": case.get("origin", "")}
    try:
        out["packed"], out["res"] = list(CANMessage(**kw).pack()), "ok"
    except Exception as e:  # noqa: BLE001
        out["packed"], out["res"] = [], "exc"
        out["mro"] = mro_names(e)
    return out


def run_unpack(case: dict[str, Any]) -> dict[str, Any]:
    from gallia.transports.can import CANMessage

    raw = frame_bytes(case)
    out = {"kind": "unpack", "raw": list(raw), "le": LE, "origin": case.get("origin", "")}
    try:
        m = CANMessage.unpack(raw)
        out["res"] = "ok"
        out["m"] = {"id": int(m.arbitration_id), "eff": bool(m.is_extended_id), "rtr": bool(m.is_remote_frame),
                    "err": bool(m.is_error_frame), "fd": bool(m.is_fd), "brs": bool(m.bitrate_switch),
                    "esi": bool(m.error_state_indicator), "dlc": -1 if m.dlc is None else int(m.dlc), "d": list(m.data)}
        try:
            out["again"] = list(m.pack())          # the message packed again (inverse direction)
        except Exception:  # noqa: BLE001
            out["again"] = []
    except Exception as e:  # noqa: BLE001
        out["res"] = "exc"
        out["m"] = {"id": -1, "eff": False, "rtr": False, "err": False, "fd": False, "brs": False, "esi": False, "dlc": -1,
                    "d": []}
        out["again"] = []
        out["mro"] = mro_names(e)
    return out


def run_case(case: dict[str, Any], mutant: str | None = None) -> dict[str, Any]:
    k = case["kind"]
    if k == "pack":
        return run_pack(case)
    if k == "unpack":
        return run_unpack(case)
    return run_session(case, mutant)


# ------------------------------------------------------------------ layout for the trace spec (structural only)
def _op_rec(e: dict[str, Any]) -> dict[str, Any]:
    op = e["op"]
    r: dict[str, Any] = {"e": "op", "op": op, "t0": int(e.get("t0", 0)), "t": int(e.get("t", 0)), "res": e.get("res", "exc"),
                         "mro": e.get("mro", [])}
    if op == "connect":
        r["calls"] = e.get("calls", [])
    elif op == "recv":
        r.update(id=int(e.get("id", -1)), d=e.get("d", []), timeout=int(e.get("timeout", -1)))
    elif op == "read":
        r.update(d=e.get("d", []), timeout=int(e.get("timeout", -1)))
    elif op == "sendto":
        r.update(dst=int(e["dst"]), d=e["d"], ret=int(e.get("ret", -1)))
    elif op == "write":
        r.update(d=e["d"], ret=int(e.get("ret", -1)))
    elif op == "filter":
        r.update(ids=e["ids"], inv=bool(e["inv"]))
    elif op == "idle":
        r.update(ids=e.get("ids", []), sniff=int(e["sniff"]))
    elif op == "close":
        r["fdopen"] = bool(e.get("fd_open", False))
    return r


def to_trace(r: dict[str, Any]) -> dict[str, Any]:
    if r["kind"] in ("pack", "unpack"):
        return {k: v for k, v in r.items() if k != "origin"}
    ev: list[dict[str, Any]] = []
    for e in r["ev"]:
        k = e["e"]
        if k == "B":
            ev.append({"e": "B", "t": e["t"], "seq": e["seq"], "id": e["id"], "eff": e["eff"], "rtr": e["rtr"], "err": e["err"],
                       "fd": e["fd"], "len": e["len"], "d": e["d"], "ovr": e["why"] == "overrun"})
        elif k == "R":
            ev.append({"e": "R", "seq": e["seq"]})
        elif k == "W" and "pdu" in e:
            ev.append({"e": "W", "pdu": e["pdu"]})
        elif k == "W":
            ev.append({"e": "W", "ok": e["ok"], "id": e["id"], "eff": e["eff"], "rtr": e["rtr"], "err": e["err"],
                       "fd": e["fd"], "len": e["len"], "d": e["d"]})
        elif k == "P":
            ev.append({"e": "P", "t": e["t"], "seq": e["seq"], "k": e["k"], "d": e["d"], "errno": e["errno"], "q": e["q"]})
        else:
            ev.append(_op_rec(e))
    return {"kind": r["kind"], "cfg": r["cfg"], "ev": ev, "done": r["done"], "le": r["le"]}
