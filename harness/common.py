"""Shared plumbing of the checks: result object, evidence file, known findings,
VIOLATION / KNOWN-FINDING lines, exit codes (0 held, 1 violation, 2 machinery)."""

from __future__ import annotations

import json
import os
import sys
import time
from dataclasses import dataclass, field
from pathlib import Path
from typing import Any

ROOT = Path(__file__).resolve().parent.parent
EVIDENCE = ROOT / "evidence"
REPLAYS = ROOT / "replays"
KNOWN = ROOT / "KNOWN_FINDINGS.json"


class Machinery(Exception):
    """The check itself is broken (vacuous self-test, TLC failure, harness bug)."""


def quiet_gallia_logging() -> None:
    """gallia logs warnings for every scripted fault; keep stdout/stderr for verdicts."""
    import logging

    logging.disable(logging.CRITICAL)


def seed_from_env(default: int = 0) -> int:
    try:
        return int(os.environ.get("VERIF_SEED", default))
    except ValueError:
        return default


@dataclass
class Violation:
    clause: str  # label of the contract clause, e.g. "K4/outcome-implied"
    sig: dict[str, Any]  # identifying signature (matched against KNOWN_FINDINGS.json)
    detail: dict[str, Any]  # replayable case: inputs / script / trace


@dataclass
class Report:
    property_id: str
    tier: str
    seed: int
    level: str = "model_checking"
    states: int = 0
    transitions: int = 0
    traces: int = 0
    evaluations: int = 0
    nontrivial: set[Any] = field(default_factory=set)
    rule: str = ""
    samples: list[Any] = field(default_factory=list)
    exhaustive: bool | None = None
    extra: dict[str, Any] = field(default_factory=dict)
    assumptions: list[str] = field(default_factory=list)
    violations: list[Violation] = field(default_factory=list)
    drift: list[dict[str, Any]] = field(default_factory=list)
    t0: float = field(default_factory=time.time)

    def add_tlc(self, res: Any, label: str) -> None:
        self.states += res.distinct
        self.transitions += res.generated
        self.extra.setdefault("tlc_runs", []).append(
            {"run": label, "distinct": res.distinct, "generated": res.generated, "depth": res.depth,
             "wall_s": round(res.wall_s, 2), "violated": res.violated}
        )

    def sample(self, x: Any, cap: int = 6) -> None:
        if len(self.samples) < cap:
            self.samples.append(x)

    def violate(self, clause: str, sig: dict[str, Any], detail: dict[str, Any]) -> None:
        self.violations.append(Violation(clause, sig, detail))


def load_known(property_id: str) -> list[dict[str, Any]]:
    if not KNOWN.exists():
        return []
    data = json.loads(KNOWN.read_text())
    return [f for f in data.get("findings", []) if f.get("property") == property_id]


def _matches(sig: dict[str, Any], pattern: dict[str, Any]) -> bool:
    for k, v in pattern.items():
        if k not in sig:
            return False
        if isinstance(v, list):
            if sig[k] not in v:
                return False
        elif sig[k] != v:
            return False
    return True


def _spread(vs: list[Violation], per_key: int = 4, cap: int = 120) -> list[Violation]:
    """Keep a few violations per distinct (clause, signature) so that the replay file shows every kind."""
    cnt: dict[str, int] = {}
    out = []
    for v in vs:
        k = v.clause + json.dumps(v.sig, sort_keys=True, default=str)
        cnt[k] = cnt.get(k, 0) + 1
        if cnt[k] <= per_key and len(out) < cap:
            out.append(v)
    return out


def finish(rep: Report) -> int:
    """Write evidence, print KNOWN-FINDING / VIOLATION lines, return exit code."""
    known = load_known(rep.property_id)
    new: list[Violation] = []
    hit: dict[str, int] = {}
    for v in rep.violations:
        s = dict(v.sig)
        s["clause"] = v.clause
        for f in known:
            if _matches(s, f["match"]):
                hit[f["id"]] = hit.get(f["id"], 0) + 1
                break
        else:
            new.append(v)
    for f in known:
        if f["id"] in hit:
            print(f"KNOWN-FINDING: property={rep.property_id} {f['id']}: {f['what']} ({hit[f['id']]} cases this run)")
    replay_path = None
    if new:
        REPLAYS.mkdir(exist_ok=True)
        replay_path = REPLAYS / f"{rep.property_id}-{rep.tier}-{rep.seed}.json"
        replay_path.write_text(json.dumps(
            {"property": rep.property_id, "tier": rep.tier, "seed": rep.seed,
             "violations": [{"clause": v.clause, "sig": v.sig, "detail": v.detail} for v in _spread(new)],
             "n_violations": len(new)}, indent=1, default=str))
    cov: dict[str, Any] = {
        "states": max(rep.states, 0),
        "transitions": max(rep.transitions, 0),
        "traces_validated_against_impl": rep.traces,
        "samples": rep.samples if rep.samples else ["(no sample recorded)"],
        "evaluations": max(rep.evaluations, rep.traces),
        "distinct_nontrivial": len(rep.nontrivial),
        "rule": rep.rule,
    }
    if rep.exhaustive is not None:
        cov["exhaustive"] = rep.exhaustive
    cov["known_findings_hit"] = hit
    cov["drift"] = rep.drift[:20]
    cov.update(rep.extra)
    ev = {
        "property_id": rep.property_id,
        "tier": rep.tier,
        "seed": rep.seed,
        "level": rep.level,
        "coverage": cov,
        "assumptions": rep.assumptions,
        "wall_s": round(time.time() - rep.t0, 2),
        "violations": len(new),
    }
    EVIDENCE.mkdir(exist_ok=True)
    (EVIDENCE / f"{rep.property_id}.json").write_text(json.dumps(ev, indent=1, default=str))
    if new:
        seen = set()
        for v in new:
            k = (v.clause, json.dumps(v.sig, sort_keys=True, default=str))
            if k in seen:
                continue
            seen.add(k)
            if len(seen) <= 15:
                print(f"  violated {v.clause} sig={json.dumps(v.sig, sort_keys=True, default=str)}")
        print(f"VIOLATION property={rep.property_id} replay={replay_path}")
        return 1
    print(f"OK property={rep.property_id} tier={rep.tier} states={rep.states} traces={rep.traces} "
          f"evaluations={cov['evaluations']} wall={ev['wall_s']}s")
    return 0


def main_wrapper(fn: Any) -> None:
    try:
        rc = fn()
    except Machinery as e:
        print(f"MACHINERY-FAILURE: {e}", file=sys.stderr)
        sys.exit(2)
    sys.exit(rc)
