"""X14 -- drive the REAL `gallia discover uds isotp` (IsotpDiscoverer.main) on one case; nothing is judged here.

The sandbox has no CAN support (socket(PF_CAN, ...) fails with "Address family not supported by protocol").  What is
replaced is the KERNEL, not gallia: inside gallia.transports.can and gallia.transports.isotp the name `s` (the socket
module) is bound to a stand-in whose socket() hands out one end of an AF_UNIX datagram socket pair; the other end
belongs to an in-memory CAN bus (class Bus).  Everything above the system calls is gallia's own code:
RawCANTransport.connect / set_filter / sendto / recvfrom / get_idle_traffic, CANMessage.pack / unpack,
ISOTPTransport.connect / _setsockopts / write / read, UDSClient, IsotpDiscoverer.main / query_description.
`time.time()` inside gallia.transports.can (the sniff loop) reads the virtual clock of harness.vloop.

The bus does what the kernel + the wire do:
  * struct can_frame / canfd_frame (16 / 72 bytes, native byte order) decoded and encoded by the harness's own codec
  * CAN_RAW_FILTER / CAN_RAW_JOIN_FILTERS / CAN_INV_FILTER semantics of linux/net/can (a filter matches when
    rx_id & mask == can_id & mask; inverted filters; joined filters must all match; otherwise one match suffices),
    applied when a frame is delivered; own frames are not looped back; CAN FD frames only with CAN_RAW_FD_FRAMES
  * an ISO-TP socket is served on PDU level: bind((interface, rx id, tx id)), CAN_ISOTP_OPTS decoded (extended
    addressing, rx extended address, padding)
  * scripted ECUs answer to single frames on their request id (and extended address) with frames on their answer id
    after scripted delays, background nodes emit cyclic frames, ECUs may start cyclic frames when woken by a probe.

A case is plain JSON (replayable):
  {"target": {"iface": str, "xid": bool, "fd": bool},
   "cfg": {"start", "stop", "pad": int | None, "pdu": hex, "sleep": s, "ext": bool, "tester": int, "query": bool,
           "did": int, "sniff": int s, "timeout": s},
   "art": bool, "db": bool,
   "bg":   [{"id", "eff": bool, "first": ms, "every": ms, "until": ms | None, "d": hex}],
   "ecus": [{"rx": can id, "eff": bool, "ea": int | None, "tx": can id, "ta": int | None, "needpad": bool,
             "ans": [{"dt": ms, "d": hex, "tx": can id (optional, default the ECU's), "fd": bool}],
             "wake": {"id", "every": ms, "n": int} | None,
             "did": {"resp": hex | "sil", "dt": ms} | None}]}
"""

from __future__ import annotations

import asyncio
import shutil
import socket
import struct
import tempfile
from pathlib import Path
from typing import Any

from harness import vloop

CAN_EFF_FLAG, CAN_RTR_FLAG, CAN_ERR_FLAG = 0x80000000, 0x40000000, 0x20000000
CAN_INV_FILTER = 0x20000000
CAN_SFF_MASK, CAN_EFF_MASK = 0x7FF, 0x1FFFFFFF
SOL_CAN_RAW, CAN_RAW_FILTER, CAN_RAW_FD_FRAMES, CAN_RAW_JOIN_FILTERS = 101, 1, 5, 6
SOL_CAN_ISOTP, CAN_ISOTP_OPTS, CAN_ISOTP_LL_OPTS = 106, 1, 5
ISOTP_EXTEND_ADDR, ISOTP_TX_PADDING, ISOTP_RX_PADDING, ISOTP_RX_EXT_ADDR = 0x002, 0x004, 0x008, 0x200
CAN_FILTER_MAX = 512
FRAME = struct.Struct("=IB3x8s")
FDFRAME = struct.Struct("=IBB2x64s")


def encode_frame(can_id: int, eff: bool, data: bytes, fd: bool = False, rtr: bool = False) -> bytes:
    word = can_id | (CAN_EFF_FLAG if eff else 0) | (CAN_RTR_FLAG if rtr else 0)
    if fd:
        return FDFRAME.pack(word, len(data), 0, data.ljust(64, b"\0"))
    return FRAME.pack(word, len(data), data.ljust(8, b"\0"))


def decode_frame(raw: bytes) -> dict[str, Any]:
    """struct can_frame / canfd_frame as the kernel reads it (None fields when the size is neither 16 nor 72)."""
    if len(raw) == 16:
        word, n, data = FRAME.unpack(raw)
        fd = False
    elif len(raw) == 72:
        word, n, _fl, data = FDFRAME.unpack(raw)
        fd = True
    else:
        return {"ok": False, "size": len(raw)}
    eff = bool(word & CAN_EFF_FLAG)
    return {"ok": True, "size": len(raw), "word": word, "eff": eff, "rtr": bool(word & CAN_RTR_FLAG),
            "err": bool(word & CAN_ERR_FLAG), "id": word & (CAN_EFF_MASK if eff else CAN_SFF_MASK),
            "rawid": word & CAN_EFF_MASK, "len": n, "d": bytes(data[:min(n, len(data))]), "fd": fd,
            "tail": bytes(data[min(n, len(data)):])}


# ------------------------------------------------------------------ the two socket kinds the kernel would provide
class _PairSocket(socket.socket):
    """One end of a unix datagram socket pair standing for a PF_CAN socket."""

    end: Any = None

    def bind(self, addr: Any) -> None:  # type: ignore[override]
        self.end.on_bind(addr)

    def setsockopt(self, level: int, opt: int, value: Any, *a: Any) -> None:  # type: ignore[override]
        self.end.on_sockopt(level, opt, value)

    def send(self, data: Any, *a: Any) -> int:  # type: ignore[override]
        # the frame is on the wire when the system call returns (no detour through the loop: what the application reads
        # next must already see the bus's reaction in the right order)
        self.end.from_app(bytes(data))
        return len(data)

    def recv(self, n: int, *a: Any) -> bytes:  # type: ignore[override]
        data = super().recv(n, *a)
        self.end.on_read(data)
        return data

    def close(self) -> None:
        self.end.on_close()
        super().close()


class _End:
    def __init__(self, bus: "Bus", kind: str) -> None:
        self.bus, self.kind = bus, kind
        a, b = socket.socketpair(socket.AF_UNIX, socket.SOCK_DGRAM)
        self.sock = _PairSocket(fileno=a.detach())
        self.sock.end = self
        self.peer = b
        self.peer.setblocking(False)
        self.closed = False
        self.iface: str | None = None
        self.fifo: list[int] = []          # sequence numbers of the frames queued for the application
        self.call_t: float | None = None   # start of the application's current loop.sock_recv() call
        # raw
        self.filters: list[tuple[int, int]] | None = None
        self.join = False
        self.fd_frames = False
        # isotp
        self.rx = self.tx = -1
        self.flags = 0
        self.opts = (0, 0, 0, 0)           # ext_address, txpad, rxpad, rx_ext_address
        self.pdus: list[list[int]] = []
        self.reached: list[int] = []

    # ---- what the application does with its socket
    def on_bind(self, addr: Any) -> None:
        self.iface = str(addr[0])
        if self.kind == "isotp":
            self.rx, self.tx = int(addr[1]), int(addr[2])

    def on_sockopt(self, level: int, opt: int, value: Any) -> None:
        if self.kind == "raw" and level == SOL_CAN_RAW:
            if opt == CAN_RAW_FILTER:
                data = bytes(value)
                if len(data) % 8 or len(data) // 8 > CAN_FILTER_MAX:
                    raise OSError(22, "Invalid argument")
                self.filters = [struct.unpack_from("=II", data, o) for o in range(0, len(data), 8)]
            elif opt == CAN_RAW_JOIN_FILTERS:
                self.join = bool(value)
            elif opt == CAN_RAW_FD_FRAMES:
                self.fd_frames = bool(value)
            self.bus.log.append({"e": "O", "opt": opt, "n": len(self.filters or [])})
        elif self.kind == "isotp" and level == SOL_CAN_ISOTP and opt == CAN_ISOTP_OPTS:
            flags, _txtime, ext, txpad, rxpad, rext = struct.unpack("@IIBBBB", bytes(value))
            self.flags, self.opts = flags, (ext, txpad, rxpad, rext)

    def on_read(self, data: bytes) -> None:
        seq = self.fifo.pop(0) if self.fifo else -1
        if self.kind == "raw":
            self.bus.on_app_read(self, seq)

    def on_close(self) -> None:
        if not self.closed:
            self.closed = True

    def dispose(self) -> None:
        self.on_close()
        for x in (self.peer, self.sock):
            try:
                socket.socket.close(x)
            except OSError:
                pass

    # ---- kernel side
    def from_app(self, raw: bytes) -> None:
        if self.closed:
            raise OSError(9, "Bad file descriptor")
        if self.kind == "raw":
            self.bus.on_probe(self, raw)
        else:
            self.bus.on_isotp_pdu(self, raw)

    def passes(self, word: int) -> bool:
        """linux/net/can/af_can.c + raw.c: does this socket's filter set let a frame with this can_id word through?"""
        if self.filters is None:
            return True
        hits = 0
        for fid, mask in self.filters:
            inv = bool(fid & CAN_INV_FILTER)
            fid &= ~CAN_INV_FILTER
            if (mask & CAN_EFF_FLAG) and not (fid & CAN_EFF_FLAG):
                mask &= CAN_SFF_MASK | CAN_EFF_FLAG | CAN_RTR_FLAG
            m = (word & mask) == (fid & mask)
            hits += (m != inv)
        return hits == len(self.filters) if self.join else hits > 0

    def to_app(self, raw: bytes, seq: int) -> bool:
        try:
            self.peer.send(raw)
        except (BlockingIOError, OSError):
            return False            # receive buffer full: the kernel drops the frame
        self.fifo.append(seq)
        return True


class _SocketModule:
    """Stands for the name `s` (= the socket module) inside gallia.transports.can / gallia.transports.isotp."""

    def __init__(self, bus: "Bus") -> None:
        self._bus = bus

    def __getattr__(self, name: str) -> Any:
        return getattr(socket, name)

    def socket(self, family: int = -1, type: int = -1, proto: int = -1, fileno: Any = None) -> socket.socket:  # noqa: A002
        if family != socket.PF_CAN:
            return socket.socket(family, type, proto, fileno)
        if type == socket.SOCK_RAW and proto == socket.CAN_RAW:
            return self._bus.new_end("raw").sock
        if type == socket.SOCK_DGRAM and proto == socket.CAN_ISOTP:
            return self._bus.new_end("isotp").sock
        raise OSError(93, "Protocol not supported")


class _Clock:
    def __init__(self, loop: asyncio.AbstractEventLoop) -> None:
        self._loop = loop

    def time(self) -> float:
        return self._loop.time()

    def __getattr__(self, name: str) -> Any:
        import time as _t

        return getattr(_t, name)


# ------------------------------------------------------------------ the bus
class Bus:
    def __init__(self, case: dict[str, Any], loop: asyncio.AbstractEventLoop, mutant: str | None = None) -> None:
        self.case, self.loop, self.mutant = case, loop, mutant
        self.ends: list[_End] = []
        self.log: list[dict[str, Any]] = []
        self.frames: list[dict[str, Any]] = []      # every frame delivered to the scanner's raw socket
        self.nprobe = 0
        self.woken: set[int] = set()
        self.stopped = False
        for n in case.get("bg", []):
            loop.call_at(n["first"] / 1000.0, self._bg, n)

    def ms(self) -> int:
        return int(round(self.loop.time() * 1000))

    def new_end(self, kind: str) -> _End:
        e = _End(self, kind)
        self.ends.append(e)
        return e

    def dispose(self) -> None:
        self.stopped = True
        for e in self.ends:
            e.dispose()

    # ---- frames on the wire
    def emit(self, can_id: int, eff: bool, data: bytes, cause: int, sender: _End | None = None, fd: bool = False,
             rtr: bool = False) -> None:
        if self.stopped:
            return
        raw = encode_frame(can_id, eff, data, fd=fd, rtr=rtr)
        word = can_id | (CAN_EFF_FLAG if eff else 0) | (CAN_RTR_FLAG if rtr else 0)
        for e in self.ends:
            if e.kind != "raw" or e is sender or e.closed:
                continue
            if fd and not e.fd_frames:
                self.log.append({"e": "X", "t": self.ms(), "a": can_id, "why": "fd"})
                continue
            if not e.passes(word):
                self.log.append({"e": "X", "t": self.ms(), "a": can_id, "why": "filter"})
                continue
            seq = len(self.frames)
            shown = data
            if self.mutant == "bus-delivers-other-id" and cause > 0:
                raw = encode_frame(can_id ^ 1, eff, data, fd=fd, rtr=rtr)   # the record keeps the scripted id
            if e.to_app(raw, seq):
                self.frames.append({"seq": seq, "a": can_id, "eff": eff, "d": list(shown), "t": self.ms(), "c": cause,
                                    "read": -1, "tq": self.loop.time()})
                self.log.append({"e": "D", "t": self.ms(), "seq": seq})
            else:
                self.log.append({"e": "X", "t": self.ms(), "a": can_id, "why": "overrun"})

    def _bg(self, n: dict[str, Any]) -> None:
        if self.stopped:
            return
        until = n.get("until")
        if until is not None and self.ms() > until:
            return
        self.emit(int(n["id"]), bool(n.get("eff", False)), bytes.fromhex(n.get("d", "0011223344556677")), 0)
        self.loop.call_later(n["every"] / 1000.0, self._bg, n)

    def _wake(self, w: dict[str, Any], left: int) -> None:
        if self.stopped or left == 0:
            return
        self.emit(int(w["id"]), bool(w.get("eff", False)), bytes.fromhex(w.get("d", "a5a5")), 0)
        self.loop.call_later(w["every"] / 1000.0, self._wake, w, left - 1)

    # ---- the scanner's raw socket
    def on_app_read(self, end: _End, seq: int) -> None:
        waited = False
        if 0 <= seq < len(self.frames):
            self.frames[seq]["read"] = self.ms()
            # the receive call that returns this frame had been started before the frame was queued
            waited = end.call_t is not None and end.call_t < self.frames[seq]["tq"]
        self.log.append({"e": "R", "t": self.ms(), "seq": seq, "w": waited})

    def on_probe(self, end: _End, raw: bytes) -> None:
        f = decode_frame(raw)
        self.nprobe += 1
        k = self.nprobe
        pend = len(end.fifo)
        rec: dict[str, Any] = {"e": "W", "t": self.ms(), "k": k, "pend": pend, "size": f["size"], "ok": f["ok"]}
        if f["ok"]:
            rec.update(can=f["id"], eff=f["eff"], rtr=f["rtr"], err=f["err"], d=list(f["d"]), fd=f["fd"], len=f["len"],
                       tail=list(f["tail"][: 8 - min(8, len(f["d"]))]) if not f["fd"] else [])
        self.log.append(rec)
        if not f["ok"] or f["rtr"] or f["err"]:
            return
        self.emit(f["id"], f["eff"], f["d"], 0, sender=end, fd=f["fd"])    # other raw sockets see it, the sender does not
        rec["an"] = []
        for i, ecu in enumerate(self.case.get("ecus", [])):
            if not self._addressed(ecu, f):
                continue
            for a in ecu.get("ans", []):
                tx, eff, fd = int(a.get("tx", ecu["tx"])), bool(a.get("eff", ecu.get("eff", False))), bool(a.get("fd", False))
                vis = (end.fd_frames or not fd) and end.passes(tx | (CAN_EFF_FLAG if eff else 0))
                rec["an"].append({"a": tx, "dt": int(a["dt"]), "vis": vis})
                self._later(a["dt"], tx, eff, bytes.fromhex(a["d"]), k, fd)
            w = ecu.get("wake")
            if w and i not in self.woken:
                self.woken.add(i)
                self.loop.call_later(w.get("first", w["every"]) / 1000.0, self._wake, w, int(w.get("n", -1)))

    def _later(self, dt: int, can_id: int, eff: bool, data: bytes, cause: int, fd: bool) -> None:
        if dt <= 0:
            self.emit(can_id, eff, data, cause, fd=fd)
        else:
            self.loop.call_later(dt / 1000.0, self.emit, can_id, eff, data, cause, None, fd)

    @staticmethod
    def _addressed(ecu: dict[str, Any], f: dict[str, Any]) -> bool:
        """An ECU's ISO-TP layer accepts a single frame on its request id (ISO 15765-2: PCI type 0, SF_DL 1..7 resp. 1..6
        with extended addressing, SF_DL bytes present; with `needpad` the frame must fill the CAN frame)."""
        if f["id"] != int(ecu["rx"]) or f["eff"] != bool(ecu.get("eff", False)):
            return False
        d = f["d"]
        if ecu.get("ea") is not None:
            if not d or d[0] != int(ecu["ea"]):
                return False
            d = d[1:]
        if not d or d[0] >> 4 != 0:
            return False
        n = d[0] & 0x0F
        if n == 0 or len(d) - 1 < n:
            return False
        if ecu.get("needpad") and len(f["d"]) != 8:
            return False
        if ecu.get("pdu") is not None and bytes(d[1:1 + n]).hex() != ecu["pdu"]:
            return False
        return True

    # ---- an ISO-TP socket (PDU level)
    def on_isotp_pdu(self, end: _End, pdu: bytes) -> None:
        end.pdus.append(list(pdu))
        ext, _txpad, _rxpad, rext = end.opts
        use_ext = bool(end.flags & ISOTP_EXTEND_ADDR)
        rx_ext = rext if end.flags & ISOTP_RX_EXT_ADDR else ext
        tx_eff, rx_eff = bool(end.tx & CAN_EFF_FLAG), bool(end.rx & CAN_EFF_FLAG)
        tx_id = end.tx & (CAN_EFF_MASK if tx_eff else CAN_SFF_MASK)
        rx_id = end.rx & (CAN_EFF_MASK if rx_eff else CAN_SFF_MASK)
        for i, ecu in enumerate(self.case.get("ecus", [])):
            if int(ecu["rx"]) != tx_id or bool(ecu.get("eff", False)) != tx_eff:
                continue
            if (ecu.get("ea") is not None) != use_ext or (use_ext and int(ecu["ea"]) != ext):
                continue
            if ecu.get("needpad") and not end.flags & ISOTP_TX_PADDING:
                continue
            end.reached.append(i)
            did = ecu.get("did")
            if not did or did.get("resp", "sil") == "sil":
                continue
            if int(ecu["tx"]) != rx_id or bool(ecu.get("eff", False)) != rx_eff:
                continue
            if use_ext and ecu.get("ta") is not None and int(ecu["ta"]) != rx_ext:
                continue
            resp = bytes.fromhex(did["resp"])
            self.loop.call_later(max(1, int(did.get("dt", 5))) / 1000.0, self._isotp_deliver, end, resp)

    def _isotp_deliver(self, end: _End, pdu: bytes) -> None:
        if not end.closed and not self.stopped:
            end.to_app(pdu, -1)


# ------------------------------------------------------------------ database stand-in, URI parsing
class FakeDB:
    def __init__(self) -> None:
        self.results: list[str] = []

    async def insert_discovery_run(self, protocol: str) -> None:
        pass

    async def insert_discovery_result(self, target: str) -> None:
        await asyncio.sleep(0)
        self.results.append(str(target))


def parse_uri(line: str) -> dict[str, Any]:
    """An emitted line read back with gallia's own TargetURI / ISOTPConfig (what ISOTPTransport.connect does)."""
    from gallia.transports.base import TargetURI
    from gallia.transports.isotp import ISOTPConfig

    bad = {"ok": False, "host": "", "src": -1, "dst": -1, "xid": False, "fd": False, "ea": -1, "rea": -1, "txpad": -1,
           "rxpad": -1}
    try:
        t = TargetURI(line.strip())
        if str(getattr(t.scheme, "value", t.scheme)) != "isotp" or t.hostname is None:
            return bad
        c = ISOTPConfig(**t.qs_flat)

        def opt(v: int | None) -> int:
            return -1 if v is None else int(v)

        for v in (c.src_addr, c.dst_addr):
            if not 0 <= int(v) < 2**29:
                return bad
        return {"ok": True, "host": str(t.hostname), "src": int(c.src_addr), "dst": int(c.dst_addr),
                "xid": bool(c.is_extended), "fd": bool(c.is_fd), "ea": opt(c.ext_address), "rea": opt(c.rx_ext_address),
                "txpad": opt(c.tx_padding), "rxpad": opt(c.rx_padding)}
    except Exception:  # noqa: BLE001
        return bad


def target_uri(t: dict[str, Any]) -> str:
    q = []
    if t.get("xid"):
        q.append("is_extended=true")
    if t.get("fd"):
        q.append("is_fd=true")
    return f"can-raw://{t['iface']}" + ("?" + "&".join(q) if q else "")


# ------------------------------------------------------------------ one execution
def run_scan(case: dict[str, Any], mutant: str | None = None, horizon: float = 300.0) -> dict[str, Any]:
    import gallia.transports.can as can_mod
    import gallia.transports.isotp as isotp_mod
    from gallia.commands.discover.uds.isotp import IsotpDiscoverer, IsotpDiscovererConfig

    c = case["cfg"]
    tmp = Path(tempfile.mkdtemp(prefix="x14-"))
    out: dict[str, Any] = {"done": "?", "exc": ""}
    box: dict[str, Any] = {}
    db = FakeDB()

    async def go() -> None:
        loop = asyncio.get_running_loop()
        bus = Bus(case, loop, mutant)
        box["bus"] = bus
        real_sock_recv = loop.sock_recv

        async def sock_recv(sock: Any, n: int) -> bytes:      # observation only: when did this receive call start?
            end = getattr(sock, "end", None)
            if end is not None:
                end.call_t = loop.time()
            return await real_sock_recv(sock, n)

        loop.sock_recv = sock_recv  # type: ignore[method-assign]
        shim = _SocketModule(bus)
        can_mod.s = shim              # type: ignore[attr-defined]
        isotp_mod.s = shim            # type: ignore[attr-defined]
        can_mod.time = _Clock(loop)   # type: ignore[attr-defined]
        kw: dict[str, Any] = dict(target=target_uri(case["target"]), start=int(c["start"]), stop=int(c["stop"]),
                                  pdu=bytes.fromhex(c["pdu"]), sleep=float(c["sleep"]), extended_addr=bool(c["ext"]),
                                  tester_addr=int(c["tester"]), query=bool(c["query"]), info_did=int(c["did"]),
                                  sniff_time=int(c["sniff"]), timeout=float(c["timeout"]), dumpcap=False)
        if c.get("pad") is not None:
            kw["padding"] = int(c["pad"])
        try:
            sc = IsotpDiscoverer(IsotpDiscovererConfig(**kw))
        except Exception as e:  # noqa: BLE001
            out["done"], out["exc"] = "cfg", repr(e)[:200]
            return
        if case.get("art", True):
            sc.artifacts_dir = tmp
        if case.get("db", True):
            sc.db_handler = db  # type: ignore[assignment]
        try:
            await sc.main()
            out["done"] = "ok"
        except SystemExit as e:
            out["done"] = "ok" if e.code in (0, None) else "exc"
            out["exc"] = f"SystemExit({e.code})"
        except asyncio.CancelledError:
            t = asyncio.current_task()
            if t is not None and t.cancelling() > 0:
                raise
            out["done"], out["exc"] = "exc", "CancelledError()"
        except BaseException as e:  # noqa: BLE001
            out["done"], out["exc"] = "exc", repr(e)[:200]
        bus.stopped = True
        await asyncio.sleep(0)

    saved = (can_mod.s, isotp_mod.s, can_mod.time)
    try:
        try:
            vloop.run(go(), horizon=horizon)
        except (TimeoutError, vloop.BlockedForever):
            out["done"] = "hang"
        bus: Bus | None = box.get("bus")
        p = tmp / "ECUs.txt"
        lines = [ln for ln in p.read_text().split("\n") if ln.strip()] if p.exists() else []
        res = {"case": case, "log": bus.log if bus else [], "frames": [{k: v for k, v in f.items() if k != "tq"} for f in (bus.frames if bus else [])],
               "file": [parse_uri(x) for x in lines], "db": [parse_uri(x) for x in db.results], "has_file": p.exists(),
               "raw": lines[:8], "done": out["done"], "exc": out["exc"],
               "isotp": [{"iface": e.iface or "", "rx": e.rx, "tx": e.tx, "flags": e.flags, "opts": list(e.opts),
                          "pdus": e.pdus, "reached": e.reached, "closed": e.closed}
                         for e in (bus.ends if bus else []) if e.kind == "isotp"],
               "raw_sockets": sum(1 for e in (bus.ends if bus else []) if e.kind == "raw")}
        return res
    finally:
        can_mod.s, isotp_mod.s, can_mod.time = saved  # type: ignore[attr-defined]
        b = box.get("bus")
        if b is not None:
            b.dispose()
        shutil.rmtree(tmp, ignore_errors=True)


# ------------------------------------------------------------------ layout for the trace spec (structural only)
def to_trace(r: dict[str, Any]) -> dict[str, Any]:
    """Group the bus log by probe windows: window k = from the k-th probe frame to the next one (or the end)."""
    case, c, t = r["case"], r["case"]["cfg"], r["case"]["target"]
    frames = r["frames"]
    idle: list[int] = []
    seen: list[int] = []
    sniff_ms = int(c["sniff"]) * 1000
    probes: list[dict[str, Any]] = []
    cur: dict[str, Any] | None = None
    for e in r["log"]:
        if e["e"] == "W":
            cur = {"t": e["t"], "ok": bool(e["ok"]), "can": e.get("can", -1), "eff": bool(e.get("eff", False)),
                   "rtr": bool(e.get("rtr", False)) or bool(e.get("err", False)), "d": e.get("d", []),
                   "fd": bool(e.get("fd", False)), "pend": e["pend"], "an": e.get("an", []), "dl": [], "rd": []}
            probes.append(cur)
        elif e["e"] == "D" and cur is not None:
            f = frames[e["seq"]]
            cur["dl"].append({"a": f["a"], "dt": e["t"] - cur["t"], "c": f["c"]})
        elif e["e"] == "R":
            f = frames[e["seq"]] if 0 <= e["seq"] < len(frames) else None
            if f is None:
                continue
            if cur is None:
                seen.append(f["a"])
                if f["t"] < sniff_ms:
                    idle.append(f["a"])
            else:
                cur["rd"].append({"a": f["a"], "c": f["c"], "b0": f["d"][0] if f["d"] else -1,
                                  "tdl": f["t"] - cur["t"], "w": bool(e["w"])})
    for p in probes:
        del p["t"]
        if r["done"] == "hang":          # a window that never ends: the verdict of a hanging scan only asks whether frames
            p["dl"], p["rd"] = p["dl"][:400], p["rd"][:400]      # that are nobody's answer were on the bus
    q = []
    for s in r["isotp"]:
        eff = bool(s["tx"] & CAN_EFF_FLAG)
        q.append({"iface": s["iface"], "src": s["tx"] & (CAN_EFF_MASK if eff else CAN_SFF_MASK),
                  "dst": s["rx"] & (CAN_EFF_MASK if s["rx"] & CAN_EFF_FLAG else CAN_SFF_MASK), "xid": eff,
                  "ea": s["opts"][0] if s["flags"] & ISOTP_EXTEND_ADDR else -1,
                  "rea": s["opts"][3] if s["flags"] & ISOTP_RX_EXT_ADDR else -1,
                  "pdus": s["pdus"], "reached": len(s["reached"]) > 0})
    return {"kind": "scan",
            "cfg": {"start": int(c["start"]), "stop": int(c["stop"]), "ext": bool(c["ext"]), "tester": int(c["tester"]),
                    "pad": -1 if c.get("pad") is None else int(c["pad"]), "pdu": list(bytes.fromhex(c["pdu"])),
                    "timeout": int(round(float(c["timeout"]) * 1000)), "xid": bool(t.get("xid", False)),
                    "fd": bool(t.get("fd", False)), "iface": t["iface"], "query": bool(c["query"]), "did": int(c["did"]),
                    "art": bool(case.get("art", True)), "db": bool(case.get("db", True))},
            "idle": sorted(set(idle)), "seen": sorted(set(seen)), "probes": probes, "file": r["file"], "db": r["db"], "hasFile": bool(r["has_file"]),
            "q": q, "done": r["done"]}


# ------------------------------------------------------------------ pure helpers and configuration validation
def run_pure(case: dict[str, Any]) -> dict[str, Any]:
    """{"kind": "pack", id, eff, rtr, err, fd, brs, esi, d: hex} | {"kind": "repr", "i": int} | {"kind": "cfgcheck", ...}"""
    k = case["kind"]
    if k == "pack":
        from gallia.transports.can import CANMessage

        m = CANMessage(arbitration_id=int(case["id"]), is_extended_id=bool(case["eff"]), is_remote_frame=bool(case["rtr"]),
                       is_error_frame=bool(case["err"]), is_fd=bool(case["fd"]), bitrate_switch=bool(case.get("brs", False)),
                       error_state_indicator=bool(case.get("esi", False)), data=bytes.fromhex(case["d"]))
        out: dict[str, Any] = {"kind": "pack", "cid": list(int(case["id"]).to_bytes(4, "big")), "eff": bool(case["eff"]),
                               "rtr": bool(case["rtr"]), "err": bool(case["err"]), "fd": bool(case["fd"]),
                               "brs": bool(case.get("brs", False)), "esi": bool(case.get("esi", False)),
                               "d": list(bytes.fromhex(case["d"])), "le": struct.pack("=H", 1)[0] == 1}
        try:
            raw = m.pack()
            out["packed"], out["packok"] = list(raw), True
        except Exception:  # noqa: BLE001
            out["packed"], out["packok"] = [], False
            raw = b""
        try:
            u = CANMessage.unpack(raw)
            out["un"] = {"ok": True, "cid": list(int(u.arbitration_id).to_bytes(4, "big")), "eff": bool(u.is_extended_id),
                         "rtr": bool(u.is_remote_frame), "err": bool(u.is_error_frame), "fd": bool(u.is_fd),
                         "brs": bool(u.bitrate_switch), "esi": bool(u.error_state_indicator), "d": list(u.data)}
        except Exception:  # noqa: BLE001
            out["un"] = {"ok": False, "cid": [0, 0, 0, 0], "eff": False, "rtr": False, "err": False, "fd": False,
                         "brs": False, "esi": False, "d": []}
        return out
    if k == "repr":
        from gallia.utils import can_id_repr

        i = int(case["i"])
        try:
            sres = can_id_repr(i)
            digits = [int(ch, 16) if ch in "0123456789abcdef" else -1 for ch in sres]
            ok = True
        except Exception:  # noqa: BLE001
            digits, ok = [], False
        return {"kind": "repr", "i": list(i.to_bytes(4, "big")), "digits": digits, "ok": ok}
    if k == "cfgcheck":
        from gallia.commands.discover.uds.isotp import IsotpDiscovererConfig

        try:
            IsotpDiscovererConfig(target=case["target"], start=int(case["start"]), stop=int(case["stop"]),
                                  extended_addr=bool(case["ext"]), dumpcap=False)
            acc = True
        except Exception:  # noqa: BLE001
            acc = False
        return {"kind": "cfgcheck", "scheme": case["target"].split("://", 1)[0], "start": int(case["start"]),
                "stop": int(case["stop"]), "ext": bool(case["ext"]), "accepted": acc}
    raise ValueError(k)


def run_case(case: dict[str, Any], mutant: str | None = None) -> dict[str, Any]:
    if case.get("kind", "scan") != "scan":
        t = run_pure(case)
    else:
        t = to_trace(run_scan(case, mutant))
    t["origin"] = case.get("origin", "")
    return t
